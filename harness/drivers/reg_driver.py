"""Generic registry-history driver (REG fidelity test and base for C04..C09)."""
import _boot
import reg_common as R

payload = _boot.read_payload()
out = []
for case in payload["cases"]:
    try:
        w = R.World(case)
        answers = R.run_ops(w, case["ops"])
        out.append({"specs": w.observed_specs(),
                    "obj_provides": [w.spec_id(R.providedBy(o)) for o in w.objects],
                    "answers": answers})
    except Exception as e:  # noqa
        out.append({"error": "%s: %s" % (type(e).__name__, e)})
_boot.write_result({"obs": out})
