"""C03 driver: build hierarchies of real specifications and report their resolution orders.

payload: {"cases": [case, ...]}
case = {"stream": str,
        "nodes": [ {"kind": "iface", "bases": [ids]} |
                   {"kind": "class", "cbases": [ids of earlier class nodes], "impl": [iface ids]} ],
                   an iface node may carry "falsy": 1|2 (an InterfaceClass subclass with __len__ -> 0 / __bool__ -> False)
                   an iface node may carry "twin_of": id  (same __name__/__module__ as that earlier node)
        "rebase": [[node_id, [new base ids]], ...]        (optional; a third element False = do not observe after it)
        "env_strict": bool                                  (optional: only used by the oracle stream)
       }
Node ids: 0 is ``Interface``; case nodes are 1..n in creation order; further specifications that
show up through ``__bases__`` (``implementedBy(object)``…) get the next numbers.

output per case: {"kinds": [is_interface by id], "phases": [phase, ...]} or {"exc": "..."}
phase = {"graph": [[id, [base ids]], ...], "obs": [[id, sro, iro, ro, ro_strict|None, ro_legacy, consistent], ...]}
Everything is numbers / lists / bools.
"""
import os

for _v in ("ZOPE_INTERFACE_STRICT_IRO", "ZOPE_INTERFACE_USE_LEGACY_IRO", "ZOPE_INTERFACE_TRACK_BAD_IRO",
           "ZOPE_INTERFACE_WARN_BAD_IRO", "ZOPE_INTERFACE_LOG_CHANGED_IRO"):
    if not os.environ.get("C03_KEEP_ENV"):
        os.environ.pop(_v, None)

import _boot  # noqa: E402
from zope.interface import Interface, implementedBy, implementer  # noqa: E402
from zope.interface import ro  # noqa: E402
from zope.interface.interface import InterfaceClass  # noqa: E402


class FalsyLen(InterfaceClass):
    """an interface whose truth value is false through __len__ (node attribute "falsy": 1)"""
    def __len__(self):
        return 0


class FalsyBool(InterfaceClass):
    """an interface whose truth value is false through __bool__ (node attribute "falsy": 2)"""
    def __bool__(self):
        return False


IFACE_CLASS = {0: InterfaceClass, 1: FalsyLen, 2: FalsyBool}


class World:
    def __init__(self):
        self.specs = [Interface]
        self.ids = {id(Interface): 0}

    def num(self, spec):
        k = id(spec)
        if k not in self.ids:
            self.ids[k] = len(self.specs)
            self.specs.append(spec)
        return self.ids[k]

    def close(self):
        """number everything reachable through __bases__ (and whatever shows up in an __sro__)"""
        i = 0
        while i < len(self.specs):
            s = self.specs[i]
            for b in s.__bases__:
                self.num(b)
            for b in s.__sro__:
                self.num(b)
            i += 1

    def nums(self, seq):
        return [self.num(s) for s in seq]


def strict_ro(spec):
    try:
        return list(ro.ro(spec, strict=True))
    except ro.InconsistentResolutionOrderError:
        return None


def observe(w):
    w.close()
    graph = []
    obs = []
    for i, s in enumerate(list(w.specs)):
        graph.append([i, w.nums(s.__bases__)])
        st = strict_ro(s)
        obs.append([i, w.nums(s.__sro__), w.nums(s.__iro__), w.nums(ro.ro(s, strict=False)),
                    None if st is None else w.nums(st), w.nums(ro.ro(s, strict=False, use_legacy_ro=True)),
                    bool(ro.is_consistent(s))])
    w.close()
    assert len(graph) == len(w.specs), "a specification appeared while observing"
    return {"graph": graph, "obs": obs}


def build(case, idx, w):
    classes = {}
    for i, nd in enumerate(case["nodes"], 1):
        if nd["kind"] == "iface":
            # "twin_of": a distinct object with the (__name__, __module__) of an earlier node
            s = IFACE_CLASS[nd.get("falsy", 0)]("I%d_%d" % (idx, nd.get("twin_of", i)),
                                                tuple(w.specs[b] for b in nd["bases"]), {})
        else:
            cb = tuple(classes[c] for c in nd["cbases"]) or (object,)
            cls = type("K%d_%d" % (idx, i), cb, {})
            if nd["impl"]:
                cls = implementer(*[w.specs[b] for b in nd["impl"]])(cls)
            classes[i] = cls
            s = implementedBy(cls)
        n = w.num(s)
        assert n == i, (n, i)


def run_case(case, idx):
    w = World()
    build(case, idx, w)
    phases = [observe(w)]
    for op in case.get("rebase", []):
        x, nb = op[0], op[1]
        w.specs[x].__bases__ = tuple(w.specs[b] for b in nb)
        if len(op) < 3 or op[2]:          # [node, bases, False]: no observation after this step
            phases.append(observe(w))
    kinds = [isinstance(s, InterfaceClass) for s in w.specs]
    out = {"kinds": kinds, "phases": phases}
    if case.get("twins"):
        # the same shape and history with unique names: only used to recognise known finding F15
        plain = dict(case, twins=False, nodes=[{k: v for k, v in nd.items() if k != "twin_of"} for nd in case["nodes"]])
        out["ref"] = run_case(plain, idx + 100000)["phases"]
    return out


def run_env_strict(case, idx):
    """oracle stream (process started with ZOPE_INTERFACE_STRICT_IRO=1): interfaces are created in
    order; report the __sro__ of each, and None for the first whose creation raises."""
    assert ro.C3.STRICT_IRO, "strict environment expected"
    w = World()
    out = []
    for i, nd in enumerate(case["nodes"], 1):
        try:
            s = InterfaceClass("S%d_%d" % (idx, i), tuple(w.specs[b] for b in nd["bases"]), {})
        except ro.InconsistentResolutionOrderError:
            out.append([i, None])
            break
        w.num(s)
        out.append([i, w.nums(s.__sro__)])
    return {"created": out}


def run_env_legacy(case, idx):
    """oracle stream (process started with ZOPE_INTERFACE_USE_LEGACY_IRO=1): every __sro__."""
    assert ro.C3.USE_LEGACY_IRO, "legacy environment expected"
    import logging
    logging.disable(logging.CRITICAL)   # "different legacy and C3 MROs" reports are not of interest
    w = World()
    build(case, idx, w)
    w.close()
    return {"graph": [[i, w.nums(s.__bases__)] for i, s in enumerate(w.specs)],
            "sros": [[i, w.nums(s.__sro__)] for i, s in enumerate(w.specs)]}


class Obj:
    """plain stand-in: ro.ro only needs ``__bases__`` (such objects get in whatever the setting is)"""
    def __init__(self, bases):
        self.__bases__ = tuple(bases)


def _call(f):
    try:
        return f()
    except ro.InconsistentResolutionOrderError:
        return None


def run_env_settings(case, idx, which):
    """process started with ZOPE_INTERFACE_STRICT_IRO=1 (which='strict') or ..._USE_LEGACY_IRO=1
    ('legacy').  variant 'objs': stand-in objects mirroring the DAG (node 0 has no bases);
    variant 'ifaces': real interfaces; when the strict setting refuses a creation the interface is created
    without bases and the bases are assigned afterwards (the assignment raises but the new bases stay)."""
    assert (ro.C3.STRICT_IRO if which == "strict" else ro.C3.USE_LEGACY_IRO), "environment expected"
    import logging
    logging.disable(logging.CRITICAL)
    if case["variant"] == "objs":
        nodes = [Obj(())]
        for nd in case["nodes"]:
            nodes.append(Obj([nodes[b] for b in nd["bases"]]))
    else:
        nodes = [Interface]
        for i, nd in enumerate(case["nodes"], 1):
            bases = tuple(nodes[b] for b in nd["bases"])
            try:
                s = InterfaceClass("E%d_%d" % (idx, i), bases, {})
            except ro.InconsistentResolutionOrderError:
                s = InterfaceClass("E%d_%d" % (idx, i), (), {})
                try:
                    s.__bases__ = bases
                except ro.InconsistentResolutionOrderError:
                    pass
            nodes.append(s)
    ids = {id(n): i for i, n in enumerate(nodes)}

    def nums(seq):
        return None if seq is None else [ids[id(x)] for x in seq]

    graph = [[i, nums(n.__bases__)] for i, n in enumerate(nodes)]
    obs = []
    for i, n in enumerate(nodes):
        cons = _call(lambda: bool(ro.is_consistent(n)))
        obs.append([i, nums(_call(lambda: ro.ro(n, strict=False, use_legacy_ro=False))),
                    nums(_call(lambda: ro.ro(n, strict=True, use_legacy_ro=False))),
                    nums(_call(lambda: ro.ro(n))), cons])
    return {"graph": graph, "obs": obs}


def main():
    payload = _boot.read_payload()
    out = []
    for idx, case in enumerate(payload["cases"]):
        try:
            if payload.get("env_strict"):
                out.append(run_env_strict(case, idx))
            elif payload.get("env_legacy"):
                out.append(run_env_legacy(case, idx))
            elif payload.get("env_settings"):
                out.append(run_env_settings(case, idx, payload["env_settings"]))
            else:
                out.append(run_case(case, idx))
        except Exception as e:  # reported as data
            out.append({"exc": "%s: %s" % (type(e).__name__, str(e)[:300])})
    _boot.write_result({"obs": out})


main()
