"""C07 driver: runs subscribe/unsubscribe histories (plus registry re-basing, adapter
registrations and — in the dynamic-world stream — changes of the specification graph) and the
subscription / lookup queries on the real registry classes.

The registry ops are interpreted by the shared reg_common.run_ops.  Two specification ops (same
meaning and bookkeeping as in harness/drivers/c05_driver.py, from which this part is copied):
  ["setspecbases", x, [bases]]            specs[x].__bases__ = (...)
  ["classimplements", c, [ifaces], "add"] classImplements(classes[c], *ifaces)
Per case the output is
  specs     spec table: kind, FIRST known bases of every node (at world creation or discovery)
  obj_provides
  answers   one answer per op ([] for specification ops)
  assigns   per op: the [node, bases] ``__bases__`` assignments it performed
  trouble   unexpected things (a spec op raised, another node's bases moved): fail closed
Answers are lists of ints only."""
import _boot
import reg_common as R
from zope.interface import classImplements

SPEC_OPS = ("setspecbases", "classimplements")

# Worlds of different cases reuse interface / class names; their specifications compare equal by
# (name, module) and share one entry in the weak ``dependents`` dictionaries of the process-wide
# specifications.  Keep every world alive until the process ends (cf. c05_driver.py, finding F10).
KEEP = []


def bases_ids(w, x):
    return [w.spec_id(b) for b in w.specs[x].__bases__]


def snapshot(w):
    return [tuple(id(b) for b in sp.__bases__) for sp in w.specs]


def spec_op(w, op, trouble):
    before = snapshot(w)
    target = op[1]
    if op[0] == "setspecbases":
        w.specs[op[1]].__bases__ = tuple(w.specs[b] for b in op[2])
    else:
        classImplements(w.classes[op[1]], *[w.specs[b] for b in op[2]])
    assigns = [[op[1], bases_ids(w, op[1])]]
    after = snapshot(w)
    for i, (a, b) in enumerate(zip(before, after)):
        if a != b and i != target:
            trouble.append("op %r moved the bases of node %d" % (op, i))
    return assigns


def first_bases(w, first):
    i = len(first)
    while i < len(w.specs):
        first.append(bases_ids(w, i))
        i = len(first)


def one_case(case):
    w = R.World(case)
    KEEP.append(w)
    first = []
    first_bases(w, first)
    answers, assigns, trouble = [], [], []
    for op in case["ops"]:
        if op[0] in SPEC_OPS:
            try:
                assigns.append(spec_op(w, op, trouble))
                answers.append([])
            except Exception as e:  # noqa
                trouble.append("spec op %r raised %s: %s" % (op, type(e).__name__, e))
                answers.append([3])
                assigns.append([])
        else:
            answers.extend(R.run_ops(w, [op]))
            assigns.append([])
        first_bases(w, first)
    obj_provides = [w.spec_id(R.providedBy(o)) for o in w.objects]
    first_bases(w, first)
    kinds = list(w.kinds)
    return {"specs": [{"kind": kinds[i], "bases": first[i]} for i in range(len(first))],
            "obj_provides": obj_provides, "answers": answers, "assigns": assigns, "trouble": trouble}


payload = _boot.read_payload()
out = []
for case in payload["cases"]:
    try:
        out.append(one_case(case))
    except Exception as e:  # noqa
        import traceback
        out.append({"error": "%s: %s\n%s" % (type(e).__name__, e, traceback.format_exc()[-1200:])})
_boot.write_result({"obs": out})
