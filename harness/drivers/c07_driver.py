"""C07 driver: runs subscribe/unsubscribe histories (plus registry re-basing and adapter
registrations) and the subscription queries on the real registry classes.  The interpreter is
the shared one (reg_common.run_ops); answers are lists of ints only."""
import _boot
import reg_common as R

payload = _boot.read_payload()
out = []
for case in payload["cases"]:
    try:
        w = R.World(case)
        answers = R.run_ops(w, case["ops"])
        out.append({"specs": w.observed_specs(),
                    "obj_provides": [w.spec_id(R.providedBy(o)) for o in w.objects],
                    "answers": answers})
    except Exception as e:  # noqa
        out.append({"error": "%s: %s" % (type(e).__name__, e)})
_boot.write_result({"obs": out})
