"""C06 driver.

Stream "reg": registry histories on AdapterRegistry / VerifyingAdapterRegistry, run by the shared
interpreter harness/drivers/reg_common.py (same op language as Model/RegSys.v).

Stream "comp": histories on zope.interface.registry.Components.  Component k owns two adapter
registries; the driver executes the public Components API and reports the history TRANSLATED to
the registry op language (registry 2k = k.adapters, 2k+1 = k.utilities) together with the answers
of the public calls, so that the Coq oracle (Tie/C06.check_spec) can judge them:

  ["newcomp", bases]                       Components('c<k>', bases=(...))
  ["setcbases", k, bases]                  c.__bases__ = (...)
  ["registerAdapter", k, req, p, name, v]  c.registerAdapter(v, req, p, name)
  ["registerUtility", k, p, name, v]       c.registerUtility(v, p, name)
  ["registerSubscriptionAdapter", k, req, p, v]
  ["queryAdapter", k, obj, p, name]        c.queryAdapter(ob, p, name, default)
  ["queryMultiAdapter", k, objs, p, name]
  ["queryUtility", k, p, name]             c.queryUtility(p, name, default)
  ["getUtilitiesFor", k, p]                sorted (name, utility) pairs
  ["subscribers", k, objs, p]              c.subscribers(objs, p)
"""
import _boot
import reg_common as R

payload = _boot.read_payload()


def run_comp(w, cops):
    from zope.interface.registry import Components
    comps = []
    ops, answers = [], []

    def emit(op, ans):
        ops.append(op)
        answers.append(ans)

    for op in cops:
        k = op[0]
        default = object()
        try:
            if k == "newcomp":
                c = Components("c%d" % len(comps), bases=tuple(comps[b] for b in op[1]))
                comps.append(c)
                n = len(comps) - 1
                # __init__: both registries are created without bases, then _setBases maps the
                # component bases onto them
                emit(["newreg", "push", []], [])
                emit(["newreg", "push", []], [])
                emit(["setregbases", 2 * n, [2 * b for b in op[1]]], [])
                emit(["setregbases", 2 * n + 1, [2 * b + 1 for b in op[1]]], [])
                continue
            c = comps[op[1]]
            n = op[1]
            if k == "setcbases":
                c.__bases__ = tuple(comps[b] for b in op[2])
                emit(["setregbases", 2 * n, [2 * b for b in op[2]]], [])
                emit(["setregbases", 2 * n + 1, [2 * b + 1 for b in op[2]]], [])
            elif k == "registerAdapter":
                c.registerAdapter(w.value(op[5]), w.req(op[2]), w.prov(op[3]), w.name(op[4]))
                emit(["register", 2 * n, op[2], op[3], op[4], op[5]], [])
            elif k == "registerUtility":
                c.registerUtility(w.value(op[4]), w.prov(op[2]), w.name(op[3]))
                emit(["register", 2 * n + 1, [], op[2], op[3], op[4]], [])
            elif k == "registerSubscriptionAdapter":
                c.registerSubscriptionAdapter(w.value(op[4]), w.req(op[2]), w.prov(op[3]))
                emit(["subscribe", 2 * n, op[2], op[3], op[4]], [])
            elif k == "queryAdapter":
                res = c.queryAdapter(w.objects[op[2]], w.prov(op[3]), w.name(op[4]), default)
                emit(["queryAdapter", 2 * n, op[2], op[3], op[4]], R.enc_res_nat(res, default))
            elif k == "queryMultiAdapter":
                res = c.queryMultiAdapter([w.objects[i] for i in op[2]], w.prov(op[3]), w.name(op[4]), default)
                emit(["queryMultiAdapter", 2 * n, op[2], op[3], op[4]], R.enc_res_nat(res, default))
            elif k == "queryUtility":
                res = c.queryUtility(w.prov(op[2]), w.name(op[3]), default)
                emit(["lookup", 2 * n + 1, [], op[2], op[3]], R.enc_res_value(res, default))
            elif k == "getUtilitiesFor":
                items = sorted((w.name_id(nm), v.vid) for nm, v in c.getUtilitiesFor(w.prov(op[2])))
                emit(["lookupAll", 2 * n + 1, [], op[2]], [x for it in items for x in it])
            elif k == "subscribers":
                obs_ = [w.objects[i] for i in op[2]]
                before = len(w.calls)
                res = c.subscribers(obs_, w.prov(op[3]))
                called = [cc[0] for cc in w.calls[before:]]
                emit(["subscribers", 2 * n, op[2], op[3]], list(res) + [R.MARK] + called)
            else:
                raise RuntimeError("unknown component op %r" % (k,))
        except ValueError:
            emit(["lookup", 0, [], 0, "X"], [2])
        except Exception as e:  # noqa
            emit(["lookup", 0, [], 0, "X"], [3, sum(map(ord, type(e).__name__)) % 1000])
    return ops, answers


_PLAIN = (R.AdapterRegistry, R.VerifyingAdapterRegistry)


def _subclasses(kind):
    """registry classes whose instances have a false truth value: ``len`` = __len__ counts the registry's own
    registrations (false while it has none), ``false`` = __bool__ is always False.  The property does not
    depend on the truth value of a registry; the model ignores it."""
    AR, VAR = _PLAIN
    if kind == "len":
        class CountedAR(AR):
            def __len__(self):
                return sum(1 for _ in self.allRegistrations())

        class CountedVAR(VAR):
            def __len__(self):
                return sum(1 for _ in self.allRegistrations())
        return CountedAR, CountedVAR
    if kind == "false":
        class FalsyAR(AR):
            def __bool__(self):
                return False

        class FalsyVAR(VAR):
            def __bool__(self):
                return False
        return FalsyAR, FalsyVAR
    return _PLAIN


out = []
for case in payload["cases"]:
    try:
        w = R.World(case)
        # reg_common.run_op looks the registry classes up in its module namespace
        R.AdapterRegistry, R.VerifyingAdapterRegistry = _subclasses(case.get("regclass"))
        if case.get("stream") == "comp":
            ops, answers = run_comp(w, case["cops"])
            out.append({"specs": w.observed_specs(),
                        "obj_provides": [w.spec_id(R.providedBy(o)) for o in w.objects],
                        "ops": ops, "answers": answers})
        else:
            answers = R.run_ops(w, case["ops"])
            out.append({"specs": w.observed_specs(),
                        "obj_provides": [w.spec_id(R.providedBy(o)) for o in w.objects],
                        "answers": answers})
    except Exception as e:  # noqa
        out.append({"error": "%s: %s" % (type(e).__name__, e)})
_boot.write_result({"obs": out})
