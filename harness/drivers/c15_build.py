"""C15: turn a case description into Python source that builds the interfaces through the public
API (class statements with Attribute / methods / taggedValue / invariant, or InterfaceClass(...)
plus setTaggedValue).  No zope import here: used by the driver and by the replay text.

case = {"n": N, "bases": [[..] per interface 1..N], "attrs": [[[name, kind], ..] ..],
        "tags": [[[tag, value], ..] ..], "style": ["body"|"call", ..], "invs": [[id, ..] ..],
        "invkind": {"<id>": "func"|"unhash"|"eqhash"} (optional, default func),
        "failing": [id, ..], "ops": [...], "names": [...], "tagsU": [...]}
ops: ["setbases", x, [b..]] | ["setbases", x, [b..], "fault"] (while a listener just registered with the public
x.subscribe() raises from changed(); the caller catches the error and carries on: x and all its real
dependents have been told before the listener, so the state is that of an ordinary rebasing) | ["settag", x, tag, value] | ["get", x, name, how] | ["snap", x] (observe every
accessor on x now) | ["dictmut", x, "add"|"del"|"clear", name] (the CALLER changes the dict it passed to
InterfaceClass(name, bases, d) for a "call"-style interface x; must have no effect).
Optional "roottags": [[tag, value], ..]: tagged values set on zope.interface.Interface itself (node 0) before
the case (the driver restores Interface afterwards).
Optional "dictreuse": {"<i>": j}: interface i is created from the (cleared and refilled) dict object of j.
Optional "pyname": [k per interface]: interface i (variable I<i>, identity = i) gets __name__ "I<k>";
k != i makes it a TWIN of interface k: a different object that compares equal to it (same name and
module).  A tagged value may be None (JSON null): a defined value.
Interface 0 is zope.interface.Interface.  Name k is "a<k>", tag k is "t<k>" (tag 0 = "invariants").
A description defined by interface i is recognisable: Attribute with doc "d<i>", or a method with
i positional parameters.  Kinds "fattr" / "fmeth" are FALSY descriptions (subclasses of Attribute / Method
with __len__ 0 / __bool__ False, doc "d<i>").
"""

PRELUDE = '''\
from zope.interface import Interface, Attribute, Invalid, invariant, taggedValue
from zope.interface.interface import InterfaceClass, Method
from dataclasses import dataclass, field
FAILING = set(%(failing)r)
RAN = []
def make_inv(k):
    def inv(ob):
        RAN.append(k)
        if k in FAILING:
            raise Invalid(k)
    inv.inv_id = k
    return inv
@dataclass
class UnhashInv:
    """an invariant object with __eq__ and therefore no __hash__"""
    inv_id: int
    def __call__(self, ob):
        RAN.append(self.inv_id)
        if self.inv_id in FAILING:
            raise Invalid(self.inv_id)
@dataclass(frozen=True)
class EqInv:
    """hashable invariant objects that are all EQUAL (same group) but distinct"""
    group: int
    inv_id: int = field(default=0, compare=False)
    def __call__(self, ob):
        RAN.append(self.inv_id)
        if self.inv_id in FAILING:
            raise Invalid(self.inv_id)
class FalsyAttribute(Attribute):
    """a description that is false in a boolean context (like a schema field over an empty collection)"""
    c15_falsy = True
    def __len__(self):
        return 0
class FalsyMethod(Method):
    c15_falsy = True
    def __bool__(self):
        return False
class ListenerError(Exception):
    pass
class FailingListener:
    """a dependent registered with the public subscribe() whose changed() raises"""
    def changed(self, originally_changed):
        raise ListenerError()
I0 = Interface
'''


FALSY = {"fattr": "FalsyAttribute", "fmeth": "FalsyMethod"}


def tagname(t):
    return "invariants" if t == 0 else "t%d" % t


def iface_source(case, i, module='c15'):
    """source creating interface number i (1-based)"""
    bases = case["bases"][i - 1]
    attrs = case["attrs"][i - 1]
    tags = case["tags"][i - 1]
    invs = case["invs"][i - 1]
    style = case["style"][i - 1]
    pyname = (case.get("pyname") or list(range(1, case["n"] + 1)))[i - 1]
    if pyname != i:
        style = "call"          # a class statement would name it I<i>
    lines = []
    kinds = case.get("invkind") or {}
    for k in invs:
        kd = kinds.get(str(k), "func")
        ctor = {"func": "make_inv(%d)", "unhash": "UnhashInv(%d)", "eqhash": "EqInv(0, %d)"}[kd]
        lines.append("inv%d = %s" % (k, ctor % k))
    if style == "body" and bases:
        lines.append("class I%d(%s):" % (i, ", ".join("I%d" % b for b in bases)))
        body = ["__module__ = %r" % module]
        for t, v in tags:
            body.append("taggedValue(%r, %r)" % (tagname(t), v))
        for k in invs:
            body.append("invariant(inv%d)" % k)
        for nm, kind in attrs:
            if kind == "attr":
                body.append("a%d = Attribute('a%d', 'd%d')" % (nm, nm, i))
            elif kind in ("fattr", "fmeth"):
                body.append("a%d = %s('a%d', 'd%d')" % (nm, FALSY[kind], nm, i))
            else:
                body.append("def a%d(%s): pass" % (nm, ", ".join("p%d" % j for j in range(i))))
        lines += ["    " + b for b in body]
    else:
        items = []
        for nm, kind in attrs:
            if kind == "attr":
                items.append("'a%d': Attribute('a%d', 'd%d')" % (nm, nm, i))
            elif kind in ("fattr", "fmeth"):
                items.append("'a%d': %s('a%d', 'd%d')" % (nm, FALSY[kind], nm, i))
            else:
                lines.append("def _m%d_%d(%s): pass" % (i, nm, ", ".join("p%d" % j for j in range(i))))
                items.append("'a%d': _m%d_%d" % (nm, i, nm))
        # the caller keeps the dict (D<i>) and may change or reuse it later: the interface must not care
        reuse = (case.get("dictreuse") or {}).get(str(i))
        if reuse is None:
            lines.append("D%d = {%s}" % (i, ", ".join(items)))
        else:
            lines.append("D%d = D%d; D%d.clear(); D%d.update({%s})" % (i, reuse, i, i, ", ".join(items)))
        lines.append("I%d = InterfaceClass('I%d', (%s), D%d, __module__=%r)" % (
            i, pyname, "".join("I%d, " % b for b in bases), i, module))
        for t, v in tags:
            lines.append("I%d.setTaggedValue(%r, %r)" % (i, tagname(t), v))
        if invs:
            lines.append("I%d.setTaggedValue('invariants', [%s])" % (i, ", ".join("inv%d" % k for k in invs)))
    return "\n".join(lines) + "\n"


def build_source(case, module='c15'):
    """interfaces are equal when (__name__, __module__) are equal, and the dependents of a base are
    kept in a weak dict keyed by that equality: every case needs its own module name"""
    src = PRELUDE % {"failing": sorted(case["failing"])}
    for t, v in case.get("roottags") or []:
        src += "I0.setTaggedValue(%r, %r)   # undone by the driver at the end of the case\n" % (tagname(t), v)
    for i in range(1, case["n"] + 1):
        src += iface_source(case, i, module)
    return src


GET_FORMS = ["I%d.get('a%d')", "I%d['a%d']", "('a%d' in I%d)", "I%d.queryDescriptionFor('a%d')"]


def op_source(op):
    if op[0] == "setbases":
        assign = "I%d.__bases__ = (%s)" % (op[1], "".join("I%d, " % b for b in op[2]))
        if len(op) > 3:
            return ("_l = FailingListener(); I%d.subscribe(_l)\ntry:\n    %s\nexcept ListenerError:\n    pass\n"
                    "I%d.unsubscribe(_l)" % (op[1], assign, op[1]))
        return assign
    if op[0] == "settag":
        return "I%d.setTaggedValue(%r, %r)" % (op[1], tagname(op[2]), op[3])
    if op[0] == "snap":
        return "# observe every accessor on I%d" % op[1]
    if op[0] == "dictmut":
        if op[2] == "add":
            return "D%d['a%d'] = Attribute('a%d', 'dX')" % (op[1], op[3], op[3])
        if op[2] == "del":
            return "D%d.pop('a%d', None)" % (op[1], op[3])
        return "D%d.clear()" % op[1]
    if op[0] == "get":
        how = op[3]
        if how == 2:
            return "('a%d' in I%d)" % (op[2], op[1])
        return GET_FORMS[how] % (op[1], op[2])
    raise ValueError(op)
