"""C19 driver: super() proxies.

Case (JSON):
  {"ifaces":  [[base iface ids] ...]      interface k+1 (interface 0 is zope.interface.Interface)
   "classes": [[base class ids] ...]      class k+1 (class 0 is ``object``); never empty lists
   "builtins": {"<class id>": "bytearray" | "dict" | "list" | "BaseException" | "Exception" | "ValueError" | "type"}
                                          these classes are the builtin types themselves (declarations made on
                                          them are undone at the end of the case); an instance of a class deriving
                                          from ``type`` is a class object
   "objects": [[class id, [direct iface ids], falsy?, own __implemented__ iface ids or null, class object?] ...]   (falsy instances need "falsy": "len" | "bool":
                                          every class then defines __len__ / __bool__ reading a per-instance flag)
   "ops": [...]}
ops:
  ["impl", c, [ifaces]]   classImplements          ["only", c, [ifaces]]  classImplementsOnly
  ["first", c, i]         classImplementsFirst
  ["prov", arg]           providedBy(arg)          ["implby", arg]        implementedBy(arg)
  ["reg", [req ifaces], prov, name, vid]           registry.register (name 0 is '', k is 'n<k>')
  ["adapt", via, [args], p, name]   via = "qa" queryAdapter | "hook" adapter_hook | "multi" queryMultiAdapter
  ["implspec", c, b]      classImplements(c, implementedBy(b))   (b created before c)
  ["held", i]             the specification operation i returned, flattened again now
  "supercls": "plain" | "attrs" | "slots"   every proxy of the case is an instance of a SUBCLASS of ``super``
  "observe": [[j, [C ...]] ...]   a dependent subscribed to implementedBy(type(instance j)) that looks at
                          super(C, instance j) inside its changed(); reported per operation under "fired"
                          as [j, C, answer, I.providedBy set] (last firing)
  arg = ["obj", j] | ["super", C, j] | ["superc", C, T] super(C, T) bound to the class T | ["unbound", C] super(C)

A case with "kind": "reg" is a registry history in the format of reg_common.py (static world with
super proxies); its observation is the one of reg_driver.py.

Observation: {"mros": [[class ids] per class], "ans": [[ints] per op], "ip": [[ints] or None per op]}
  ans: [] for mutators; [0] exception; [1, kind, id] + sorted flattened interface numbers for a
       specification (kind 0: a specification that is neither a class's nor an instance's, numbered
       by first appearance among the results; 1: implementedBy(class id); 2: Provides of instance id;
       3: the shared empty declaration);
       [2] default; [3, r] adapter result r = vid*1000 + digits (one per object passed to the
       factory: its instance number, 2 + c = the class object number c, 9 = anything else: a super
       proxy, None); [4] ValueError
  ip:  for "prov" ops the sorted numbers of the interfaces I with I.providedBy(arg) true
"""
import _boot
from zope.interface import Interface, implementedBy, providedBy, directlyProvides
from zope.interface import classImplements, classImplementsOnly, classImplementsFirst
from zope.interface import implementer
from zope.interface.declarations import _empty, BuiltinImplementationSpecifications

BUILTINS = {"bytearray": bytearray, "dict": dict, "list": list, "BaseException": BaseException,
            "Exception": Exception, "ValueError": ValueError, "type": type}
from zope.interface.interface import InterfaceClass
from zope.interface.adapter import AdapterRegistry


class Factory:
    def __init__(self, vid, world):
        self.vid, self.world = vid, world

    def __call__(self, *objs):
        code = 0
        for o in objs:
            code = code * 10 + self.world.ident(o)
        return self.vid * 1000 + code


class PlainSuper(super):
    """a proxy type derived from ``super``: still a super proxy for every isinstance / PyObject_TypeCheck"""


class TaggedSuper(super):
    tag = "logging"

    def describe(self):
        return "proxy for %r" % (self.__thisclass__,)


class SlotSuper(super):
    __slots__ = ("note",)


SUPERS = {None: super, "plain": PlainSuper, "attrs": TaggedSuper, "slots": SlotSuper}


class Observer:
    """A dependent subscribed through the public Specification.subscribe() to implementedBy(type(ob)):
    inside its changed() - that is, WHILE the change notification is still running - it looks at
    super(C, ob) proxies.  Only the last firing of one operation is kept."""

    def __init__(self, world, j, cs):
        self.world, self.j, self.cs = world, j, cs

    def changed(self, _spec):
        w = self.world
        seen = []
        for c in self.cs:
            try:
                sup = SUPERS[w.supercls](w.classes[c], w.objects[self.j])
                spec = providedBy(sup)
                seen.append((c, spec, sorted(w.iface_no(i) for i in spec.flattened()),
                             [n for n, i in enumerate(w.ifaces) if i.providedBy(sup)]))
            except Exception:  # noqa
                seen.append((c, None, None, None))
        w.fired[self.j] = seen


class World:
    def __init__(self, case):
        self.ifaces = [Interface]
        for k, bs in enumerate(case["ifaces"]):
            self.ifaces.append(InterfaceClass("I%d" % (k + 1), tuple(self.ifaces[b] for b in bs) or (Interface,),
                                              {}, __module__="verif.c19"))
        self.classes = [object]
        # instances flagged falsy are false in a boolean context, through __len__() == 0 or __bool__
        ns = {"__module__": "verif.c19"}
        if case.get("falsy") == "len":
            ns["__len__"] = lambda self: 0 if self.__dict__.get("_falsy") else 1
        elif case.get("falsy") == "bool":
            ns["__bool__"] = lambda self: not self.__dict__.get("_falsy")
        builtins = case.get("builtins", {})
        for k, bs in enumerate(case["classes"]):
            if str(k + 1) in builtins:
                b = BUILTINS[builtins[str(k + 1)]]
                assert [self.classes.index(x) for x in b.__bases__] == bs, (b, bs)
                if b is not type:
                    BuiltinImplementationSpecifications.pop(b, None)      # nothing may leak in from before
                self.classes.append(b)
            else:
                self.classes.append(type("C%d" % (k + 1), tuple(self.classes[b] for b in bs), dict(ns)))
        self.objects = []
        for j, o in enumerate(case["objects"]):
            c, direct = o[0], o[1]
            cls = self.classes[c]
            if issubclass(cls, type):        # an instance of a metaclass is a class object
                ob = cls("K%d" % j, (object,), {"__module__": "verif.c19"})
            else:
                ob = cls()
            if len(o) > 2 and o[2]:
                ob._falsy = True
            if len(o) > 3 and o[3]:
                # the object carries its own __implemented__ (what a factory instance produces /
                # what a class object's instances implement): never what super(C, ob) reports
                own = [self.ifaces[i] for i in o[3]]
                if isinstance(ob, type):
                    classImplements(ob, *own)
                else:
                    implementer(*own)(ob)
            if direct:
                directlyProvides(ob, *[self.ifaces[i] for i in direct])
            self.objects.append(ob)
        self.supercls = case.get("supercls")
        self.fired = {}
        self.results = []       # the specification object every operation returned (held for good)
        self.observers = []
        for j, cs in case.get("observe", []):
            o = Observer(self, j, cs)
            self.observers.append(o)
            implementedBy(type(self.objects[j])).subscribe(o)
        self.registry = AdapterRegistry()
        self.keep = []          # every specification ever returned stays alive
        self.other = []         # numbering of synthesized specifications

    def ident(self, o):
        """instance j -> j; the class object number c -> 2 + c; anything else (a proxy, None) -> 9"""
        if isinstance(o, super):
            return 9
        for j, x in enumerate(self.objects):
            if x is o:
                return j
        for c, x in enumerate(self.classes):
            if x is o:
                return 2 + c
        return 9

    def arg(self, a):
        if a[0] == "obj":
            return self.objects[a[1]]
        sup = SUPERS[self.supercls]                  # ``super`` itself or a subclass of it
        if a[0] == "superc":                         # bound to the class object
            return sup(self.classes[a[1]], self.classes[a[2]])
        if a[0] == "unbound":
            return sup(self.classes[a[1]])
        return sup(self.classes[a[1]], self.objects[a[2]])

    def iface_no(self, i):
        for k, x in enumerate(self.ifaces):
            if x is i:
                return k
        return 99

    def describe(self, spec, a=None):
        self.keep.append(spec)
        kind = ident = None
        if spec is _empty:
            kind, ident = 3, 0
        if a is not None and a[0] == "obj" and getattr(self.objects[a[1]], "__dict__", {}).get("__provides__") is spec:
            # Provides objects are shared between instances declared alike: name the queried one
            kind, ident = 2, a[1]
        for c, cl in enumerate(self.classes if kind is None else []):
            if cl.__dict__.get("__implemented__") is spec or (cl is object and spec is implementedBy(object)):
                kind, ident = 1, c
        if kind is None:
            for j, ob in enumerate(self.objects):
                if getattr(ob, "__dict__", {}).get("__provides__") is spec:
                    kind, ident = 2, j
        if kind is None:
            for n, x in enumerate(self.other):
                if x is spec:
                    kind, ident = 0, n
            if kind is None:
                self.other.append(spec)
                kind, ident = 0, len(self.other) - 1
        return [1, kind, ident] + sorted(self.iface_no(i) for i in spec.flattened())


def name_of(n):
    return "" if n == 0 else "n%d" % n


def run_op(w, op):
    k = op[0]
    if k == "impl":
        classImplements(w.classes[op[1]], *[w.ifaces[i] for i in op[2]])
        return [], None
    if k == "only":
        classImplementsOnly(w.classes[op[1]], *[w.ifaces[i] for i in op[2]])
        return [], None
    if k == "first":
        classImplementsFirst(w.classes[op[1]], w.ifaces[op[2]])
        return [], None
    if k == "implspec":
        classImplements(w.classes[op[1]], implementedBy(w.classes[op[2]]))
        return [], None
    if k == "prov":
        a = w.arg(op[1])
        w.last = providedBy(a)
        ans = w.describe(w.last, op[1])
        ip = [n for n, i in enumerate(w.ifaces) if i.providedBy(a)]
        return ans, ip
    if k == "implby":
        w.last = implementedBy(w.arg(op[1]))
        return w.describe(w.last, op[1]), None
    if k == "held":
        # the specification object operation op[1] returned, looked at again
        return w.describe(w.results[op[1]]), None
    if k == "reg":
        w.registry.register([w.ifaces[i] for i in op[1]], w.ifaces[op[2]], name_of(op[3]), Factory(op[4], w))
        return [], None
    if k == "adapt":
        default = object()
        args = [w.arg(a) for a in op[2]]
        p, name = w.ifaces[op[3]], name_of(op[4])
        if op[1] == "qa":
            r = w.registry.queryAdapter(args[0], p, name, default)
        elif op[1] == "hook":
            r = w.registry.adapter_hook(p, args[0], name, default)
        else:
            r = w.registry.queryMultiAdapter(args, p, name, default)
        return ([2] if r is default else [3, r]), None
    raise RuntimeError("unknown op %r" % (k,))


def run_case(case):
    before = set(BuiltinImplementationSpecifications)
    try:
        return run_case1(case)
    finally:
        # declarations on builtin types are process-global: forget every specification of a builtin
        # created during this case
        for b in list(BuiltinImplementationSpecifications):
            if b not in before:
                del BuiltinImplementationSpecifications[b]


def run_case1(case):
    w = World(case)
    mros = [[w.classes.index(c) for c in cl.__mro__] for cl in w.classes]
    ans, ips, fired = [], [], []
    for op in case["ops"]:
        w.fired = {}
        w.last = None
        try:
            a, ip = run_op(w, op)
        except ValueError:
            a, ip = [4], None
        except Exception:  # noqa  (IndexError from super(object, ob), TypeError, ...)
            a, ip = [0], None
        ans.append(a)
        ips.append(ip)
        w.results.append(w.last)
        # what the observers saw during this operation's notifications (last firing each): numbered now
        f = []
        for j in sorted(w.fired):
            for c, spec, content, ip2 in w.fired[j]:
                f.append([j, c, [0] if spec is None else w.describe(spec)[:3] + content, ip2])
        fired.append(f)
    return {"mros": mros, "ans": ans, "ip": ips, "fired": fired}


def run_reg_case(case):
    import reg_common as R
    w = R.World(case)
    answers = R.run_ops(w, case["ops"])
    return {"specs": w.observed_specs(), "obj_provides": [w.spec_id(R.providedBy(o)) for o in w.objects],
            "answers": answers}


def main():
    payload = _boot.read_payload()
    out = []
    for case in payload["cases"]:
        try:
            out.append(run_reg_case(case) if case.get("kind") == "reg" else run_case(case))
        except Exception as e:  # noqa
            out.append({"error": "%s: %s" % (type(e).__name__, e)})
    _boot.write_result({"obs": out})


main()
