"""Shared interpreter of registry histories against the real zope.interface (used by the
drivers of C04..C09, C05, C06).  Import after ``_boot``.

World (JSON):
  {"specs": [S0, S1, ...], "objects": [...], "ops": [...]}
  S0 is always {"kind": "root"} (zope.interface.Interface).
  {"kind": "iface", "bases": [ids]}                      -> InterfaceClass
  {"kind": "object"}                                     -> implementedBy(object)
  {"kind": "class", "cbases": [class spec ids], "implements": [iface ids], "only": bool}
                                                         -> implementedBy(cls)
  objects: {"cls": class spec id, "direct": [iface ids]} -> instance; its providedBy spec is
           appended to the spec table if it is a new specification
           {"super_of": object index, "at": class spec id} -> super(cls, ob)
Observed world: for every spec (incl. appended ones) its kind and ``__bases__`` as ids.

Ops mirror coq/Model/RegSys.v [rop]; see ``run_ops``.  Values are [vid, veq] pairs.
"""
from zope.interface import Interface, implementedBy, implementer, implementer_only, providedBy, directlyProvides
from zope.interface.interface import InterfaceClass
from zope.interface.adapter import AdapterRegistry, VerifyingAdapterRegistry

MARK = 999999


def oracle_call(vid, obj_ids):
    """What a registered value returns when called: None or a number (mirrors Tie.RegCommon.call)."""
    s = vid + sum(obj_ids)
    if s % 3 == 0:
        return None
    code = 0
    for o in obj_ids:
        code = code * 10 + (o % 10)
    return vid * 1000 + code


class V:
    """A registered value with separate identity (vid) and equality class (veq)."""
    __slots__ = ("vid", "veq", "world")

    def __init__(self, vid, veq, world):
        self.vid, self.veq, self.world = vid, veq, world

    def __eq__(self, other):
        return isinstance(other, V) and other.veq == self.veq

    def __ne__(self, other):
        return not self.__eq__(other)

    def __hash__(self):
        return hash(self.veq)

    def __bool__(self):
        # some registered values are falsy (empty-container-like components): nothing in the
        # properties depends on the truth value of a registered object
        return self.vid % 3 != 0

    def __call__(self, *objs):
        ids = [self.world.obj_id(o) for o in objs]
        self.world.calls.append((self.vid, ids))
        return oracle_call(self.vid, ids)


class World:
    def __init__(self, desc):
        self.desc = desc
        self.specs = []       # spec objects by id
        self.kinds = []
        self.classes = {}     # class spec id -> class
        self.objects = []
        self.obj_ids = {}
        self.values = {}
        self.regs = []
        self.calls = []
        for i, s in enumerate(desc["specs"]):
            k = s["kind"]
            if k == "root":
                sp = Interface
            elif k == "iface":
                sp = InterfaceClass("I%d" % i, tuple(self.specs[b] for b in s["bases"]) or (Interface,), {},
                                    __module__="verif.world")
            elif k == "object":
                sp = implementedBy(object)
                self.classes[i] = object
            elif k == "class":
                cb = tuple(self.classes[b] for b in s["cbases"]) or (object,)
                cls = type("C%d" % i, cb, {"__module__": "verif.world"})
                ifs = [self.specs[b] for b in s["implements"]]
                if s.get("only"):
                    implementer_only(*ifs)(cls)
                elif ifs:
                    implementer(*ifs)(cls)
                sp = implementedBy(cls)
                self.classes[i] = cls
            else:
                raise ValueError(k)
            self.specs.append(sp)
            self.kinds.append(k)
        for j, o in enumerate(desc.get("objects", [])):
            if "super_of" in o:
                base = self.objects[o["super_of"]]
                ob = super(self.classes[o["at"]], base)
            else:
                ob = self.classes[o["cls"]]()
                if o.get("direct"):
                    directlyProvides(ob, *[self.specs[b] for b in o["direct"]])
            self.objects.append(ob)
            self.obj_ids[id(ob)] = j
            self.spec_id(providedBy(ob))   # appends if new

    def spec_id(self, sp):
        for i, x in enumerate(self.specs):
            if x is sp:
                return i
        # a specification created behind the scenes (Provides, super Implements, object spec...)
        self.specs.append(sp)
        self.kinds.append("iface" if isinstance(sp, InterfaceClass) else "decl")
        for b in sp.__bases__:
            self.spec_id(b)
        return self.specs.index(sp)

    def obj_id(self, o):
        return self.obj_ids.get(id(o), 77)

    def observed_specs(self):
        out = []
        i = 0
        while i < len(self.specs):      # spec_id may append while we iterate
            sp = self.specs[i]
            out.append({"kind": self.kinds[i], "bases": [self.spec_id(b) for b in sp.__bases__],
                        "sro": [self.spec_id(b) for b in sp.__sro__]})
            i += 1
        return out

    def value(self, v):
        if v is None:
            return None
        key = (v[0], v[1])
        if key not in self.values:
            self.values[key] = V(v[0], v[1], self)
        return self.values[key]

    def req(self, lst):
        return [None if r is None else self.specs[r] for r in lst]

    def prov(self, p):
        return None if p is None else self.specs[p]

    @staticmethod
    def name(n):
        # numbers stand for names: 0 -> '', k -> 'n<k>'; "X" -> not a string
        if n == "X":
            return 42
        return "" if n == 0 else "n%d" % n

    @staticmethod
    def name_id(s):
        return 0 if s == "" else int(s[1:])


def enc_res_value(r, default):
    if r is default:
        return [0]
    return [1, r.vid]


def enc_res_nat(r, default):
    if r is default:
        return [0]
    return [1, r]


def run_ops(w, ops):
    """Execute ops; return one answer (list of ints) per op, exceptions as [3, <class name hash>]."""
    out = []
    for op in ops:
        try:
            out.append(run_op(w, op))
        except ValueError:
            out.append([2])
        except Exception as e:  # noqa
            out.append([3, sum(map(ord, type(e).__name__)) % 1000])
    return out


def run_op(w, op):
    k = op[0]
    if k == "newreg":
        cls = AdapterRegistry if op[1] == "push" else VerifyingAdapterRegistry
        w.regs.append(cls(tuple(w.regs[b] for b in op[2])))
        return []
    r = w.regs[op[1]]
    default = object()
    if k == "setregbases":
        r.__bases__ = tuple(w.regs[b] for b in op[2])
        return []
    if k == "register":
        r.register(w.req(op[2]), w.prov(op[3]), w.name(op[4]), w.value(op[5]))
        return []
    if k == "unregister":
        r.unregister(w.req(op[2]), w.prov(op[3]), w.name(op[4]), w.value(op[5]))
        return []
    if k == "subscribe":
        r.subscribe(w.req(op[2]), w.prov(op[3]), w.value(op[4]))
        return []
    if k == "unsubscribe":
        r.unsubscribe(w.req(op[2]), w.prov(op[3]), w.value(op[4]))
        return []
    if k == "rebuild":
        r.rebuild()
        return []
    if k == "lookup":
        return enc_res_value(r.lookup(w.req(op[2]), w.prov(op[3]), w.name(op[4]), default), default)
    if k == "lookup1":
        return enc_res_value(r.lookup1(w.specs[op[2]], w.prov(op[3]), w.name(op[4]), default), default)
    if k == "lookupAll":
        items = sorted((w.name_id(n), v.vid) for n, v in r.lookupAll(w.req(op[2]), w.prov(op[3])))
        return [x for it in items for x in it]
    if k == "names":
        return sorted(w.name_id(n) for n in r.names(w.req(op[2]), w.prov(op[3])))
    if k == "subscriptions":
        return [v.vid for v in r.subscriptions(w.req(op[2]), w.prov(op[3]))]
    if k == "registered":
        v = r.registered(w.req(op[2]), w.prov(op[3]), w.name(op[4]))
        return [] if v is None else [v.vid]
    if k == "subscribed":
        v = r.subscribed(w.req(op[2]), w.prov(op[3]), w.value(op[4]))
        return [0 if v is None else 1]
    if k == "allRegistrations":
        ents = []
        for req, prov, name, val in r.allRegistrations():
            ents.append(([len(req)] + [w.spec_id(x) for x in req] + [w.spec_id(prov), w.name_id(name)], val.vid))
        ents.sort(key=lambda e: e[0])
        return [x for key, vid in ents for x in key + [vid]]
    if k == "allSubscriptions":
        ents = []
        for req, prov, val in r.allSubscriptions():
            ents.append(([len(req)] + [w.spec_id(x) for x in req] + [0 if prov is None else w.spec_id(prov) + 1], val.vid))
        ents.sort(key=lambda e: e[0])   # stable: values under one key keep their order
        return [x for key, vid in ents for x in key + [vid]]
    if k in ("queryAdapter", "adapter_hook"):
        ob = w.objects[op[2]]
        if k == "queryAdapter":
            res = r.queryAdapter(ob, w.prov(op[3]), w.name(op[4]), default)
        else:
            res = r.adapter_hook(w.prov(op[3]), ob, w.name(op[4]), default)
        return enc_res_nat(res, default)
    if k == "queryMultiAdapter":
        obs = [w.objects[i] for i in op[2]]
        return enc_res_nat(r.queryMultiAdapter(obs, w.prov(op[3]), w.name(op[4]), default), default)
    if k == "subscribers":
        obs = [w.objects[i] for i in op[2]]
        before = len(w.calls)
        res = r.subscribers(obs, w.prov(op[3]))
        called = [c[0] for c in w.calls[before:]]
        return list(res) + [MARK] + called
    raise RuntimeError("unknown op %r" % (k,))
