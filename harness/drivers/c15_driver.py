"""C15 driver: build the interfaces of each case, run its history (rebasing, get-like calls,
setTaggedValue) and take a snapshot of every accessor on every interface."""
import _boot
import c15_build as B
from zope.interface import Interface, Invalid
from zope.interface.interface import Attribute, Method


class Unexpected(Exception):
    pass


SENTINEL = object()


def run_case(case, k):
    ns = {"__name__": "c15_%d" % k}
    exec(B.build_source(case, "c15_%d" % k), ns)
    n = case["n"]
    ifaces = [Interface] + [ns["I%d" % i] for i in range(1, n + 1)]
    num = {id(f): i for i, f in enumerate(ifaces)}
    ran = ns["RAN"]

    def did(desc):
        """identity of a description = number of the interface that defines it (checked against
        the recognisable doc / signature)"""
        if desc is None:
            return None
        i = num.get(id(desc.interface))
        if i is None:
            return 1000
        if getattr(type(desc), "c15_falsy", False):
            ok = desc.__doc__ == "d%d" % i and not bool(desc)
        elif isinstance(desc, Method):
            ok = len(desc.getSignatureInfo()["positional"]) == i
        elif isinstance(desc, Attribute):
            ok = desc.__doc__ == "d%d" % i
        else:
            ok = False
        return i if ok else 1000 + i

    def tval(v):
        if v is SENTINEL:
            return None            # absent
        if v is None:
            return ["none"]        # the defined value None
        if isinstance(v, int):
            return ["v", v]
        if isinstance(v, (list, tuple)):
            return ["invs", [f.inv_id for f in v]]
        raise Unexpected("tagged value %r" % (v,))

    def get_like(x, nm, how):
        f = ifaces[x]
        name = "a%d" % nm
        if how == 0:
            return did(f.get(name))
        if how == 1:
            try:
                return did(f[name])
            except KeyError:
                return None
        if how == 3:
            return did(f.queryDescriptionFor(name))
        raise ValueError(how)

    nameof = {"a%d" % k: k for k in range(0, 64)}
    tagof = {B.tagname(t): t for t in range(0, 64)}

    def observe(x):
        f = ifaces[x]
        o = {}
        g4 = []
        for nm in case["names"]:
            name = "a%d" % nm
            g4.append([get_like(x, nm, 1), get_like(x, nm, 0), get_like(x, nm, 3), name in f])
        o["gets"] = g4
        o["iro"] = [num.get(id(b), 999) for b in f.__iro__]
        o["iter"] = sorted(nameof[k] for k in iter(f))
        o["names"] = sorted(nameof[k] for k in f.names(all=True))
        o["nad"] = sorted([nameof[k], did(d)] for k, d in f.namesAndDescriptions(all=True))
        tq = []
        for t in case["tagsU"]:
            tn = B.tagname(t)
            q = tval(f.queryTaggedValue(tn, SENTINEL))
            try:
                gv = tval(f.getTaggedValue(tn))
            except KeyError:
                gv = None
            tq.append([q, gv])
        o["tagq"] = tq
        o["tags"] = sorted(tagof[k] for k in f.getTaggedValueTags())
        ob = object()
        del ran[:]
        exc = None
        try:
            f.validateInvariants(ob)
        except Invalid as e:
            exc = e.args[0]
            if not isinstance(exc, int):
                raise Unexpected("Invalid%r without errors list" % (e.args,))
        o["v1_ran"] = list(ran)
        o["v1_exc"] = exc
        del ran[:]
        errors = []
        raised = False
        try:
            f.validateInvariants(ob, errors)
        except Invalid as e:
            raised = True
            if e.args[0] is not errors:
                raise Unexpected("Invalid raised with %r instead of the errors list" % (e.args,))
        o["v2_ran"] = list(ran)
        o["v2_errs"] = [e.args[0] for e in errors]
        o["v2_raised"] = raised
        return o

    gets = []
    snaps = []
    for op in case["ops"]:
        if op[0] == "snap":
            snaps.append(observe(op[1]))
        elif op[0] == "dictmut":
            d = ns["D%d" % op[1]]
            if op[2] == "add":
                d["a%d" % op[3]] = Attribute("a%d" % op[3], "dX")
            elif op[2] == "del":
                d.pop("a%d" % op[3], None)
            else:
                d.clear()
        elif op[0] == "setbases" and len(op) > 3:
            # a listener registered last on the interface being rebased raises from changed()
            lst = ns["FailingListener"]()
            ifaces[op[1]].subscribe(lst)
            try:
                ifaces[op[1]].__bases__ = tuple(ifaces[b] for b in op[2])
            except ns["ListenerError"]:
                pass
            else:
                raise Unexpected("the listener's error was swallowed")
            ifaces[op[1]].unsubscribe(lst)
        elif op[0] == "setbases":
            ifaces[op[1]].__bases__ = tuple(ifaces[b] for b in op[2])
        elif op[0] == "settag":
            ifaces[op[1]].setTaggedValue(B.tagname(op[2]), op[3])
        elif op[0] == "get":
            if op[3] == 2:
                # `in` only says whether there is a description; report the description through get
                # afterwards (same memo entry) so that the answer is comparable
                present = ("a%d" % op[2]) in ifaces[op[1]]
                d = did(ifaces[op[1]].get("a%d" % op[2]))
                if present != (d is not None):
                    d = 2000
                gets.append(d)
            else:
                gets.append(get_like(op[1], op[2], op[3]))
        else:
            raise ValueError(op)

    snap = [observe(x) for x in case["nodes"]]
    return {"gets": gets, "snaps": snaps, "snap": snap}


def main():
    payload = _boot.read_payload()
    out = []
    for k, case in enumerate(payload["cases"]):
        # a case may put tagged values on Interface itself: put Interface back afterwards (there is
        # no public way to delete a tagged value; cleanup only, nothing is observed through this)
        saved = Interface._Element__tagged_values
        saved = dict(saved) if saved is not None else None
        try:
            out.append(run_case(case, k))
        except Exception as e:  # reported as data
            out.append({"exc": "%s: %s" % (type(e).__name__, str(e)[:300])})
        finally:
            Interface._Element__tagged_values = saved
    _boot.write_result({"obs": out})


main()
