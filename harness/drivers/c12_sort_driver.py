import _boot
from zope.interface import Interface, implementedBy
from zope.interface.interface import InterfaceClass

p = _boot.read_payload()
obs = []
for d in p["items"]:
    if d["kind"] == "iface":
        obs.append(InterfaceClass(d["name"], (Interface,), {}, __module__=d["module"]))
    else:
        obs.append(implementedBy(type(d["name"], (object,), {"__module__": d["module"]})))
# going through a set first makes the pre-sort order depend on hashes (seed / addresses)
pre = sorted(obs, key=hash)
try:
    res = sorted(pre)
except Exception as e:  # noqa  -- sorting specifications must never fail; report it as data
    _boot.write_result({"input_keys": [[o.__name__, o.__module__] for o in obs], "sorted_keys": None,
                        "error": type(e).__name__ + ": " + str(e)})
    raise SystemExit(0)
# stable order of equal keys depends on 'pre'; only the key sequence is process independent
_boot.write_result({"input_keys": [[o.__name__, o.__module__] for o in obs],
                    "sorted_keys": [[o.__name__, o.__module__] for o in res]})
