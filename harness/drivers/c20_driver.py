"""C20 driver: the declaration algebra observed through the public API.

Per case: build the interface DAG and the classes, read back the specification graph
(__bases__), build the operand declarations from nested argument trees, then observe
list(A), [x in A ...], list(A.flattened()), list(A - B), list(A + B) for all ordered pairs,
list(x + A), operand snapshots before/after, and a directlyProvides / alsoProvides /
noLongerProvides sequence on an instance.  Objects are reported as node numbers
(0 = Interface, interfaces, implementedBy(object), class specifications); anything else is 999.
An observation that raised is reported as {"exc": <type name>}."""
import _boot
from zope.interface import (Interface, alsoProvides, classImplements, directlyProvidedBy, directlyProvides,
                            implementedBy, implementer, noLongerProvides, providedBy)
from zope.interface.declarations import Declaration
from zope.interface.interface import InterfaceClass

UNKNOWN = 999


def run_case(case, idx=0):
    n = len(case["ifaces"])
    objs = {0: Interface}
    for i, bs in enumerate(case["ifaces"]):
        # names are unique per case: equal-named interfaces of earlier cases would share the entries of
        # Interface's weak dependents dictionary (finding F10), which matters once interfaces are re-based
        objs[i + 1] = InterfaceClass("I%d_%d" % (i + 1, idx), tuple(objs[b] for b in bs), {}, __module__="c20")
    obj_node = n + 1
    objs[obj_node] = implementedBy(object)
    classes = {obj_node: object}
    bases_ok = True
    decls = []

    def build(t):
        if "l" in t:
            return objs[t["l"]]
        if "s" in t:
            xs = [build(x) for x in t["s"]]
            kind = t.get("t")
            if kind == "list":
                return xs
            if kind == "gen":            # one-shot iterables: may be traversed only once
                return (v for v in xs)
            if kind == "iter":
                return iter(xs)
            if kind == "map":
                return map(lambda v: v, xs)
            return tuple(xs)
        if "d" in t:
            return Declaration(*[build(x) for x in t["d"]])
        return decls[t["r"]]

    # falsy class objects: a metaclass with __len__ -> 0 or __bool__ -> False (one kind per case, so that
    # subclasses never meet a metaclass conflict)
    falsy_meta = {"len": type("LenMeta", (type,), {"__len__": lambda cls: 0}),
                  "bool": type("BoolMeta", (type,), {"__bool__": lambda cls: False})}
    for k, cd in enumerate(case["classes"]):
        node = n + 2 + k
        pybases = tuple(classes[b] for b in cd["bases"]) or (object,)
        meta = falsy_meta[cd["falsy"]] if cd.get("falsy") else type
        if meta is type:
            cls = type("K%d" % k, pybases, {"__module__": "c20"})      # (inherits a falsy metaclass, if any)
        else:
            cls = meta("K%d" % k, pybases, {"__module__": "c20"})
        if cd.get("dtrees") is not None:
            args = [build(x) for x in cd["dtrees"]]
            if cd.get("via") == "classImplements":
                classImplements(cls, *args)
            elif args:
                implementer(*args)(cls)
        elif cd["decl"]:
            implementer(*[objs[x] for x in cd["decl"]])(cls)
        classes[node] = cls
        spec = implementedBy(cls)
        objs[node] = spec
        want = tuple(spec.declared) + tuple(implementedBy(b) for b in cls.__bases__)
        if len(want) != len(spec.__bases__) or any(a is not b for a, b in zip(want, spec.__bases__)):
            bases_ok = False
    # specifications of super objects: implementedBy(super(B, ob)) / providedBy(super(B, ob)), asked in
    # the order given (two self classes sharing B in one process is the interesting case)
    snode = n + 2 + len(case["classes"])
    for j, sd in enumerate(case.get("supers", [])):
        sup = super(classes[sd["this"]], classes[sd["self"]]())
        objs[snode + j] = providedBy(sup) if sd.get("via") == "providedBy" else implementedBy(sup)
    nid = {}
    for k in sorted(objs):
        nid.setdefault(id(objs[k]), k)
    # equal-but-distinct interfaces: same __name__ and __module__ as I<i>, another object (no bases, so
    # nothing is subscribed anywhere)
    twins = [InterfaceClass("I%d_%d" % (i, idx), (), {}, __module__="c20") for i in range(1, n + 1)]

    def ids(it):
        return [nid.get(id(o), UNKNOWN) for o in it]

    ifs = list(range(0, n + 1))

    # operands are built partly before and partly after an optional re-basing of interfaces; everything
    # is observed afterwards and must follow the CURRENT hierarchy
    rebase = case.get("rebase", [])
    rebase_at = case.get("rebase_at", 0) if rebase else None
    for k, d in enumerate(case["decls"]):
        if k == rebase_at:
            for node, bs in rebase:
                objs[node].__bases__ = tuple(objs[b] for b in bs)
            rebase_at = None
        if "spec" in d:
            decls.append(objs[d["spec"]])
        elif d.get("empty"):
            # the shared empty declaration, obtained through the public API
            decls.append(directlyProvidedBy(classes[n + 2]()))
        else:
            decls.append(Declaration(*[build(x) for x in d["args"]]))
    if rebase_at is not None:
        for node, bs in rebase:
            objs[node].__bases__ = tuple(objs[b] for b in bs)
    graph = [[k, ids(objs[k].__bases__)] for k in sorted(objs)]

    def ob(f):
        try:
            return ids(f())
        except Exception as e:  # reported as data
            return {"exc": type(e).__name__}

    def obb(f):
        try:
            r = f()
            if not all(x is True or x is False for x in r):
                return {"exc": "NonBool"}
            return r
        except Exception as e:
            return {"exc": type(e).__name__}

    def snap():
        return [(ids(A.__bases__), ids(list(A)), ids(A.__iro__)) for A in decls]

    before = snap()
    allnodes = [objs[k] for k in sorted(objs)]
    out = {"graph": graph, "ifs": ifs, "bases_ok": bases_ok}
    out["iter"] = [ob(lambda A=A: list(A)) for A in decls]
    out["contains"] = [obb(lambda A=A: [x in A for x in allnodes]) for A in decls]
    out["ctwin"] = [obb(lambda A=A: [t in A for t in twins]) for A in decls]
    out["flat"] = [ob(lambda A=A: list(A.flattened())) for A in decls]
    out["sub"] = [[ob(lambda A=A, B=B: list(A - B)) for B in decls] for A in decls]
    out["add"] = [[ob(lambda A=A, B=B: list(A + B)) for B in decls] for A in decls]
    out["radd"] = [ob(lambda A=A, x=x: list(objs[x] + A)) for A, x in zip(decls, case["radd"])]

    def res(f):
        """an operation's result, judged as a declaration"""
        try:
            R = f()
        except Exception as e:
            return {"exc": type(e).__name__}
        return {"isdecl": isinstance(R, Declaration), "iter": ob(lambda: list(R)),
                "in": obb(lambda: [x in R for x in allnodes]), "flat": ob(lambda: list(R.flattened()))}
    out["bare"] = [[res(lambda A=A, x=x: A + objs[x]), res(lambda A=A, x=x: A - objs[x]), res(lambda A=A, x=x: objs[x] + A)]
                   for A, x in zip(decls, case["radd"])]
    # a second round of iteration after all the operations
    out["iter2"] = [ob(lambda A=A: list(A)) for A in decls]
    out["unchanged"] = snap() == before and out["iter2"] == out["iter"]

    inst = []
    cls = classes[case["cls"]]
    o = cls()
    for op in case["ops"]:
        raised = False
        exc = None
        try:
            if op[0] == "also":
                alsoProvides(o, *[build(x) for x in op[1]])
            elif op[0] == "directly":
                directlyProvides(o, *[build(x) for x in op[1]])
            else:
                try:
                    noLongerProvides(o, objs[op[1]])
                except ValueError:
                    raised = True
        except Exception as e:
            exc = type(e).__name__
        if exc is not None:
            inst.append({"exc": exc})
        else:
            inst.append({"dp": ob(lambda: list(directlyProvidedBy(o))), "raised": raised,
                         "prov": ob(lambda: list(providedBy(o)))})
    out["inst"] = inst
    out["ptwin"] = obb(lambda: [t in providedBy(o) for t in twins])
    return out


def main():
    payload = _boot.read_payload()
    res = []
    for idx, case in enumerate(payload["cases"]):
        try:
            res.append(run_case(case, idx))
        except Exception as e:
            res.append({"exc": type(e).__name__, "msg": str(e)[:200]})
    _boot.write_result({"obs": res})


main()
