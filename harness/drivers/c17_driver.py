"""C17 driver: build an interface and a candidate from a description (sources assembled and
``exec``-ed), run verifyObject / verifyClass, and report

  out      ["ok"] | ["single", err] | ["multi", [err, ...]] | ["exc", class name]
           err = [exception class name, element index or -1, message or ""]
  order    element indices in the order of iface.namesAndDescriptions(all=True)
  declares bool(iface.providedBy(candidate)) / bool(iface.implementedBy(candidate))
  attrs    what getattr(candidate, name) really is, per element (sanity of the generator)
  oracle   per method element with an introspectable implementation: rows
           [k, kw, iface_binds, impl_binds] for k = 0 .. max(positional counts)+2, kw in (0, 1):
           does inspect.signature(<function declared like the interface's method>).bind and
           inspect.signature(<the candidate's attribute as a caller reaches it>).bind accept
           k positional arguments (plus the keyword zz_extra=1 when kw)?

Case (JSON):
  {"stream": "grid"|"agg"|"unjudged", "vt": "o"|"c", "tentative": bool,
   "declare": 0 (not declared) | 1 (the interface itself) | 2 (an interface derived from it),
   "cand": "instance" | "class" (verifyClass) | "classobj" (verifyObject on a class that directlyProvides),
   "funcs": {"f0": "<parameter list>"}   function objects created once per case and shared by all steps,
   "history": [step, ...]   earlier verifications (same shape as a case, no history of their own) run first in
          the same process; "set_defaults": {"f0": k} reassigns f0.__defaults__ to k values before a step,
   "pre": [[ "I"|"ISub"|"IBase", "getitem"|"contains"|"get"|"query"|"direct", name ], ...]  single-name
          look-ups performed on the interface / a derived / the base interface BEFORE verifying,
   "elems": [{"level": "base"|"own"|"override",
              "desc": {"kind": "attr"} | {"kind": "method", "params": "<parameter list>"},
              "base_params": "<parameter list>"   (override only: what the base interface says)
              "impl": {"kind": "missing"|"method"|"instfunc"|"classmethod"|"staticmethod"|"builtin"|
                               "methdesc"|"property"|"instproperty"|"callable"|"partial"|"other"|"value",
                               "poolfunc_inst" | "poolfunc_method" (+ "func": name in "funcs") |
                               "wrapped_method"|"wrapped_classmethod"|"wrapped_staticmethod" (+ "inner": [params, ...]),
                       "params": "<parameter list incl. self/cls where the kind has one>"},
              "alias": {...} (see build_iface), "alias_impl": an impl stored under the alias name}]}
Parameter lists are source text, e.g. "self, p0, p1=None, *va, **kw".
"""
import _boot
import functools
import inspect
import types

from zope.interface import Attribute, Interface, directlyProvides, implementer
from zope.interface.exceptions import Invalid, MultipleInvalid
from zope.interface.interface import Method
from zope.interface.verify import verifyClass, verifyObject

EXTRA_KW = "zz_extra"


class _Callable:
    def __call__(self, *a, **k):
        return None


def build_iface(case):
    """Descriptions may carry a __name__ different from the key they are stored under
    (el["alias"]): {"how": "word", "name": A}        key = Attribute("A")   (a one-word first argument is the name)
                   {"how": "reuse", "name": A}       key = IOther["A"]      (a Method defined under another name elsewhere)
                   {"how": "ctor", "name": A}        key = Method("A")      (no signature information)
                   {"how": "shared", "with": j}      key_i = key_j = Attribute("a doc")  (element j: {"how": "second", "of": i})"""
    base_lines, own_lines, other_lines = [], [], []
    for i, el in enumerate(case["elems"]):
        name = "n%d" % i
        d = el["desc"]
        al = el.get("alias")

        def line(params):
            if al:
                how = al["how"]
                if how == "word":
                    return "    %s = Attribute(%r)" % (name, al["name"])
                if how == "reuse":
                    other_lines.append("    def %s(%s): pass" % (al["name"], params))
                    return "    %s = IOther[%r]" % (name, al["name"])
                if how == "ctor":
                    return "    %s = Method(%r)" % (name, al["name"])
                if how == "shared":
                    return "    %s = n%d = Attribute('one description under two keys %d')" % (name, al["with"], i)
                if how == "second":
                    return None
                raise ValueError(how)
            if d["kind"] == "attr":
                return "    %s = Attribute('attribute number %d')" % (name, i)
            return "    def %s(%s): pass" % (name, params)

        lvl = el["level"]
        if lvl == "base":
            base_lines.append(line(d.get("params")))
        elif lvl == "own":
            own_lines.append(line(d.get("params")))
        else:  # override: the base declares the name too
            if "base_params" in el:
                base_lines.append("    def %s(%s): pass" % (name, el["base_params"]))
            else:
                base_lines.append("    %s = Attribute('base attribute number %d')" % (name, i))
            own_lines.append(line(d.get("params")))
    base_lines = [x for x in base_lines if x]
    own_lines = [x for x in own_lines if x]
    src = ("class IOther(Interface):\n%s\nclass IBase(Interface):\n%s\nclass I(IBase):\n%s\nclass ISub(I):\n    pass\n" % (
        "\n".join(other_lines) or "    pass", "\n".join(base_lines) or "    pass", "\n".join(own_lines) or "    pass"))
    ns = {"Interface": Interface, "Attribute": Attribute, "Method": Method}
    exec(src, ns)
    return ns["I"], ns["ISub"], ns["IBase"], src


def pre_queries(case, ifaces):
    """single-name look-ups a program may have done before verifying; results are irrelevant"""
    for target, op, name in case.get("pre", ()):
        iface = ifaces[target]
        try:
            if op == "getitem":
                iface[name]
            elif op == "contains":
                name in iface
            elif op == "get":
                iface.get(name)
            elif op == "query":
                iface.queryDescriptionFor(name)
            elif op == "direct":
                iface.direct(name)
            else:
                raise ValueError(op)
        except KeyError:
            pass


def build_candidate(case, I, ISub, pool=None):
    lines = []
    inst_attrs = []   # (name, expression) set in the instance __dict__
    pool = pool or {}
    entries = [("n%d" % i, el["impl"]) for i, el in enumerate(case["elems"])]
    # something stored under the description's own __name__ (not the key): must not matter
    entries += [(el["alias"]["name"], el["alias_impl"]) for el in case["elems"] if "alias_impl" in el]
    for name, im in entries:
        k = im["kind"]
        p = im.get("params", "")
        if k == "missing":
            continue
        if k == "method":
            lines.append("    def %s(%s): pass" % (name, p))
        elif k in ("wrapped_method", "wrapped_classmethod", "wrapped_staticmethod"):
            # functools.wraps decorators: im["inner"] = parameter lists of the wrapped functions, innermost
            # first; im["params"] = the outermost wrapper, which is what callers reach
            chain = list(im["inner"]) + [p]
            lines.append("    def %s(%s): pass" % (name, chain[0]))
            for q in chain[1:]:
                lines.append("    _inner = %s\n    def %s(%s): pass\n    %s = functools.wraps(_inner)(%s)"
                             % (name, name, q, name, name))
            if k != "wrapped_method":
                lines.append("    %s = %s(%s)" % (name, k[len("wrapped_"):], name))
            lines.append("    del _inner")
        elif k == "classmethod":
            lines.append("    @classmethod\n    def %s(%s): pass" % (name, p))
        elif k == "staticmethod":
            lines.append("    @staticmethod\n    def %s(%s): pass" % (name, p))
        elif k == "instfunc":
            inst_attrs.append((name, "lambda_def(%r, %r)" % (name, p)))
        elif k == "poolfunc_inst":        # a shared function object in the instance dict
            inst_attrs.append((name, "pool[%r]" % im["func"]))
        elif k == "poolfunc_method":      # the same function object in the class body
            lines.append("    %s = pool[%r]" % (name, im["func"]))
        elif k == "builtin":
            lines.append("    %s = len" % name)
        elif k == "methdesc":
            lines.append("    %s = str.upper" % name)
        elif k == "property":
            lines.append("    %s = property(lambda self: 1)" % name)
        elif k == "instproperty":
            inst_attrs.append((name, "property(lambda self: 1)"))
        elif k == "callable":
            lines.append("    %s = _Callable()" % name)
        elif k == "partial":
            lines.append("    %s = functools.partial(len)" % name)
        elif k == "other":
            lines.append("    %s = 5" % name)
        elif k == "value":
            inst_attrs.append((name, "'text'"))
        else:
            raise ValueError("unknown impl kind %r" % k)
    src = "class C(object):\n%s\n" % ("\n".join(lines) or "    pass")

    def lambda_def(name, params):
        ns2 = {}
        exec("def %s(%s): pass" % (name, params), ns2)
        return ns2[name]

    ns = {"_Callable": _Callable, "functools": functools, "lambda_def": lambda_def, "pool": pool}
    exec(src, ns)
    C = ns["C"]
    decl = case["declare"]
    cand_kind = case["cand"]
    if cand_kind == "classobj":
        if decl:
            directlyProvides(C, I if decl == 1 else ISub)
        cand = C
        call_through = C
    else:
        if decl:
            C = implementer(I if decl == 1 else ISub)(C)
        inst = C()
        for name, expr in inst_attrs:
            inst.__dict__[name] = eval(expr, ns)
        cand = C if cand_kind == "class" else inst
        call_through = inst
    return cand, call_through, src


def classify_attr(cand, name):
    try:
        attr = getattr(cand, name)
    except AttributeError:
        return "missing"
    if inspect.ismethoddescriptor(attr) or inspect.isbuiltin(attr):
        return "builtin"
    if isinstance(attr, types.FunctionType):
        return "function"
    if isinstance(attr, types.MethodType) and type(attr.__func__) is types.FunctionType:
        return "method"
    if isinstance(attr, property):
        return "property"
    if callable(attr):
        return "callable"
    return "other"


def binds(fn, k, kw):
    try:
        sig = inspect.signature(fn, follow_wrapped=False)
    except (TypeError, ValueError):
        return None
    try:
        sig.bind(*([0] * k), **({EXTRA_KW: 1} if kw else {}))
    except TypeError:
        return False
    return True


def n_positional(fn):
    try:
        ps = inspect.signature(fn, follow_wrapped=False).parameters.values()
    except (TypeError, ValueError):
        return 0
    return sum(1 for p in ps if p.kind in (p.POSITIONAL_ONLY, p.POSITIONAL_OR_KEYWORD))


def oracle_rows(iface_params, attr):
    ns = {}
    exec("def f(%s): pass" % iface_params, ns)
    f = ns["f"]
    top = max(n_positional(f), n_positional(attr)) + 2
    rows = []
    for k in range(top + 1):
        for kw in (0, 1):
            a, b = binds(f, k, kw), binds(attr, k, kw)
            if a is None or b is None:
                return None
            rows.append([k, kw, a, b])
    return rows


def err_desc(e, names, by_desc):
    """[class, element index, message]; the element is found through the identity of the description
    the exception carries (its __name__ may differ from the key it is stored under)"""
    cls = type(e).__name__
    idx, mess = -1, ""
    obj = None
    if cls == "BrokenImplementation":
        obj = e.name
    elif cls == "BrokenMethodImplementation":
        obj = e.method
        mess = e.mess if isinstance(e.mess, str) else "<non-str>"
    if obj is not None:
        if id(obj) in by_desc:
            idx = by_desc[id(obj)]
        else:
            nm = obj if isinstance(obj, str) else getattr(obj, "__name__", None)
            idx = names.get(nm, -1)
    return [cls, idx, mess]


def make_pool(case):
    pool = {}
    for fname, params in sorted(case.get("funcs", {}).items()):
        ns = {}
        exec("def %s(%s): pass" % (fname, params), ns)
        pool[fname] = ns[fname]
    return pool


def run_case(case):
    """a case may carry a history of earlier verifications performed in the same process on
    candidates that share function objects (case["funcs"]) with this one; only the last is reported"""
    pool = make_pool(case)
    for step in case.get("history", ()):
        try:
            run_step(step, pool, report=False)
        except Exception:  # noqa
            pass
    return run_step(case, pool)


def run_step(case, pool, report=True):
    for fname, k in sorted(case.get("set_defaults", {}).items()):
        pool[fname].__defaults__ = (None,) * k if k else None
    I, ISub, IBase, isrc = build_iface(case)
    cand, call_through, csrc = build_candidate(case, I, ISub, pool)
    names = {"n%d" % i: i for i in range(len(case["elems"]))}
    # description object -> smallest element index stored under it (taken from the class bodies'
    # own dictionaries, not from the API under test)
    by_desc = {}
    for i in range(len(case["elems"]) - 1, -1, -1):
        for src_iface in (I, IBase):
            dsc = src_iface.direct("n%d" % i)
            if dsc is not None:
                by_desc[id(dsc)] = i
    res = {}
    vt = case["vt"]
    # 1. earlier look-ups, then the verification itself (nothing else touches the interface before)
    pre_queries(case, {"I": I, "ISub": ISub, "IBase": IBase})
    fn = verifyClass if vt == "c" else verifyObject
    try:
        r = fn(I, cand, tentative=bool(case["tentative"]))
        res["out"] = ["ok"] if r is True else ["exc", "returned:" + repr(r)[:40]]
    except MultipleInvalid as e:
        res["out"] = ["multi", [err_desc(x, names, by_desc) for x in e.exceptions]]
    except Invalid as e:
        res["out"] = ["single", err_desc(e, names, by_desc)]
    except Exception as e:  # noqa
        res["out"] = ["exc", type(e).__name__]
    if not report:
        return None
    # 2. the inputs of the model / the Spec, as the public API reports them
    res["order"] = [names.get(n, -1) for n, _d in I.namesAndDescriptions(all=True)]
    tester = I.implementedBy if vt == "c" else I.providedBy
    try:
        res["declares"] = bool(tester(cand))
    except Exception as e:  # noqa
        res["declares"] = "exc:" + type(e).__name__
    res["attrs"] = [classify_attr(cand, "n%d" % i) for i in range(len(case["elems"]))]
    oracle = []
    for i, el in enumerate(case["elems"]):
        if el["desc"]["kind"] != "method":
            continue
        if res["attrs"][i] not in ("function", "method"):
            continue
        try:
            attr = getattr(call_through, "n%d" % i)
            rows = oracle_rows(el["desc"]["params"], attr)
        except Exception as e:  # noqa
            rows = None
        if rows is not None:
            oracle.append([i, rows])
    res["oracle"] = oracle
    return res


def main():
    payload = _boot.read_payload()
    out = []
    for case in payload["cases"]:
        try:
            out.append(run_case(case))
        except Exception as e:  # noqa
            out.append({"driver_exc": "%s: %s" % (type(e).__name__, str(e)[:200])})
    _boot.write_result({"obs": out})


main()
