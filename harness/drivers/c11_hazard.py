"""C11 re-entrancy hazards WITHOUT protective references (one scenario per process).

Each scenario lets a callback out of the lookup code re-enter ``changed()`` (or release the last
reference to something the C code is using) and then allocates garbage so that freed memory is
reused.  On correct code the process survives and answers are right; on code that uses a borrowed
pointer across the callback the interpreter dies (signal) or, on an AddressSanitizer build, the
sanitizer reports — the harness treats both as a concrete failing run.
payload: {"which": <scenario>, "n": iterations}  ->  {"summary": .., "failures": [..]}"""
import gc
import sys

import _boot
from zope.interface import Interface, implementer
from zope.interface.adapter import LookupBase, VerifyingBase

MODE = _boot.mode


class I(Interface):
    pass


class P(Interface):
    pass


def junk():
    return [dict(a=i) for i in range(300)] + [tuple(range(i % 30)) for i in range(300)]


def main():
    payload = _boot.read_payload()
    which, n = payload["which"], int(payload.get("n", 300))
    failures = []
    state = {"armed": False, "n": 0}

    class L(LookupBase):
        def _uncached_lookup(self, required, provided, name=""):
            if which == "uncached_lookup":
                self.changed(None)
                junk()
            if which == "destructor_lookup" and state["armed"]:
                raise KeyError("uncached")
            if which.startswith(("super", "required_hash_adapter")):
                return lambda ob: ("adapted", type(ob).__name__)
            return "r"

        def _uncached_lookupAll(self, required, provided):
            if which == "uncached_lookupAll":
                self.changed(None)
                junk()
            if which == "destructor_lookup" and state["armed"]:
                raise KeyError("uncached")
            return (("", "x"),)

        def _uncached_subscriptions(self, required, provided):
            if which == "uncached_subscriptions":
                self.changed(None)
                junk()
            return ["s"]

    lk = L()

    def fire():
        if state["armed"]:
            state["armed"] = False
            state["n"] += 1
            lk.changed(None)
            junk()

    class HKey:
        def __hash__(self):
            fire()
            return 42

        def __eq__(self, o):
            return self is o

        def extends(self, other):
            return False

    class SName(str):
        def __bool__(self):
            if which == "name_bool_lookup":
                fire()
            return True

        def __hash__(self):
            if which == "name_hash_lookup":
                fire()
            return str.__hash__(self)

        def __eq__(self, o):
            return str.__eq__(self, o)

    hk, sn = HKey(), SName("nm")

    def expect(got, want, what):
        if got != want and len(failures) < 5:
            failures.append("%s returned %r, expected %r" % (what, got, want))

    if which.startswith("provided_hash_"):
        meth = which[len("provided_hash_"):]
        for _ in range(n):
            lk.lookup((I,), P, "")
            state["armed"] = True
            if meth == "lookup":
                expect(lk.lookup((I,), hk, ""), "r", which)
            elif meth == "lookupAll":
                expect(lk.lookupAll((I,), hk), (("", "x"),), which)
            else:
                expect(lk.subscriptions((I,), hk), ["s"], which)
    elif which in ("name_bool_lookup", "name_hash_lookup"):
        for _ in range(n):
            lk.lookup((I,), P, "")
            state["armed"] = True
            expect(lk.lookup((I,), P, sn), "r", which)
    elif which == "required_hash_lookup1":
        for _ in range(n):
            lk.lookup((I,), P, "")
            state["armed"] = True
            expect(lk.lookup1(hk, P, ""), "r", which)
    elif which == "required_hash_adapter_hook":
        class Desc:
            def __get__(self, inst, owner):
                return hk

        class Ob:
            __providedBy__ = Desc()

        ob = Ob()
        for _ in range(n):
            lk.lookup((I,), P, "")
            state["armed"] = True
            expect(lk.adapter_hook(P, ob, ""), ("adapted", "Ob"), which)
    elif which == "super_self_property":
        class Fresh:
            def __init__(self):
                self.pad = list(range(50))

        class S(super):
            @property
            def __self__(self):
                return Fresh()

        @implementer(I)
        class A:
            pass

        class B(A):
            pass

        b = B()
        for _ in range(n):
            expect(lk.adapter_hook(P, S(B, b), ""), ("adapted", "Fresh"), which)
            junk()
    elif which in ("uncached_lookup", "uncached_lookupAll", "uncached_subscriptions"):
        for _ in range(n):
            expect(lk.lookup((I,), P, ""), "r", which)
            expect(lk.lookupAll((I,), P), (("", "x"),), which)
            expect(lk.subscriptions((I,), P), ["s"], which)
    elif which in ("generation_verify", "generation_changed_leak"):
        class Reg:
            pass

        class Base:
            @property
            def _generation(self):
                if state["armed"]:
                    state["armed"] = False
                    vb.changed(None)           # releases _verify_ro / _verify_generations
                    junk()
                return 1

        class V(VerifyingBase):
            def _uncached_lookup(self, required, provided, name=""):
                return "r"

        vb = V()
        reg = Reg()
        vb._registry = reg
        reg.ro = [reg] + [Base() for _ in range(30)]     # >= 20 elements: not served from the tuple free list
        vb.changed(None)
        if which == "generation_verify":
            for _ in range(n):
                state["armed"] = True
                expect(vb.lookup((I,), P, ""), "r", which)
        else:
            for _ in range(20):
                state["armed"] = True
                vb.changed(None)
            gc.collect()
            n0 = len(gc.get_objects())
            for _ in range(n):
                state["armed"] = True
                vb.changed(None)
            gc.collect()
            growth = len(gc.get_objects()) - n0
            if growth > 8:
                failures.append("%d re-entrant changed() calls leaked %d objects" % (n, growth))
    elif which == "provides_leak":
        if MODE == "c":
            from zope.interface import _zope_interface_coptimizations as zc
            gos = zc.getObjectSpecification
        else:
            from zope.interface.declarations import getObjectSpecification as gos

        class O:
            pass

        class Marker:
            pass

        o = O()
        o.__provides__ = Marker()
        for _ in range(20):
            gos(o)
        rc0 = sys.getrefcount(o.__provides__)
        for _ in range(n):
            gos(o)
        growth = sys.getrefcount(o.__provides__) - rc0
        if growth > 2:
            failures.append("%d getObjectSpecification calls leaked %d references to a non-specification __provides__" % (n, growth))
    elif which == "destructor_lookup":
        class Victim:
            def __del__(self):
                fire()

        for _ in range(n):
            lk.lookup((I,), P, "")
            state["armed"] = True
            try:
                lk.lookup(iter([I, Victim()]), P, "")
            except KeyError:
                pass
            state["armed"] = True
            try:
                lk.lookupAll(iter([I] * 25 + [Victim()]), P)
            except KeyError:
                pass
            state["armed"] = False
    elif which == "long_required_hit":
        # tuples of >= 20 elements are really freed: an over-release on the hit path is visible
        req = [I] * 25
        for _ in range(n):
            for _k in range(3):
                expect(lk.lookup(list(req), P, ""), "r", which)
                expect(lk.lookupAll(list(req), P), (("", "x"),), which)
                expect(lk.subscriptions(list(req), P), ["s"], which)
                expect(lk.lookup(list(req), P, "nm"), "r", which)
            junk()
            if _ % 7 == 0:
                lk.changed(None)
    elif which == "stale_ro_after_reader_refresh":
        # Deterministic stand-in for a thread switch: a verifying registry's lookup notices a generation
        # bump and refreshes the registry's resolution order (VerifyingAdapterLookup.changed ->
        # registry._refresh_ro); exactly between computing the order and storing it, "the mutator
        # thread" assigns ``__bases__``.  The stale order must not survive.
        from zope.interface import ro as zro
        from zope.interface.adapter import VerifyingAdapterRegistry
        base, other = VerifyingAdapterRegistry(), VerifyingAdapterRegistry()
        reg = VerifyingAdapterRegistry((other,))
        base.register([I], P, "", "from-base")
        other.register([I], P, "", "from-other")
        expect(reg.lookup([I], P, ""), "from-other", "warm-up lookup")
        orig, armed = zro.ro, [True]

        def racing_ro(C, *a, **k):
            r = orig(C, *a, **k)
            if armed[0] and C is reg:
                armed[0] = False
                state["n"] += 1
                reg.__bases__ = (base,)
            return r

        zro.ro = racing_ro
        try:
            other.register([I], P, "x", "bump")
            got = reg.lookup([I], P, "")
        finally:
            zro.ro = orig
        names = lambda l: ["reg" if r is reg else "base" if r is base else "other" for r in l]   # noqa: E731
        if got not in ("from-other", "from-base"):
            failures.append("interrupted lookup returned %r" % (got,))
        if names(reg.ro) != ["reg", "base"] or reg.lookup([I], P, "") != "from-base":
            failures.append("__bases__ is %s but reg.ro is %s and lookups keep answering %r"
                            % (names(reg.__bases__), names(reg.ro), reg.lookup([I], P, "")))
        if not state["n"]:
            failures.append("the scenario did not reach registry._refresh_ro through ro.ro")
    elif which == "concurrent_changed_unsubscribe":
        # Deterministic stand-in for two threads inside AdapterLookupBase.changed() of the same lookup
        # object (the lookups of a verifying registry call changed() themselves when they notice a
        # generation bump): while one of them is cancelling a subscription, the other one runs changed()
        # completely.  Nobody may see an exception, and the subscription must be cancelled exactly once.
        from zope.interface.adapter import VerifyingAdapterRegistry
        from zope.interface.interface import InterfaceClass
        reg = VerifyingAdapterRegistry()
        K = InterfaceClass("K", (Interface,), {})
        reg.register([K], P, "", "v")
        expect(reg.lookup([K], P, ""), "v", "warm-up lookup")        # subscribes the lookup object to K
        lookup_obj = reg._v_lookup
        orig_unsub = K.unsubscribe
        armed = [True]

        def racing_unsubscribe(dependent):
            if armed[0] and dependent is lookup_obj:
                armed[0] = False
                state["n"] += 1
                lookup_obj.changed(None)          # "the other thread"
            return orig_unsub(dependent)

        K.unsubscribe = racing_unsubscribe
        try:
            try:
                reg.register([K], P, "x", "w")        # the mutator: ... ; changed()
            except Exception as e:   # noqa
                failures.append("register() raised %s: %s" % (type(e).__name__, str(e)[:120]))
            expect(reg.lookup([K], P, "x"), "w", "lookup after the mutation")
        finally:
            del K.unsubscribe
        left = K.dependents.get(lookup_obj, 0)
        if left not in (0, 1):
            failures.append("the lookup object is subscribed %d times to K" % left)
        if not state["n"]:
            failures.append("the scenario did not reach Specification.unsubscribe")
    elif which == "adapter_hooks_mutation":
        # ``Interface.__call__`` runs the adapter hooks; a hook may change the list of hooks
        from zope.interface import interface as zi_interface
        hooks = zi_interface.adapter_hooks
        saved = list(hooks)

        class Hook:
            def __init__(self):
                self.pad = list(range(40))

            def __call__(self, iface, ob):
                state["n"] += 1
                del hooks[:]          # unregisters every hook, itself included
                junk()
                return None

        try:
            for _ in range(n):
                hooks[:] = [Hook(), Hook(), Hook()]
                expect(I(object(), "alt"), "alt", which)
        finally:
            hooks[:] = saved
    else:
        failures.append("unknown scenario " + which)
    _boot.write_result({"summary": "survived, %d callbacks fired" % state["n"], "failures": failures})


main()
