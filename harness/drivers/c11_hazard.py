"""C11 re-entrancy hazards WITHOUT protective references (one scenario per process).

Each scenario lets a callback out of the lookup code re-enter ``changed()`` (or release the last
reference to something the C code is using) and then allocates garbage so that freed memory is
reused.  On correct code the process survives and answers are right; on code that uses a borrowed
pointer across the callback the interpreter dies (signal) or, on an AddressSanitizer build, the
sanitizer reports — the harness treats both as a concrete failing run.
payload: {"which": <scenario>, "n": iterations}  ->  {"summary": .., "failures": [..]}"""
import gc
import sys

import _boot
from zope.interface import Interface, implementer
from zope.interface.adapter import LookupBase, VerifyingBase

MODE = _boot.mode


class I(Interface):
    pass


class P(Interface):
    pass


def junk():
    return [dict(a=i) for i in range(300)] + [tuple(range(i % 30)) for i in range(300)]


def main():
    payload = _boot.read_payload()
    which, n = payload["which"], int(payload.get("n", 300))
    failures = []
    findings = []      # [{"key": .., "text": ..}]: misbehaviour with a stable signature (known_findings.txt)
    state = {"armed": False, "n": 0}

    class L(LookupBase):
        def _uncached_lookup(self, required, provided, name=""):
            if which == "uncached_lookup":
                self.changed(None)
                junk()
            if which == "destructor_lookup" and state["armed"]:
                raise KeyError("uncached")
            if which.startswith(("super", "required_hash_adapter")):
                return lambda ob: ("adapted", type(ob).__name__)
            return "r"

        def _uncached_lookupAll(self, required, provided):
            if which == "uncached_lookupAll":
                self.changed(None)
                junk()
            if which == "destructor_lookup" and state["armed"]:
                raise KeyError("uncached")
            return (("", "x"),)

        def _uncached_subscriptions(self, required, provided):
            if which == "uncached_subscriptions":
                self.changed(None)
                junk()
            return ["s"]

    lk = L()

    def fire():
        if state["armed"]:
            state["armed"] = False
            state["n"] += 1
            lk.changed(None)
            junk()

    class HKey:
        def __hash__(self):
            fire()
            return 42

        def __eq__(self, o):
            return self is o

        def extends(self, other):
            return False

    class SName(str):
        def __bool__(self):
            if which == "name_bool_lookup":
                fire()
            return True

        def __hash__(self):
            if which == "name_hash_lookup":
                fire()
            return str.__hash__(self)

        def __eq__(self, o):
            return str.__eq__(self, o)

    hk, sn = HKey(), SName("nm")

    def expect(got, want, what):
        if got != want and len(failures) < 5:
            failures.append("%s returned %r, expected %r" % (what, got, want))

    if which.startswith("provided_hash_"):
        meth = which[len("provided_hash_"):]
        for _ in range(n):
            lk.lookup((I,), P, "")
            state["armed"] = True
            if meth == "lookup":
                expect(lk.lookup((I,), hk, ""), "r", which)
            elif meth == "lookupAll":
                expect(lk.lookupAll((I,), hk), (("", "x"),), which)
            else:
                expect(lk.subscriptions((I,), hk), ["s"], which)
    elif which in ("name_bool_lookup", "name_hash_lookup"):
        for _ in range(n):
            lk.lookup((I,), P, "")
            state["armed"] = True
            expect(lk.lookup((I,), P, sn), "r", which)
    elif which == "required_hash_lookup1":
        for _ in range(n):
            lk.lookup((I,), P, "")
            state["armed"] = True
            expect(lk.lookup1(hk, P, ""), "r", which)
    elif which == "required_hash_adapter_hook":
        class Desc:
            def __get__(self, inst, owner):
                return hk

        class Ob:
            __providedBy__ = Desc()

        ob = Ob()
        for _ in range(n):
            lk.lookup((I,), P, "")
            state["armed"] = True
            expect(lk.adapter_hook(P, ob, ""), ("adapted", "Ob"), which)
    elif which == "super_self_property":
        class Fresh:
            def __init__(self):
                self.pad = list(range(50))

        class S(super):
            @property
            def __self__(self):
                return Fresh()

        @implementer(I)
        class A:
            pass

        class B(A):
            pass

        b = B()
        for _ in range(n):
            expect(lk.adapter_hook(P, S(B, b), ""), ("adapted", "Fresh"), which)
            junk()
    elif which in ("uncached_lookup", "uncached_lookupAll", "uncached_subscriptions"):
        for _ in range(n):
            expect(lk.lookup((I,), P, ""), "r", which)
            expect(lk.lookupAll((I,), P), (("", "x"),), which)
            expect(lk.subscriptions((I,), P), ["s"], which)
    elif which in ("generation_verify", "generation_changed_leak"):
        class Reg:
            pass

        class Base:
            @property
            def _generation(self):
                if state["armed"]:
                    state["armed"] = False
                    vb.changed(None)           # releases _verify_ro / _verify_generations
                    junk()
                return 1

        class V(VerifyingBase):
            def _uncached_lookup(self, required, provided, name=""):
                return "r"

        vb = V()
        reg = Reg()
        vb._registry = reg
        reg.ro = [reg] + [Base() for _ in range(30)]     # >= 20 elements: not served from the tuple free list
        vb.changed(None)
        if which == "generation_verify":
            for _ in range(n):
                state["armed"] = True
                expect(vb.lookup((I,), P, ""), "r", which)
        else:
            for _ in range(20):
                state["armed"] = True
                vb.changed(None)
            gc.collect()
            n0 = len(gc.get_objects())
            for _ in range(n):
                state["armed"] = True
                vb.changed(None)
            gc.collect()
            growth = len(gc.get_objects()) - n0
            if growth > 8:
                failures.append("%d re-entrant changed() calls leaked %d objects" % (n, growth))
    elif which == "provides_leak":
        if MODE == "c":
            from zope.interface import _zope_interface_coptimizations as zc
            gos = zc.getObjectSpecification
        else:
            from zope.interface.declarations import getObjectSpecification as gos

        class O:
            pass

        class Marker:
            pass

        o = O()
        o.__provides__ = Marker()
        for _ in range(20):
            gos(o)
        rc0 = sys.getrefcount(o.__provides__)
        for _ in range(n):
            gos(o)
        growth = sys.getrefcount(o.__provides__) - rc0
        if growth > 2:
            failures.append("%d getObjectSpecification calls leaked %d references to a non-specification __provides__" % (n, growth))
    elif which == "destructor_lookup":
        class Victim:
            def __del__(self):
                fire()

        for _ in range(n):
            lk.lookup((I,), P, "")
            state["armed"] = True
            try:
                lk.lookup(iter([I, Victim()]), P, "")
            except KeyError:
                pass
            state["armed"] = True
            try:
                lk.lookupAll(iter([I] * 25 + [Victim()]), P)
            except KeyError:
                pass
            state["armed"] = False
    elif which == "long_required_hit":
        # tuples of >= 20 elements are really freed: an over-release on the hit path is visible
        req = [I] * 25
        for _ in range(n):
            for _k in range(3):
                expect(lk.lookup(list(req), P, ""), "r", which)
                expect(lk.lookupAll(list(req), P), (("", "x"),), which)
                expect(lk.subscriptions(list(req), P), ["s"], which)
                expect(lk.lookup(list(req), P, "nm"), "r", which)
            junk()
            if _ % 7 == 0:
                lk.changed(None)
    elif which == "stale_ro_after_reader_refresh":
        # Deterministic stand-in for a thread switch: a verifying registry's lookup notices a generation
        # bump and refreshes the registry's resolution order (VerifyingAdapterLookup.changed ->
        # registry._refresh_ro); exactly between computing the order and storing it, "the mutator
        # thread" assigns ``__bases__``.  The stale order must not survive.
        from zope.interface import ro as zro
        from zope.interface.adapter import VerifyingAdapterRegistry
        base, other = VerifyingAdapterRegistry(), VerifyingAdapterRegistry()
        reg = VerifyingAdapterRegistry((other,))
        base.register([I], P, "", "from-base")
        other.register([I], P, "", "from-other")
        expect(reg.lookup([I], P, ""), "from-other", "warm-up lookup")
        orig, armed = zro.ro, [True]

        def racing_ro(C, *a, **k):
            r = orig(C, *a, **k)
            if armed[0] and C is reg:
                armed[0] = False
                state["n"] += 1
                reg.__bases__ = (base,)
            return r

        zro.ro = racing_ro
        try:
            other.register([I], P, "x", "bump")
            got = reg.lookup([I], P, "")
        finally:
            zro.ro = orig
        names = lambda l: ["reg" if r is reg else "base" if r is base else "other" for r in l]   # noqa: E731
        if got not in ("from-other", "from-base"):
            failures.append("interrupted lookup returned %r" % (got,))
        if names(reg.ro) != ["reg", "base"] or reg.lookup([I], P, "") != "from-base":
            failures.append("__bases__ is %s but reg.ro is %s and lookups keep answering %r"
                            % (names(reg.__bases__), names(reg.ro), reg.lookup([I], P, "")))
        if not state["n"]:
            failures.append("the scenario did not reach registry._refresh_ro through ro.ro")
    elif which == "concurrent_changed_unsubscribe":
        # Deterministic stand-in for two threads inside AdapterLookupBase.changed() of the same lookup
        # object (the lookups of a verifying registry call changed() themselves when they notice a
        # generation bump): while one of them is cancelling a subscription, the other one runs changed()
        # completely.  Nobody may see an exception, and the subscription must be cancelled exactly once.
        from zope.interface.adapter import VerifyingAdapterRegistry
        from zope.interface.interface import InterfaceClass
        reg = VerifyingAdapterRegistry()
        K = InterfaceClass("K", (Interface,), {})
        reg.register([K], P, "", "v")
        expect(reg.lookup([K], P, ""), "v", "warm-up lookup")        # subscribes the lookup object to K
        lookup_obj = reg._v_lookup
        orig_unsub = K.unsubscribe
        armed = [True]

        def racing_unsubscribe(dependent):
            if armed[0] and dependent is lookup_obj:
                armed[0] = False
                state["n"] += 1
                lookup_obj.changed(None)          # "the other thread"
            return orig_unsub(dependent)

        K.unsubscribe = racing_unsubscribe
        try:
            try:
                reg.register([K], P, "x", "w")        # the mutator: ... ; changed()
            except Exception as e:   # noqa
                failures.append("register() raised %s: %s" % (type(e).__name__, str(e)[:120]))
            expect(reg.lookup([K], P, "x"), "w", "lookup after the mutation")
        finally:
            del K.unsubscribe
        left = K.dependents.get(lookup_obj, 0)
        if left not in (0, 1):
            failures.append("the lookup object is subscribed %d times to K" % left)
        if not state["n"]:
            failures.append("the scenario did not reach Specification.unsubscribe")
    elif which == "adapter_hooks_mutation":
        # ``Interface.__call__`` runs the adapter hooks; a hook may change the list of hooks
        from zope.interface import interface as zi_interface
        hooks = zi_interface.adapter_hooks
        saved = list(hooks)

        class Hook:
            def __init__(self):
                self.pad = list(range(40))

            def __call__(self, iface, ob):
                state["n"] += 1
                del hooks[:]          # unregisters every hook, itself included
                junk()
                return None

        try:
            for _ in range(n):
                hooks[:] = [Hook(), Hook(), Hook()]
                expect(I(object(), "alt"), "alt", which)
        finally:
            hooks[:] = saved
    elif which == "destructor_reenters_during_changed":
        # The lookup caches hold the LAST reference to a registered value; re-registering makes the
        # mutator's changed() drop the caches, the value's destructor runs in the middle of that and
        # looks the registry up again.  The mutation is complete by then: the destructor must see the
        # new value, and nothing may crash.  One variant per cache (_cache, _mcache, _scache).
        from zope.interface.adapter import AdapterRegistry
        rounds = max(n, 50)
        seen = []

        class Value:
            def __init__(self, reg, tag, how):
                self.reg, self.tag, self.how = reg, tag, how

            def __call__(self, ob):
                return (self.tag, ob)

            def __del__(self):
                state["n"] += 1
                reg = self.reg
                if self.how == "lookup":
                    got = reg.lookup((I,), P, "")
                    seen.append(getattr(got, "tag", got))
                elif self.how == "lookupAll":
                    seen.append(tuple((k, getattr(v, "tag", v)) for k, v in reg.lookupAll((I,), P)))
                else:
                    seen.append(tuple(getattr(v, "tag", v) for v in reg.subscriptions((I,), P)))
                junk()

        for how in ("lookup", "lookupAll", "subscriptions"):
            reg = AdapterRegistry()
            for rnd in range(rounds):
                del seen[:]
                if how == "subscriptions":
                    old = Value(reg, "old", how)
                    reg.subscribe([I], P, old)
                    reg.subscriptions((I,), P)          # _scache now refers to old
                    reg.unsubscribe([I], P, old)        # (changed() inside: old is still alive here)
                    reg.subscriptions((I,), P)
                    reg.subscribe([I], P, old)
                    reg.subscriptions((I,), P)
                    new = Value(reg, "new", how)
                    del seen[:]
                    del old
                    # the registry and the cache share the references; replacing the subscription list
                    # leaves the cache as the last owner
                    reg.unsubscribe([I], P)             # removes every subscriber: 'old' dies inside changed()
                    want = [()]
                    reg.subscribe([I], P, new)
                    del new
                    reg.unsubscribe([I], P)
                else:
                    reg.register([I], P, "", Value(reg, "old", how))
                    if how == "lookup":
                        reg.lookup((I,), P, "")
                    else:
                        reg.lookupAll((I,), P)
                    new = Value(reg, "new", how)
                    del seen[:]
                    reg.register([I], P, "", new)       # 'old' dies inside changed()
                    want = ["new"] if how == "lookup" else [(("", "new"),)]
                    after = reg.lookup((I,), P, "")
                    if after is not new:
                        expect(getattr(after, "tag", after), "new", "%s: lookup after re-registration" % how)
                    reg.unregister([I], P, "")
                    del new, after
                if seen[:1] != want and len(failures) < 5:
                    failures.append("%s, round %d: the destructor running inside changed() saw %r, expected %r"
                                    % (how, rnd, seen[:1], want))
                gc.collect()
    elif which == "mutation_from_key_hash_during_walk":
        # A key's __hash__ (an InterfaceClass subclass with a Python __hash__), called by the Python
        # walkers _lookup / _lookupAll / _subscriptions while they iterate the extendors of the looked-up
        # interface, mutates the registry (what a mutator thread does at that very moment).  The
        # interrupted call must answer as before or as after the mutation.
        from zope.interface.adapter import AdapterRegistry
        from zope.interface.interface import InterfaceClass
        hook = [None]

        class Hooked(InterfaceClass):
            def __hash__(self):
                h = hook[0]
                if h is not None and sys._getframe(1).f_code.co_name in ("_lookup", "_lookupAll", "_subscriptions"):
                    hook[0] = None
                    state["n"] += 1
                    h()
                return InterfaceClass.__hash__(self)

        def canon(how, x):
            if how == "lookup":
                return x
            if how == "lookupAll":
                return tuple(sorted(x))
            return tuple(x)

        for how in ("lookup", "lookupAll", "subscriptions"):
            for hooked_pos in range(3):
                for victim in range(4):
                    for nreq in (1, 2):
                        IPs = [(Hooked if j == hooked_pos else InterfaceClass)("IP%d" % j, (P,), {"__module__": __name__})
                               for j in range(3)]
                        extra = InterfaceClass("IPx", (P,), {"__module__": __name__})
                        reg = AdapterRegistry()
                        req = [I] * nreq
                        for j, ip in enumerate(IPs):
                            if how == "subscriptions":
                                reg.subscribe(req, ip, "S%d" % j)
                            else:
                                reg.register(req, ip, "", "A%d" % j)
                                reg.register(req, ip, "n%d" % j, "N%d" % j)

                        def call():
                            if how == "lookup":
                                return reg.lookup(tuple(req), P, "")
                            if how == "lookupAll":
                                return reg.lookupAll(tuple(req), P)
                            return reg.subscriptions(tuple(req), P)

                        def mutate():
                            if victim == 3:
                                if how == "subscriptions":
                                    reg.subscribe(req, extra, "Sx")
                                else:
                                    reg.register(req, extra, "", "Ax")
                            elif how == "subscriptions":
                                reg.unsubscribe(req, IPs[victim], "S%d" % victim)
                            else:
                                reg.unregister(req, IPs[victim], "")
                                reg.unregister(req, IPs[victim], "n%d" % victim)

                        before = canon(how, call())
                        reg.changed(None)
                        hook[0] = mutate
                        try:
                            during = canon(how, call())
                        except Exception as e:   # noqa
                            during = "%s: %s" % (type(e).__name__, e)
                        fired = hook[0] is None
                        hook[0] = None
                        reg.changed(None)
                        after = canon(how, call())
                        if fired and during != before and during != after and len(failures) < 6:
                            failures.append("%s(%d required), __hash__ of extendor %d %s: answered %r; before %r, after %r"
                                            % (how, nreq, hooked_pos,
                                               "registers another extendor" if victim == 3 else "removes extendor %d" % victim,
                                               during, before, after))
        if not state["n"]:
            failures.append("no __hash__ hook fired inside a walker")
    elif which == "lookup_during_mutator":
        # Lookups that happen WHILE a mutator runs -- from the documented storage hooks the mutator itself
        # calls (_mappingType.__setitem__), from a key's __hash__, and from a lookup thread -- on the
        # registry, on an AdapterRegistry based on it and on a VerifyingAdapterRegistry based on it.  After
        # the mutator returned, every query must answer like a freshly built registry with the same
        # registrations (nothing computed in the middle may survive); for the single-write mutators the
        # answers given in the middle must be the ones before or after.
        import threading
        import time
        from zope.interface.adapter import AdapterRegistry, VerifyingAdapterRegistry
        from zope.interface.interface import InterfaceClass
        hook = [None]

        def fire():
            h = hook[0]
            if h is not None:
                hook[0] = None
                try:
                    h()
                finally:
                    hook[0] = h

        class HookMap(dict):
            def __setitem__(self, k, v):
                dict.__setitem__(self, k, v)
                fire()

        class Hooked(InterfaceClass):
            def __hash__(self):
                fire()
                return InterfaceClass.__hash__(self)

        class Reg(AdapterRegistry):
            _mappingType = HookMap

        II = InterfaceClass("II", (Interface,), {"__module__": __name__})
        JJ = Hooked("JJ", (II,), {"__module__": __name__})
        PP = InterfaceClass("PP", (Interface,), {"__module__": __name__})

        def populate(r, regs, subs):
            for a in regs:
                r.register(*a)
            for a in subs:
                r.subscribe(*a)

        base_regs = [([II], PP, "", "a"), ([JJ], PP, "n", "b"), ([II, II], PP, "", "c")] + \
                    [([II], PP, "x%d" % j, "v%d" % j) for j in range(12)]
        base_subs = [([II], PP, "s1"), ([JJ], PP, "s2")]

        def queries(r):
            return (r.lookup([JJ], PP, ""), r.lookup([JJ], PP, "n"), r.lookup([JJ, JJ], PP, ""), r.lookup([JJ], PP, "x7"),
                    tuple(sorted(r.lookupAll([JJ], PP))), tuple(sorted(r.subscriptions([JJ], PP))))

        def triple(regcls):
            r = regcls()
            return r, AdapterRegistry((r,)), VerifyingAdapterRegistry((r,))

        def all_queries(t):
            return tuple(queries(x) for x in t)

        def fresh_like(reg):
            t = triple(AdapterRegistry)
            populate(t[0], [tuple(a) for a in reg.allRegistrations()], [tuple(a) for a in reg.allSubscriptions()])
            return all_queries(t)

        def partial_answers(reg, extra=None):
            """what registries holding a PREFIX of reg's replay sequence answer (per query tuple of one
            registry of the triple): the answers a half-replayed registry gives"""
            seq = [("r", tuple(a)) for a in reg.allRegistrations()] + [("s", tuple(a)) for a in reg.allSubscriptions()]
            tp = triple(AdapterRegistry)
            seen = set()

            def note():
                for x in tp:
                    seen.add(queries(x) + (extra(x) if extra else ()))
            note()
            for kind, a in seq:
                (tp[0].register if kind == "r" else tp[0].subscribe)(*a)
                note()
            return seen

        F14 = "F14-lookup-midway-through-rebuild-sees-partially-replayed-registry"

        def judge_midway(label, observed, before, after, partial, where):
            """observed / before / after / partial: sets of per-registry answer tuples; one tuple is a
            sequence of separate lookups (each may see another moment), so it is judged query by query"""
            observed = list(observed)   # a reader thread may still add to the set: judge an atomic snapshot
            for d in observed:
                for qi, ans in enumerate(d):
                    if any(b[qi] == ans for b in before) or any(a[qi] == ans for a in after):
                        continue
                    # what a registry holding only SOME of the registrations answers: one of the prefix answers,
                    # or (lookupAll / subscriptions gather from several dictionaries at different moments) a
                    # collection made only of items that prefix answers contain
                    def partial_like():
                        if any(x[qi] == ans for x in partial):
                            return True
                        if isinstance(ans, tuple) and ans and all(isinstance(x[qi], tuple) for x in partial):
                            items = {it for x in partial for it in x[qi]}
                            return all(it in items for it in ans)
                        return False
                    if label == "rebuild" and partial is not None and partial_like():
                        if not any(f["key"] == F14 for f in findings):
                            findings.append({"key": F14, "text": "query %d %s strictly inside rebuild() answered %r, which is what a "
                                             "partially replayed registry (a prefix of its registrations) answers; before and "
                                             "after rebuild() the answer is %r" % (qi, where, ans, sorted(before, key=repr)[0][qi])})
                        continue
                    if len(failures) < 6:
                        failures.append("query %d %s in the middle of %s() answered %r; before %r, after %r"
                                        % (qi, where, label, ans, sorted({b[qi] for b in before}, key=repr),
                                           sorted({a[qi] for a in after}, key=repr)))

        other = AdapterRegistry()
        mutators = [
            ("register", lambda r: r.register([JJ], PP, "", "d"), True),
            ("unregister", lambda r: r.unregister([JJ], PP, ""), True),
            ("subscribe", lambda r: r.subscribe([JJ], PP, "s3"), True),
            ("unsubscribe", lambda r: r.unsubscribe([JJ], PP, "s3"), True),
            ("rebuild", lambda r: r.rebuild(), True),
            ("set __bases__", lambda r: setattr(r, "__bases__", (other,)), True),
            ("reset __bases__", lambda r: setattr(r, "__bases__", ()), True),
        ]
        # ---- deterministic: re-entrant lookups from the hooks
        t = triple(Reg)
        populate(t[0], base_regs, base_subs)
        for label, mut, single_write in mutators:
            before = all_queries(t)
            partial = partial_answers(t[0]) if label == "rebuild" else None
            during = []
            hook[0] = lambda: (state.__setitem__("n", state["n"] + 1), during.append(all_queries(t)))
            try:
                mut(t[0])
            except Exception as e:   # noqa
                failures.append("%s raised %s: %s" % (label, type(e).__name__, str(e)[:100]))
            hook[0] = None
            after = all_queries(t)
            want = fresh_like(t[0])
            if after != want and len(failures) < 6:
                k = [i for i in range(3) if after[i] != want[i]][0]
                failures.append("after %s() with lookups from its storage hooks: %s answers %r, a fresh registry %r"
                                % (label, ("the registry", "an AdapterRegistry based on it", "a VerifyingAdapterRegistry based on it")[k],
                                   after[k], want[k]))
            judge_midway(label, {x for d in during for x in d}, set(before), set(after), partial, "from a storage hook")
        if not state["n"]:
            failures.append("no lookup ran inside a mutator")
        # ---- a lookup thread against rebuild() and the other mutators
        sys.setswitchinterval(1e-6)
        t = triple(AdapterRegistry)
        populate(t[0], base_regs + [([II], PP, "y%d" % j, "w%d" % j) for j in range(100)], base_subs)
        stop = [False]
        errs = []
        cur = [None]            # id of the mutator call that is running right now
        seen_mid = {}           # call id -> answers seen strictly inside it

        def ys(x):
            return tuple(x.lookup([JJ], PP, "y%d" % j) for j in (3, 50, 99))

        def reader():
            try:
                while not stop[0]:
                    for x in t:
                        c0 = cur[0]
                        a = queries(x) + ys(x)
                        if c0 is not None and cur[0] == c0:
                            seen_mid.setdefault(c0, set()).add(a)
            except Exception as e:   # noqa
                errs.append("%s: %s" % (type(e).__name__, str(e)[:100]))

        th = threading.Thread(target=reader)
        th.start()
        deadline = time.time() + (2.0 if n < 1000 else 20.0)
        rounds = 0
        try:
            while time.time() < deadline and len(failures) < 6:
                rounds += 1
                for label, mut, _sw in mutators:
                    before = {queries(x) + ys(x) for x in t}
                    if label == "rebuild" and "thr" not in state:
                        state["thr"] = partial_answers(t[0], ys)
                    call_id = (rounds, label)
                    cur[0] = call_id
                    try:
                        mut(t[0])
                    finally:
                        cur[0] = None
                    after = {queries(x) + ys(x) for x in t}
                    judge_midway(label, seen_mid.pop(call_id, set()), before, after, state.get("thr"), "from another thread")
                    stop_now = all_queries(t) + tuple(ys(x) for x in t)
                    tf = triple(AdapterRegistry)
                    populate(tf[0], [tuple(a) for a in t[0].allRegistrations()], [tuple(a) for a in t[0].allSubscriptions()])
                    want = all_queries(tf) + tuple(ys(x) for x in tf)
                    if stop_now != want:
                        failures.append("round %d: after %s() racing a lookup thread the registries answer %r, fresh ones %r"
                                        % (rounds, label, stop_now, want))
                        break
        finally:
            stop[0] = True
            th.join()
        if errs:
            failures.append("lookup thread: " + errs[0])
        # ---- FIRST registration / subscription for a WIDE provided interface: the mutator has to extend the
        # extendors of every interface in provided.__iro__ (add_extendor) before it may invalidate; a lookup
        # for a base late in that order that runs in between must not leave its answer behind
        sys.setswitchinterval(0.005)
        wbases = [(Hooked if j == 0 else InterfaceClass)("IBase%d" % j, (Interface,), {"__module__": __name__}) for j in range(60)]
        ILast = wbases[-1]
        IWide = Hooked("IWide", tuple(wbases), {"__module__": __name__})

        def wq(r):
            return (r.lookup([II], ILast, ""), tuple(sorted(r.lookupAll([II], ILast))), tuple(sorted(r.subscriptions([II], ILast))),
                    r.lookup([II], wbases[30], ""))

        wide_mutators = [
            ("register (first for a wide provided)", lambda r: r.register([II], IWide, "", "w")),
            ("unregister (last for a wide provided)", lambda r: r.unregister([II], IWide, "")),
            ("subscribe (first for a wide provided)", lambda r: r.subscribe([II], IWide, "sw")),
            ("unsubscribe (last for a wide provided)", lambda r: r.unsubscribe([II], IWide, "sw")),
        ]

        def wide_fresh(reg):
            tf = triple(AdapterRegistry)
            populate(tf[0], [tuple(a) for a in reg.allRegistrations()], [tuple(a) for a in reg.allSubscriptions()])
            return tuple(wq(x) for x in tf)

        t = triple(AdapterRegistry)
        for label, mut in wide_mutators:            # deterministic: lookups from the __hash__ of IWide / of its first base
            before = {wq(x) for x in t}
            during = set()
            fired0 = state["n"]
            hook[0] = lambda: (state.__setitem__("n", state["n"] + 1), during.update(wq(x) for x in t))
            try:
                mut(t[0])
            except Exception as e:   # noqa
                failures.append("%s raised %s: %s" % (label, type(e).__name__, str(e)[:100]))
            hook[0] = None
            after = tuple(wq(x) for x in t)
            want = wide_fresh(t[0])
            if after != want and len(failures) < 6:
                failures.append("after %s with lookups from a key __hash__ inside it the registries answer %r, fresh ones %r"
                                % (label, after, want))
            judge_midway(label, during, before, set(after), None, "from a key __hash__")
            if state["n"] == fired0:
                failures.append("%s: no lookup ran inside it" % label)
        sys.setswitchinterval(1e-6)
        t = triple(AdapterRegistry)
        stop[0] = False
        del errs[:]

        def wide_reader():
            try:
                while not stop[0]:
                    for x in t:
                        c0 = cur[0]
                        a = wq(x)
                        if c0 is not None and cur[0] == c0:
                            seen_mid.setdefault(c0, set()).add(a)
            except Exception as e:   # noqa
                errs.append("%s: %s" % (type(e).__name__, str(e)[:100]))

        ths = [threading.Thread(target=wide_reader) for _ in range(2)]
        [x.start() for x in ths]
        deadline = time.time() + (3.0 if n < 1000 else 30.0)
        rounds = 0
        try:
            while time.time() < deadline and len(failures) < 6:
                rounds += 1
                for label, mut in wide_mutators:
                    before = {wq(x) for x in t}
                    call_id = ("wide", rounds, label)
                    cur[0] = call_id
                    try:
                        mut(t[0])
                    finally:
                        cur[0] = None
                    after = tuple(wq(x) for x in t)
                    judge_midway(label, seen_mid.pop(call_id, set()), before, set(after), None, "from another thread")
                    want = wide_fresh(t[0])
                    if after != want:
                        failures.append("round %d: after %s racing lookup threads the registries answer %r, fresh ones %r"
                                        % (rounds, label, after, want))
                        break
        finally:
            stop[0] = True
            [x.join() for x in ths]
        if errs:
            failures.append("lookup thread: " + errs[0])
    else:
        failures.append("unknown scenario " + which)
    _boot.write_result({"summary": "survived, %d callbacks fired" % state["n"], "failures": failures, "findings": findings})


main()
