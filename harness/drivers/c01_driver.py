"""C01 driver: replay a history of class/instance creation, declaration calls and drops on the
real library and report, at the steps marked ``q``, what every live instance and every class
answers to the four query forms and to directlyProvidedBy.

case = {"ifaces": [[base ids], ...], "metas": [{"bases": [meta ids], "l": [iface ids], "call": bool}],
        "ops": [{"op": name, ..., "q": bool, "qp": bool}, ...]}   (NewClass: "m" = metaclass id or None)
obs  = {"steps": [{"exc": 0|1|2, "excname": str, "q": None | {"inst": [[o, pb, ipb, dpb]],
                                                        "cls": [[c, ib, iib, cpb, cipb, cdpb]]}}]}
Sets are bit masks over interface numbers (``Interface`` itself is left out), lists are
interface numbers in order."""
import gc

import _boot
from zope.interface import (Interface, alsoProvides, classImplements, classImplementsFirst,
                            classImplementsOnly, directlyProvidedBy, directlyProvides, implementedBy,
                            implementer, implementer_only, noLongerProvides, providedBy, provider)
from zope.interface.interface import InterfaceClass
from zope.interface import declarations as _decl

# built-in (immutable) types used as classes; a case's k-th NewClass with "bi" uses BUILTINS[bi]
BUILTINS = [int, str, float, list, dict, set, bytes, tuple, frozenset, complex, bytearray]
_TABLE0 = set(_decl.BuiltinImplementationSpecifications)
assert not (_TABLE0 & set(BUILTINS)), "a pool type is already declared at import time"


import json as _json

def rooted(case):
    """cases written before ``Interface`` became interface 0 are renumbered (every interface + 1)"""
    if case.get("rooted"):
        return case
    c = _json.loads(_json.dumps(case))
    c["ifaces"] = [[]] + [[b + 1 for b in bs] or [0] for bs in c["ifaces"]]
    for m in c.get("metas", []):
        m["l"] = [i + 1 for i in m["l"]]
    for o in c["ops"]:
        if "l" in o:
            o["l"] = [a + 1 if isinstance(a, int) else a for a in o["l"]]
        if "x" in o:
            o["x"] += 1
        if o.get("old") is not None:
            o["old"] = [i + 1 for i in o["old"]]
        if o.get("md") is not None:
            o["md"] = [i + 1 for i in o["md"]]
    c["rooted"] = True
    return c


def falsy_body(kind):
    """truth value of the objects must not matter: classes (through their metaclass) and instances
    that are falsy by __bool__ or by __len__"""
    if kind == "bool":
        return {"__bool__": lambda self: False}
    if kind == "len":
        return {"__len__": lambda self: 0}
    return {}


class UnexpectedSpecification(Exception):
    pass


class CaseTimeout(Exception):
    pass


def _alarm(signum, frame):
    raise CaseTimeout()


def clean_builtin_table():
    """BuiltinImplementationSpecifications is process-global: forget what the case put there"""
    for k in list(_decl.BuiltinImplementationSpecifications):
        if k not in _TABLE0:
            del _decl.BuiltinImplementationSpecifications[k]


class World:
    def __init__(self, case):
        self.ifaces = []
        for i, bases in enumerate(case["ifaces"]):
            if i == 0:
                self.ifaces.append(Interface)     # interface 0 is zope.interface.Interface itself
                continue
            bs = tuple(self.ifaces[b] for b in bases) or (Interface,)
            self.ifaces.append(InterfaceClass("I%d" % i, bs, {}, __module__="c01case"))
        self.index = {id(x): i for i, x in enumerate(self.ifaces)}
        # metaclasses (fixed during the history): a hierarchy below ``type``, each implementing
        # some interfaces; "call" says whether implementer(...) is applied at all
        self.metas = []
        for k, m in enumerate(case.get("metas", [])):
            M = type("M%d" % k, tuple(self.metas[b] for b in m["bases"]) or (type,),
                     dict({"__module__": "c01case"}, **falsy_body(m.get("falsy"))))
            if m.get("call", True):
                implementer(*[self.ifaces[i] for i in m["l"]])(M)
            self.metas.append(M)
        self.classes = []
        self.objs = {}
        self.nobj = 0

    def num(self, iface):
        return self.index[id(iface)]

    def mask(self, it):
        m = 0
        for i in it:
            m |= 1 << self.num(i)
        return m

    def target(self, t):
        kind, n = t
        return self.objs[n] if kind == "i" else self.classes[n]

    def args(self, op):
        """the arguments of a declaration call: interfaces and declaration objects (evaluated
        now, before the call), nested at random into tuples / lists as op["nest"] says"""
        out = []
        for a in op.get("l", []):
            if isinstance(a, int):
                out.append(self.ifaces[a])
            elif "dpb" in a:
                out.append(directlyProvidedBy(self.target(a["dpb"])))
            else:
                spec = providedBy(self.target(a["prov"]))
                if isinstance(spec, _decl.Implements):
                    # the generator only asks for objects that have their own __provides__; a live
                    # class specification here is outside the model (and can close a cycle)
                    raise UnexpectedSpecification("providedBy returned the class specification")
                out.append(spec)
        nest = op.get("nest")
        if nest:
            grouped, pos = [], 0
            for k, n in enumerate(nest):
                chunk = out[pos:pos + abs(n)]
                pos += abs(n)
                if n < 0:          # leave these flat
                    grouped.extend(chunk)
                else:
                    grouped.append(tuple(chunk) if k % 2 else [tuple(chunk)])
            grouped.extend(out[pos:])
            out = grouped
        return out

    def apply(self, op):
        k = op["op"]
        I = self.ifaces
        if k == "NewClass":
            bases = tuple(self.classes[b] for b in op["bases"]) or (object,)
            name = "C%d" % len(self.classes)
            body = dict({"__module__": "c01case"}, **falsy_body(op.get("ifalsy")))
            if op.get("old") is not None:
                # an old-style declaration in the class body: one interface, a tuple, nested
                items = [I[i] for i in op["old"]]
                shape = op.get("oldshape", "tuple")
                if shape == "single" and len(items) == 1:
                    body["__implemented__"] = items[0]
                elif shape == "nested":
                    body["__implemented__"] = (tuple(items[:1]), [tuple(items[1:])])
                else:
                    body["__implemented__"] = tuple(items)
            if op.get("bi") is not None:
                self.classes.append(BUILTINS[op["bi"]])
            elif op.get("m") is None:
                self.classes.append(type(name, bases, body))
            else:
                self.classes.append(self.metas[op["m"]](name, bases, body))
        elif k == "NewInstance":
            self.objs[self.nobj] = self.classes[op["c"]]()   # built-in types: int() etc.
            self.nobj += 1
        elif k == "DropInstance":
            del self.objs[op["o"]]
            gc.collect()
        elif k == "Implementer":
            implementer(*self.args(op))(self.classes[op["c"]])
        elif k == "ImplementerOnly":
            implementer_only(*self.args(op))(self.classes[op["c"]])
        elif k == "ClassImplements":
            classImplements(self.classes[op["c"]], *self.args(op))
        elif k == "ClassImplementsOnly":
            classImplementsOnly(self.classes[op["c"]], *self.args(op))
        elif k == "ClassImplementsFirst":
            classImplementsFirst(self.classes[op["c"]], I[op["x"]])
        elif k == "DirectlyProvides":
            directlyProvides(self.target(op["t"]), *self.args(op))
        elif k == "AlsoProvides":
            alsoProvides(self.target(op["t"]), *self.args(op))
        elif k == "NoLongerProvides":
            noLongerProvides(self.target(op["t"]), I[op["x"]])
        elif k == "Provider":
            provider(*self.args(op))(self.target(op["t"]))
        else:
            raise KeyError(k)

    def query_class_objects(self, ids):
        """the class objects alone; nothing here computes implementedBy(C)"""
        I = self.ifaces
        out = []
        for c in ids:
            C = self.classes[c]
            out.append([c, self.mask(providedBy(C).flattened()), self.mask(i for i in I if i.providedBy(C)),
                        [self.num(i) for i in directlyProvidedBy(C)]])
        return out

    def query(self, inst_ids, cls_ids):
        I = self.ifaces
        inst = []
        for o in inst_ids:
            ob = self.objs[o]
            inst.append([o, self.mask(providedBy(ob).flattened()),
                         self.mask(i for i in I if i.providedBy(ob)),
                         [self.num(i) for i in directlyProvidedBy(ob)]])
        cls = []
        for c in cls_ids:
            C = self.classes[c]
            cls.append([c, self.mask(implementedBy(C).flattened()),
                        self.mask(i for i in I if i.implementedBy(C)),
                        self.mask(providedBy(C).flattened()),
                        self.mask(i for i in I if i.providedBy(C)),
                        [self.num(i) for i in directlyProvidedBy(C)]])
        return {"inst": inst, "cls": cls}


def query_super(w, sel):
    """super(B, x) for x an instance or a class: implementedBy / providedBy / I.providedBy of the proxy"""
    out = []
    I = w.ifaces
    for b, t, rest in sel:
        x = w.target(t)
        B = w.classes[b]
        out.append([rest, w.mask(implementedBy(super(B, x)).flattened()),
                    w.mask(providedBy(super(B, x)).flattened()),
                    w.mask(i for i in I if i.providedBy(super(B, x)))])
    return out


def _ids(sel, everything):
    """True = all; a list = those (that still exist)"""
    if sel is True:
        return list(everything)
    return [x for x in sel if x in everything]


def run_case(case):
    case = rooted(case)
    w = World(case)
    steps = []
    for op in case["ops"]:
        exc, name = 0, ""
        try:
            w.apply(op)
        except ValueError as e:
            exc, name = 1, "ValueError"
        except TypeError as e:
            exc, name = 2, "TypeError"
        except AttributeError as e:
            exc, name = 3, "AttributeError"
        except Exception as e:  # reported as data
            exc, name = 9, type(e).__name__
        cp = None
        if op.get("qp") and exc != 9:
            try:
                cp = w.query_class_objects(_ids(op["qp"], range(len(w.classes))))
            except Exception as e:
                exc, name = 9, "query:" + type(e).__name__
        q = None
        if op.get("q"):
            try:
                sel = op["q"]
                if sel is True:
                    sel = {"i": True, "c": True}
                q = w.query(_ids(sel.get("i", []), sorted(w.objs)), _ids(sel.get("c", []), range(len(w.classes))))
            except Exception as e:
                exc, name = 9, "query:" + type(e).__name__
                q = {"inst": [], "cls": []}
        sp = []
        if op.get("qs") and exc != 9:
            try:
                sp = query_super(w, [x for x in op["qs"] if x[1][0] == "c" or x[1][1] in w.objs])
            except Exception as e:
                exc, name = 9, "query-super:" + type(e).__name__
        steps.append({"exc": exc, "excname": name, "q": q, "cp": cp, "sp": sp})
    return {"steps": steps}


def main():
    import json
    import sys
    payload = _boot.read_payload()
    cases = payload["cases"]
    # keep the input out of the collector's way and the output as strings: every dropped
    # instance runs a full collection, which must not grow with the number of cases
    gc.collect()
    gc.freeze()
    out = []
    import signal
    signal.signal(signal.SIGALRM, _alarm)
    for case in cases:
        try:
            signal.alarm(20)      # a specification graph with a cycle makes the library loop
            res = run_case(case)
        except BaseException as e:
            res = {"steps": [], "crash": type(e).__name__ + ": " + str(e)[:200]}
        finally:
            signal.alarm(0)
        out.append(json.dumps(res))
        del res
        clean_builtin_table()
        gc.collect()
    sys.stdout.write('{"obs": [' + ", ".join(out) + ']}')
    sys.stdout.flush()


main()
