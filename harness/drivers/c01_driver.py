"""C01 driver: replay a history of class/instance creation, declaration calls and drops on the
real library and report, at the steps marked ``q``, what every live instance and every class
answers to the four query forms and to directlyProvidedBy.

case = {"ifaces": [[base ids], ...], "metas": [{"bases": [meta ids], "l": [iface ids], "call": bool}],
        "ops": [{"op": name, ..., "q": bool, "qp": bool}, ...]}   (NewClass: "m" = metaclass id or None)
obs  = {"steps": [{"exc": 0|1|2, "excname": str, "q": None | {"inst": [[o, pb, ipb, dpb]],
                                                        "cls": [[c, ib, iib, cpb, cipb, cdpb]]}}]}
Sets are bit masks over interface numbers (``Interface`` itself is left out), lists are
interface numbers in order."""
import gc

import _boot
from zope.interface import (Interface, alsoProvides, classImplements, classImplementsFirst,
                            classImplementsOnly, directlyProvidedBy, directlyProvides, implementedBy,
                            implementer, implementer_only, noLongerProvides, providedBy, provider)
from zope.interface.interface import InterfaceClass


class World:
    def __init__(self, case):
        self.ifaces = []
        for i, bases in enumerate(case["ifaces"]):
            bs = tuple(self.ifaces[b] for b in bases) or (Interface,)
            self.ifaces.append(InterfaceClass("I%d" % i, bs, {}, __module__="c01case"))
        self.index = {id(x): i for i, x in enumerate(self.ifaces)}
        # metaclasses (fixed during the history): a hierarchy below ``type``, each implementing
        # some interfaces; "call" says whether implementer(...) is applied at all
        self.metas = []
        for k, m in enumerate(case.get("metas", [])):
            M = type("M%d" % k, tuple(self.metas[b] for b in m["bases"]) or (type,), {"__module__": "c01case"})
            if m.get("call", True):
                implementer(*[self.ifaces[i] for i in m["l"]])(M)
            self.metas.append(M)
        self.classes = []
        self.objs = {}
        self.nobj = 0

    def num(self, iface):
        return self.index[id(iface)]

    def mask(self, it):
        m = 0
        for i in it:
            if i is Interface:
                continue
            m |= 1 << self.num(i)
        return m

    def target(self, t):
        kind, n = t
        return self.objs[n] if kind == "i" else self.classes[n]

    def apply(self, op):
        k = op["op"]
        I = self.ifaces
        if k == "NewClass":
            bases = tuple(self.classes[b] for b in op["bases"]) or (object,)
            name = "C%d" % len(self.classes)
            if op.get("m") is None:
                self.classes.append(type(name, bases, {"__module__": "c01case"}))
            else:
                self.classes.append(self.metas[op["m"]](name, bases, {"__module__": "c01case"}))
        elif k == "NewInstance":
            self.objs[self.nobj] = self.classes[op["c"]]()
            self.nobj += 1
        elif k == "DropInstance":
            del self.objs[op["o"]]
            gc.collect()
        elif k == "Implementer":
            implementer(*[I[i] for i in op["l"]])(self.classes[op["c"]])
        elif k == "ImplementerOnly":
            implementer_only(*[I[i] for i in op["l"]])(self.classes[op["c"]])
        elif k == "ClassImplements":
            classImplements(self.classes[op["c"]], *[I[i] for i in op["l"]])
        elif k == "ClassImplementsOnly":
            classImplementsOnly(self.classes[op["c"]], *[I[i] for i in op["l"]])
        elif k == "ClassImplementsFirst":
            classImplementsFirst(self.classes[op["c"]], I[op["x"]])
        elif k == "DirectlyProvides":
            directlyProvides(self.target(op["t"]), *[I[i] for i in op["l"]])
        elif k == "AlsoProvides":
            alsoProvides(self.target(op["t"]), *[I[i] for i in op["l"]])
        elif k == "NoLongerProvides":
            noLongerProvides(self.target(op["t"]), I[op["x"]])
        elif k == "Provider":
            provider(*[I[i] for i in op["l"]])(self.target(op["t"]))
        else:
            raise KeyError(k)

    def query_class_objects(self):
        """the class objects alone; nothing here computes implementedBy(C)"""
        I = self.ifaces
        return [[c, self.mask(providedBy(C).flattened()), self.mask(i for i in I if i.providedBy(C)),
                 [self.num(i) for i in directlyProvidedBy(C)]] for c, C in enumerate(self.classes)]

    def query(self):
        I = self.ifaces
        inst = []
        for o in sorted(self.objs):
            ob = self.objs[o]
            inst.append([o, self.mask(providedBy(ob).flattened()),
                         self.mask(i for i in I if i.providedBy(ob)),
                         [self.num(i) for i in directlyProvidedBy(ob)]])
        cls = []
        for c, C in enumerate(self.classes):
            cls.append([c, self.mask(implementedBy(C).flattened()),
                        self.mask(i for i in I if i.implementedBy(C)),
                        self.mask(providedBy(C).flattened()),
                        self.mask(i for i in I if i.providedBy(C)),
                        [self.num(i) for i in directlyProvidedBy(C)]])
        return {"inst": inst, "cls": cls}


def run_case(case):
    w = World(case)
    steps = []
    for op in case["ops"]:
        exc, name = 0, ""
        try:
            w.apply(op)
        except ValueError as e:
            exc, name = 1, "ValueError"
        except Exception as e:  # reported as data
            exc, name = 2, type(e).__name__
        cp = None
        if op.get("qp") and exc != 2:
            try:
                cp = w.query_class_objects()
            except Exception as e:
                exc, name = 2, "query:" + type(e).__name__
        q = None
        if op.get("q"):
            try:
                q = w.query()
            except Exception as e:
                exc, name = 2, "query:" + type(e).__name__
                q = {"inst": [], "cls": []}
        steps.append({"exc": exc, "excname": name, "q": q, "cp": cp})
    return {"steps": steps}


def main():
    import json
    import sys
    payload = _boot.read_payload()
    cases = payload["cases"]
    # keep the input out of the collector's way and the output as strings: every dropped
    # instance runs a full collection, which must not grow with the number of cases
    gc.collect()
    gc.freeze()
    out = []
    for case in cases:
        try:
            res = run_case(case)
        except Exception as e:
            res = {"steps": [], "crash": type(e).__name__ + ": " + str(e)[:200]}
        out.append(json.dumps(res))
        del res
        gc.collect()
    sys.stdout.write('{"obs": [' + ", ".join(out) + ']}')
    sys.stdout.flush()


main()
