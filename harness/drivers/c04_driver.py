"""C04 driver: registry histories (registrations, then many lookups) on the real library.
Reuses the shared interpreter harness/drivers/reg_common.py (same op language as Model/RegSys.v)."""
import _boot
import reg_common as R

payload = _boot.read_payload()
out = []
for case in payload["cases"]:
    try:
        w = R.World(case)
        answers = R.run_ops(w, case["ops"])
        out.append({"specs": w.observed_specs(),
                    "obj_provides": [w.spec_id(R.providedBy(o)) for o in w.objects],
                    "answers": answers})
    except Exception as e:  # noqa
        out.append({"error": "%s: %s" % (type(e).__name__, e)})
_boot.write_result({"obs": out})
