"""C04 driver: registry histories (registrations, re-basing, in-place changes of class declarations, many
lookups) on the real library.  Reuses the shared interpreter harness/drivers/reg_common.py (same op
language as Model/RegSys.v).  World steps ["classImplements"|"classImplementsFirst"|"classImplementsOnly",
class spec id, interface id] split the history into phases; the world is observed once per phase."""
import _boot
import reg_common as R

WORLD_STEPS = ("classImplements", "classImplementsFirst", "classImplementsOnly")


def world_step(w, op):
    from zope.interface import classImplements, classImplementsFirst, classImplementsOnly
    fn = {"classImplements": classImplements, "classImplementsFirst": classImplementsFirst,
          "classImplementsOnly": classImplementsOnly}[op[0]]
    fn(w.classes[op[1]], w.specs[op[2]])


def snapshot(w, changed):
    return {"specs": w.observed_specs(), "changed": changed,
            "obj_provides": [w.spec_id(R.providedBy(o)) for o in w.objects]}


def run_case(case):
    w = R.World(case)
    phases, answers = [], []
    changed = []
    for op in case["ops"]:
        if op[0] in WORLD_STEPS:
            phases.append(snapshot(w, changed))
            world_step(w, op)
            changed = [op[1]]
            continue
        answers.append(R.run_ops(w, [op])[0])
    phases.append(snapshot(w, changed))
    return {"phases": phases, "answers": answers, "specs": phases[-1]["specs"],
            "obj_provides": phases[-1]["obj_provides"]}


payload = _boot.read_payload()
out = []
for case in payload["cases"]:
    try:
        out.append(run_case(case))
    except Exception as e:  # noqa
        out.append({"error": "%s: %s" % (type(e).__name__, e)})
_boot.write_result({"obs": out})
