"""C05 driver: registry histories with specification re-basing and declaration changes, run
(a) in full and (b) once per probed lookup on a fresh world with every earlier query erased.

Extends the op language of reg_common.run_op with
  ["setspecbases", x, [bases]]                 specs[x].__bases__ = (...)
  ["classimplements", c, [ifaces], how]        how in "add" | "only" | "first"
  ["directlyprovides", j, [ifaces]]            objects[j]
  ["alsoprovides", j, [ifaces]]
  ["nolongerprovides", j, iface]

Per case the output is
  specs     final spec table: kind, FIRST known bases of every node (at world creation or at
            discovery), numbered in creation / discovery order
  answers   one answer per op (full run)
  assigns   per op: the list of [node, bases] ``__bases__`` assignments it performed
            (in execution order; empty for registry ops)
  provides  per op: spec ids provided by the objects named in the op at the time of the op
  erased    [[i, answer]]: the answer of op i (a lookup-family op) on a fresh world that ran only
            the mutations among ops[:i]
  trouble   unexpected things (a spec op raised, some other node's bases moved): fail closed
"""
import _boot
import reg_common as R
from zope.interface.declarations import _empty
from zope.interface import (alsoProvides, classImplements, classImplementsFirst, classImplementsOnly,
                            directlyProvides, noLongerProvides, providedBy)

SPEC_OPS = ("setspecbases", "classimplements", "directlyprovides", "alsoprovides", "nolongerprovides")
MUTATIONS = ("newreg", "setregbases", "register", "unregister", "subscribe", "unsubscribe", "rebuild") + SPEC_OPS
LOOKUPS = ("lookup", "lookup1", "lookupAll", "names", "subscriptions", "queryAdapter", "adapter_hook",
           "queryMultiAdapter", "subscribers")
OBJ_OPS = {"queryAdapter": lambda op: [op[2]], "adapter_hook": lambda op: [op[2]],
           "queryMultiAdapter": lambda op: list(op[2]), "subscribers": lambda op: list(op[2])}


def bases_ids(w, x):
    return [w.spec_id(b) for b in w.specs[x].__bases__]


def snapshot(w):
    return [tuple(id(b) for b in sp.__bases__) for sp in w.specs]


def spec_op(w, op, trouble):
    """Execute a specification op; return the list of [node, bases] assignments it made."""
    k = op[0]
    before = snapshot(w)
    assigns = []
    target = None
    if k == "setspecbases":
        target = op[1]
        w.specs[op[1]].__bases__ = tuple(w.specs[b] for b in op[2])
        assigns.append([op[1], bases_ids(w, op[1])])
    elif k == "classimplements":
        target = op[1]
        cls = w.classes[op[1]]
        ifs = [w.specs[b] for b in op[2]]
        if op[3] == "only":
            classImplementsOnly(cls, *ifs)          # spec.__bases__ = () ; then the ordered bases
            assigns.append([op[1], []])
        elif op[3] == "first":
            for i in ifs:
                classImplementsFirst(cls, i)
                assigns.append([op[1], bases_ids(w, op[1])])
        else:
            classImplements(cls, *ifs)
        if op[3] != "first":
            assigns.append([op[1], bases_ids(w, op[1])])
    else:
        ob = w.objects[op[1]]
        if k == "directlyprovides":
            directlyProvides(ob, *[w.specs[b] for b in op[2]])
        elif k == "alsoprovides":
            alsoProvides(ob, *[w.specs[b] for b in op[2]])
        else:
            noLongerProvides(ob, w.specs[op[2]])
        w.spec_id(providedBy(ob))      # number the (possibly new) declaration now, not at query time
    after = snapshot(w)
    for i, (a, b) in enumerate(zip(before, after)):
        if a != b and i != target:
            trouble.append("op %r moved the bases of node %d" % (op, i))
    return assigns


def run(w, ops):
    answers, assigns, provides, trouble = [], [], [], []
    for op in ops:
        k = op[0]
        pv = None
        if k in OBJ_OPS:
            pv = [w.spec_id(providedBy(w.objects[j])) for j in OBJ_OPS[k](op)]
        if k in SPEC_OPS:
            try:
                a = spec_op(w, op, trouble)
                answers.append([])
                assigns.append(a)
            except Exception as e:  # noqa
                trouble.append("spec op %r raised %s: %s" % (op, type(e).__name__, e))
                answers.append([3])
                assigns.append([])
        else:
            answers.extend(R.run_ops(w, [op]))
            assigns.append([])
        provides.append(pv)
    return answers, assigns, provides, trouble


def first_bases(w, first):
    """remember the bases every node had when it was first seen"""
    i = len(first)
    while i < len(w.specs):
        first.append(bases_ids(w, i))
        i = len(first)


def probes(ops, limit):
    idx = [i for i, op in enumerate(ops) if op[0] in LOOKUPS]
    if len(idx) <= limit:
        return idx
    step = len(idx) / float(limit)
    pick = sorted({idx[min(len(idx) - 1, int(j * step))] for j in range(limit)} | {idx[-1]})
    return pick


# Worlds of different cases (and the replay worlds of one case) reuse interface / class names, so
# their specifications compare equal by (name, module) and share one entry in the weak
# ``dependents`` dictionaries of the two process-wide specifications (Interface,
# implementedBy(object)).  If an earlier world were garbage collected that shared entry would
# vanish and a later ``__bases__`` assignment would fail to unsubscribe (KeyError).  This is an
# artefact of running many worlds in one process (cf. finding F10), not of the property: keep
# every world alive until the process ends.
KEEP = []


def new_world(case):
    """A fresh world; the empty declaration ``_empty`` (what an object that provides nothing
    provides) is numbered right after the specs of the world, objects flagged "empty" provide it."""
    w = R.World(case)
    KEEP.append(w)
    w.empty_id = w.spec_id(_empty)
    for ob, o in zip(w.objects, case.get("objects", [])):
        if o.get("empty"):
            ob.__provides__ = _empty
    return w


def concrete(w, x):
    """ops name the empty declaration "E": replace it by its number in this world"""
    if x == "E":
        return w.empty_id
    if isinstance(x, list):
        return [concrete(w, y) for y in x]
    return x


def one_case(case, limit):
    # The replays run FIRST: a defect that damages process-wide state during the full run (the
    # _empty singleton) must not reach the worlds the full run is compared with.
    erased = []
    for i in probes(case["ops"], limit):
        w2 = new_world(case)
        pre = [concrete(w2, op) for op in case["ops"][:i] if op[0] in MUTATIONS]
        run(w2, pre)
        a, _s, _p, _t = run(w2, [concrete(w2, case["ops"][i])])
        erased.append([i, a[0]])
    w = new_world(case)
    first = []
    first_bases(w, first)
    answers, assigns, provides, trouble = [], [], [], []
    for op in case["ops"]:
        a, s, p, t = run(w, [concrete(w, op)])
        answers += a
        assigns += s
        provides += p
        trouble += t
        first_bases(w, first)
    kinds = list(w.kinds)
    return {"empty_id": w.empty_id, "specs": [{"kind": kinds[i], "bases": first[i]} for i in range(len(first))],
            "answers": answers, "assigns": assigns, "provides": provides, "erased": erased,
            "trouble": trouble}


payload = _boot.read_payload()
limit = int(payload.get("probe_limit", 12))
out = []
for case in payload["cases"]:
    try:
        out.append(one_case(case, limit))
    except Exception as e:  # noqa
        import traceback
        out.append({"error": "%s: %s\n%s" % (type(e).__name__, e, traceback.format_exc()[-1500:])})
_boot.write_result({"obs": out})
