"""Bootstrap for implementation drivers.

Forces ``zope.interface`` to be imported from the scratch copy built from /repo's
current working tree (ZI_SCRATCH), never from the editable install or a stale in-tree
``.so``.  The editable install pre-populates ``sys.modules['zope']`` from a ``.pth``
file, so PYTHONPATH alone is not enough.

ZI_MODE = "c"  : PURE_PYTHON=0 (C optimizations required, ImportError otherwise)
ZI_MODE = "py" : PURE_PYTHON=1
"""
import os
import sys

scratch = os.environ["ZI_SCRATCH"]
mode = os.environ.get("ZI_MODE", "c")
os.environ["PURE_PYTHON"] = "1" if mode == "py" else "0"
# the hooks guard (no hook is currently needed; reserved)
os.environ.setdefault("ZOPE_INTERFACE_VERIF", "1")

assert not any(m.startswith("zope.interface") for m in sys.modules), "zope.interface imported too early"
import zope  # noqa: E402

zope.__path__ = [os.path.join(scratch, "zope")]
sys.path.insert(0, scratch)

import zope.interface  # noqa: E402

assert zope.interface.__file__.startswith(scratch), zope.interface.__file__
from zope.interface import _compat  # noqa: E402

if mode == "c":
    from zope.interface import _zope_interface_coptimizations as _c  # noqa: E402,F401

    assert _c.__file__.startswith(scratch), _c.__file__
    from zope.interface.interface import InterfaceBase  # noqa: E402

    assert InterfaceBase.__module__ == "_zope_interface_coptimizations" or "coptimizations" in repr(InterfaceBase), InterfaceBase
else:
    from zope.interface.interface import InterfaceBase  # noqa: E402

    assert "coptimizations" not in repr(InterfaceBase), InterfaceBase


def read_payload():
    import json

    return json.load(sys.stdin)


def write_result(obj):
    import json

    sys.stdout.write(json.dumps(obj))
    sys.stdout.flush()
