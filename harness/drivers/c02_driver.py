"""C02 driver: run histories of specification creations / __bases__ reassignments / deaths on
real objects and report, after every operation, what every live specification answers.

Case: {"ops": [...]}; an op that creates a specification gets the next *handle* (0, 1, ...);
handle -1 is ``Interface``, handle -2 is ``implementedBy(object)``.
  {"op": "iface",   "bases": [h..]}                 InterfaceClass(name, bases); a unique name, unless the
                                                    case carries "twins": true and the op a "name"
                                                    (finding F10: equal (name, module) twins)
  {"op": "decl",    "bases": [h..]}                 Declaration(*bases)
  {"op": "cls",     "ifaces": [h..], "bases": [h..]}  @implementer(*ifaces) class C(*classes of bases)
                                                      -> implementedBy(C)
  {"op": "obj",     "cls": h, "ifaces": [h..]}      ob = C(); directlyProvides(ob, *ifaces) -> providedBy(ob)
  {"op": "clsprov", "cls": h, "ifaces": [h..]}      directlyProvides(C, *ifaces) -> providedBy(C)
  {"op": "super",   "cls": h, "this": h, "via": ..} implementedBy(super(T, C)) / providedBy(super(T, C())),
                                                    kept by the driver like any other specification
  {"op": "classimpl", "cls": h, "ifaces": [h..]}    classImplements(C, *ifaces)  (no new handle)
  {"op": "setbases", "node": h, "bases": [h..]}     X.__bases__ = (...)          (no new handle); with
       "reactor": {"on": h, "node": h, "bases": [h..]}  a dependent subscribed to `on` through the public
                                                    subscribe() whose changed() assigns node.__bases__ once,
                                                    from inside the propagation of the outer assignment
  {"op": "drop", "node": h}                         forget every reference, gc   (no new handle)

Output per case: {"steps": [step..]} or {"exc": "...", "steps": [...so far]}; a step is
  {"node": id of the op's specification, "ops": [["new", id, kind, [base ids]] |
   ["set", id, [base ids]] | ["drop", id]], "rows": [[id, [bases], [sro], [iro], [isOrExtends],
   [extends], [extends non strict], [providedBy] or null] ...], "gone": [ids], "incons": bool}
where every live specification is queried after every operation but only the rows that differ
from the previous step are transmitted.
Specifications are numbered in discovery (= creation) order, sets are ascending id lists."""
import gc
import weakref

import _boot
from zope.interface import Interface, implementedBy, providedBy, directlyProvides, classImplements
from zope.interface import implementer
from zope.interface.declarations import Declaration
from zope.interface.interface import InterfaceClass
import zope.interface.declarations as D
from zope.interface import ro as RO

COUNTER = [0]


class Reactor:
    def __init__(self, world, target, bases):
        self.world, self.target, self.bases, self.armed = world, target, bases, True

    def changed(self, originally_changed):
        if not self.armed:
            return
        self.armed = False
        self.target.__bases__ = self.bases
        w = self.world
        w.pending.append(["set", w.ids[id(self.target)], [w.ids[id(b)] for b in self.target.__bases__]])


class World:
    def __init__(self, tag, twins=False):
        self.tag = tag
        self.twins = twins   # the F10 stream: explicit (possibly repeated) interface names allowed
        self.nodes = {}      # id -> spec (strong)
        self.ids = {}        # id(spec) -> id
        self.kinds = {}
        self.next = 0
        self.handles = []    # handle -> id
        self.classes = {}    # handle -> class
        self.objs = {}       # handle -> object whose providedBy is the node
        self.pending = []    # ops of the current step
        self.prev = {}       # id -> row reported last
        self.prime = {}      # id S -> id T: the last isOrExtends question S was asked (answer: yes)
        self.stepno = 0
        self.ensure(Interface)
        self.ensure(implementedBy(object))

    def kind(self, spec):
        if isinstance(spec, InterfaceClass):
            return "iface"
        if isinstance(spec, D.Implements):
            return "impl"
        if isinstance(spec, D.ProvidesClass):
            return "prov"
        if isinstance(spec, D.ClassProvides):
            return "clsprov"
        return "decl"

    def ensure(self, spec):
        i = self.ids.get(id(spec))
        if i is not None and self.nodes.get(i) is spec:
            return i
        bases = [self.ensure(b) for b in spec.__bases__]
        i = self.next
        self.next += 1
        self.nodes[i] = spec
        self.ids[id(spec)] = i
        self.kinds[i] = self.kind(spec)
        self.pending.append(["new", i, self.kinds[i], bases])
        return i

    def h(self, handle):
        if handle == -1:
            return self.nodes[0]
        if handle == -2:
            return self.nodes[1]
        return self.nodes[self.handles[handle]]

    def sweep(self):
        for i in sorted(self.nodes):
            s = self.nodes[i]
            for b in s.__bases__:
                self.ensure(b)
            for a in s.__sro__:
                self.ensure(a)

    def snap(self):
        ids = sorted(self.nodes)
        prov_ob = {}
        for hd, ob in self.objs.items():
            i = self.handles[hd]
            if i in self.nodes:
                prov_ob[i] = ob
        out = []
        for i in ids:
            s = self.nodes[i]

            def truth(v):
                if v is True:
                    return True
                if v is False:
                    return False
                raise ValueError("non-bool answer")
            # Repeat first the very question S answered "yes" to last (before the operation), then
            # ask the others; the FIRST answer to each question is the one reported.  A stale memo of
            # the last hit (or any cache keyed on the previous question) shows up as a wrong row.
            first = {}
            t0 = self.prime.get(i)
            if t0 in self.nodes:
                first[t0] = truth(s.isOrExtends(self.nodes[t0]))
            for j in ids:
                if j not in first:
                    first[j] = truth(s.isOrExtends(self.nodes[j]))
            row = [i,
                   [self.ids[id(b)] for b in s.__bases__],
                   [self.ids[id(a)] for a in s.__sro__],
                   [self.ids[id(a)] for a in s.__iro__],
                   [j for j in ids if first[j]],
                   [j for j in ids if truth(s.extends(self.nodes[j]))],
                   [j for j in ids if truth(s.extends(self.nodes[j], strict=False))],
                   None]
            if i in prov_ob:
                ob = prov_ob[i]
                if providedBy(ob) is s:
                    row[7] = [j for j in ids if truth(self.nodes[j].providedBy(ob))]
            out.append(row)
        # leave every specification with a successful question as its last one, a different one
        # from step to step (providedBy above also asks isOrExtends questions)
        self.stepno += 1
        self.prime = {}
        for row in out:
            yes = row[4]
            if yes:
                t = yes[(self.stepno + row[0]) % len(yes)]
                if self.nodes[row[0]].isOrExtends(self.nodes[t]) is True:
                    self.prime[row[0]] = t
        return out

    def prime_for_rebase(self, x, new_bases):
        """just before X.__bases__ = new_bases: make the last question of X and of each of its
        descendants one whose answer is about to turn from yes to no (if there is one)"""
        g = {i: list(r[1]) for i, r in self.prev.items()}
        if x not in g:
            return
        g2 = dict(g)
        g2[x] = list(new_bases)

        def reach(gr, s0):
            seen, todo = set(), list(gr.get(s0, []))
            while todo:
                y = todo.pop()
                if y not in seen:
                    seen.add(y)
                    todo.extend(gr.get(y, []))
            return seen
        for s0 in sorted(g):
            if s0 != x and x not in reach(g, s0):
                continue
            after = reach(g2, s0) | {s0, 0}
            lost = [t for t in self.prev[s0][4] if t not in after and t in self.nodes]
            if lost and s0 in self.nodes:
                t = lost[(self.stepno + s0) % len(lost)]
                if self.nodes[s0].isOrExtends(self.nodes[t]) is True:
                    self.prime[s0] = t

    def name(self, prefix):
        COUNTER[0] += 1
        return "%s%d_%d" % (prefix, self.tag, COUNTER[0])

    def do(self, op):
        self.pending = []
        kind = op["op"]
        node = None
        if kind == "iface":
            if "name" in op and not self.twins:
                raise ValueError("explicit interface names are reserved for the twins stream")
            nm = op["name"] if "name" in op else self.name("I")
            spec = InterfaceClass(nm, tuple(self.h(b) for b in op["bases"]), {}, __module__="c02gen")
            node = self.ensure(spec)
            self.handles.append(node)
        elif kind == "decl":
            spec = Declaration(*[self.h(b) for b in op["bases"]])
            node = self.ensure(spec)
            self.handles.append(node)
        elif kind == "cls":
            pybases = tuple(self.classes[b] for b in op["bases"]) or (object,)
            cls = type(self.name("C"), pybases, {"__module__": "c02gen"})
            cls = implementer(*[self.h(b) for b in op["ifaces"]])(cls)
            node = self.ensure(implementedBy(cls))
            self.classes[len(self.handles)] = cls
            self.handles.append(node)
        elif kind == "obj":
            ob = self.classes[op["cls"]]()
            directlyProvides(ob, *[self.h(b) for b in op["ifaces"]])
            node = self.ensure(providedBy(ob))
            self.objs[len(self.handles)] = ob
            self.handles.append(node)
        elif kind == "clsprov":
            cls = self.classes[op["cls"]]
            directlyProvides(cls, *[self.h(b) for b in op["ifaces"]])
            node = self.ensure(providedBy(cls))
            self.objs[len(self.handles)] = cls
            self.handles.append(node)
        elif kind == "super":
            # a specification for a super object, HELD by the caller across later steps (the class
            # specification only caches it until its next change)
            cls, this = self.classes[op["cls"]], self.classes[op["this"]]
            if op.get("via") == "providedBy":
                spec = providedBy(super(this, cls()))
            else:
                spec = implementedBy(super(this, cls))
            node = self.ensure(spec)
            self.handles.append(node)
        elif kind == "classimpl":
            cls = self.classes[op["cls"]]
            classImplements(cls, *[self.h(b) for b in op["ifaces"]])
            spec = implementedBy(cls)
            node = self.ensure(spec)
            self.pending.append(["set", node, [self.ensure(b) for b in spec.__bases__]])
        elif kind == "setbases":
            spec = self.h(op["node"])
            node = self.ids[id(spec)]
            self.prime_for_rebase(node, [self.ids[id(self.h(b))] for b in op["bases"]])
            at = len(self.pending)
            self.pending.append(None)
            reactor = None
            if "reactor" in op:
                # a dependent registered through the public subscribe() hook that, the first time it
                # hears of a change, assigns the __bases__ of another specification (a nested
                # propagation inside the running one)
                r = op["reactor"]
                reactor = Reactor(self, self.h(r["node"]), tuple(self.h(b) for b in r["bases"]))
                on = self.h(r["on"])
                on.subscribe(reactor)
            spec.__bases__ = tuple(self.h(b) for b in op["bases"])
            self.pending[at] = ["set", node, [self.ensure(b) for b in spec.__bases__]]
            if reactor is not None:
                on.unsubscribe(reactor)
                reactor.armed = False
        elif kind == "drop":
            hd = op["node"]
            node = self.handles[hd]
            spec = self.nodes.pop(node)
            del self.ids[id(spec)]
            ref = weakref.ref(spec)
            cls = self.classes.pop(hd, None)
            ob = self.objs.pop(hd, None)
            del spec, cls, ob
            gc.collect()
            alive = ref()
            if alive is not None:
                # something else still holds it: it stays part of the world
                self.nodes[node] = alive
                self.ids[id(alive)] = node
            else:
                self.pending.append(["drop", node])
        else:
            raise ValueError("unknown op " + kind)
        self.sweep()
        # coverage information only: is the C3 order of the touched specification inconsistent
        # (so that the legacy fallback was used)?
        incons = False
        if node in self.nodes:
            try:
                RO.ro(self.nodes[node], strict=True)
            except RO.InconsistentResolutionOrderError:
                incons = True
        return self.report(node, incons)

    def report(self, node, incons):
        """only the rows that changed since the previous step are sent (the harness rebuilds the
        full snapshots); "gone" lists the ids that disappeared"""
        rows = self.snap()
        cur = {r[0]: r for r in rows}
        out = {"node": node, "ops": self.pending, "incons": incons,
               "rows": [r for r in rows if self.prev.get(r[0]) != r],
               "gone": [i for i in self.prev if i not in cur]}
        self.prev = cur
        if self.twins:
            out["keys"] = {str(i): ([sp.__name__, sp.__module__] if isinstance(sp, InterfaceClass) else [str(i), ""])
                           for i, sp in self.nodes.items()}
            out["fresh"] = self.fresh()
        return out

    def fresh(self):
        """twins stream only: build a fresh graph of the same shape (unique names) and report the
        __sro__ every specification gets there; None when the shape cannot be rebuilt that way"""
        clone, inv = {}, {}
        todo = sorted(self.nodes)
        for _ in range(len(todo) + 1):
            for i in list(todo):
                sp = self.nodes[i]
                bs = [self.ids[id(b)] for b in sp.__bases__]
                if any(b not in clone for b in bs):
                    continue
                if sp is Interface or not sp.__bases__ and not isinstance(sp, InterfaceClass):
                    c = sp
                elif isinstance(sp, InterfaceClass) and all(isinstance(clone[b], InterfaceClass) for b in bs):
                    c = InterfaceClass(self.name("F"), tuple(clone[b] for b in bs), {}, __module__="c02gen")
                else:
                    return None
                clone[i] = c
                inv[id(c)] = i
                todo.remove(i)
        if todo:
            return None
        return {str(i): [inv[id(a)] for a in c.__sro__] for i, c in clone.items()}


def run_case(k, case):
    steps = []
    w = None
    try:
        w = World(k, twins=bool(case.get("twins")))
        steps.append(w.report(None, False))
        for op in case["ops"]:
            steps.append(w.do(op))
        return {"steps": steps}
    except BaseException as e:  # noqa: B902 - RecursionError etc. are data here
        if isinstance(e, (KeyboardInterrupt, SystemExit)):
            raise
        return {"exc": type(e).__name__ + ": " + str(e)[:200], "steps": steps}
    finally:
        w = None
        gc.collect()


def main():
    payload = _boot.read_payload()
    out = []
    for k, case in enumerate(payload["cases"]):
        # keep the payload and the results collected so far out of the collector's way: every
        # "drop" runs a full collection, which must not rescan them
        gc.freeze()
        out.append(run_case(k, case))
    _boot.write_result({"obs": out})


main()
