"""C13 child: a freshly started interpreter in which the generated modules are importable again.

Started by c13_driver.py with ZI_C13_CHILD=1 (the generated modules then replay their class-level
declaration operations at import time).  Loads every payload and reports, per item and protocol,
whether loading worked, whether the result is this process's live object (interfaces, classes,
class specifications), and the interface numbers of list(spec) / flattened()."""
import _boot
import importlib
import json
import pickle
import sys

from zope.interface import Interface, implementedBy, providedBy
from zope.interface.interface import InterfaceClass


def main():
    job = _boot.read_payload()
    sys.path.insert(0, job["tmpdir"])
    res = []
    for j in job["jobs"]:
        if j is None:
            res.append(None)
            continue
        forget_builtins(j)
        try:
            res.append(run_job(j))
        except Exception as e:
            res.append({"exc": type(e).__name__ + ": " + str(e)[:200]})
        finally:
            forget_builtins(j)
    _boot.write_result({"res": res})


def forget_builtins(j):
    import builtins
    from zope.interface.declarations import BuiltinImplementationSpecifications
    for name in j.get("builtin", []):
        BuiltinImplementationSpecifications.pop(getattr(builtins, name), None)


def run_job(j):
    already = j["module"] in sys.modules
    assert not already
    mod = importlib.import_module(j["module"])
    ifaces = [getattr(mod, "I%d" % i) for i in range(j["nif"])]
    classes = [getattr(mod, "C%d" % c) for c in range(j["ncl"])]
    if j.get("root"):
        ifaces.append(Interface)
    by_id = {id(x): n for n, x in enumerate(ifaces)}

    def num(x):
        if id(x) in by_id:
            return by_id[id(x)]
        return 9 if x is Interface else 10

    def lists_of(x, is_inst):
        spec = providedBy(x) if is_inst else x
        if isinstance(spec, InterfaceClass):
            return [num(spec)], [num(i) for i in spec.__iro__]
        return [num(i) for i in spec], [num(i) for i in spec.flattened()]

    items = []
    for it in j["items"]:
        kind, ref = it["kind"], it["ref"]
        obs = []
        for proto in sorted(it["pays"], key=int):
            ob = {"proto": int(proto), "ok": False, "same": False, "eq": False, "hash": False, "after": [],
                  "fafter": [], "struct": True, "badops": 0, "bad": [], "exc": ""}
            try:
                y = pickle.loads(bytes.fromhex(it["pays"][proto]))
                ob["ok"] = True
                if kind == "iface":
                    ob["same"] = y is ifaces[ref]
                elif kind == "class":
                    ob["same"] = y is classes[ref]
                elif kind == "impl":
                    ob["same"] = y is implementedBy(classes[ref])
                if ob["same"]:
                    ob["eq"] = ob["hash"] = True
                if kind != "class":
                    ob["after"], ob["fafter"] = lists_of(y, kind == "inst")
                if kind == "inst":
                    yattrs = dict((a, v) for a, v in y.__dict__.items() if a != "__provides__")
                    ob["struct"] = type(y) is classes[it["cls"]] and yattrs == it["attrs"] and \
                        (("__provides__" in y.__dict__) == it["has_provides"])
            except Exception as e:
                ob["exc"] = type(e).__name__
            obs.append(ob)
        items.append(obs)
    return {"items": items}


main()
