"""C12 driver: evaluate all six comparison operators in both directions and hash equality
on pairs of operands built from descriptors."""
import _boot
from zope.interface import Interface, implementedBy
from zope.interface.interface import InterfaceClass


def build(desc, cache):
    k = (desc["kind"], desc["id"])
    if k in cache:
        return cache[k]
    kind = desc["kind"]
    if kind == "iface":
        ob = InterfaceClass(desc["name"], (Interface,), {}, __module__=desc["module"])
    elif kind == "impl":
        cls = type(desc["name"], (object,), {"__module__": desc["module"]})
        cache[("cls", desc["id"])] = cls
        ob = implementedBy(cls)
    elif kind == "implold":
        # an old-style declaration in the class body, materialised by the first implementedBy()
        marker = InterfaceClass("IOld%d" % desc["id"], (Interface,), {}, __module__="old")
        cls = type(desc["name"], (object,), {"__module__": desc["module"],
                                             "__implemented__": marker if desc["id"] % 2 else (marker,)})
        cache[("cls", desc["id"])] = cls
        ob = implementedBy(cls)
    elif kind == "none":
        ob = None
    elif kind == "named":
        class F:
            pass
        ob = F()
        ob.__name__ = desc["name"]
        ob.__module__ = desc["module"]
    else:
        class G:
            __slots__ = ()
        ob = G()
        # a type's instance still finds __module__ on the class; hide both attributes
        class H:
            __slots__ = ()
            def __getattribute__(self, n):
                if n in ("__name__", "__module__"):
                    raise AttributeError(n)
                return object.__getattribute__(self, n)
        ob = H()
    cache[k] = ob
    return ob


def code(f):
    try:
        r = f()
    except TypeError:
        return 2
    if r is True:
        return 1
    if r is False:
        return 0
    return 3


def row(a, b):
    return [code(lambda: a < b), code(lambda: a <= b), code(lambda: a > b), code(lambda: a >= b),
            code(lambda: a == b), code(lambda: a != b)]


def key(ob, desc):
    if desc["kind"] in ("iface", "impl", "implold", "named"):
        return [ob.__name__, ob.__module__]
    return ["", ""]


def main():
    payload = _boot.read_payload()
    out = []
    for case in payload["cases"]:
        cache = {}
        try:
            a = build(case["a"], cache)
            b = build(case["b"], cache)
        except Exception as e:   # creating an operand must never fail: reported as an all-invalid row
            out.append({"ka": ["", ""], "kb": ["", ""], "rab": [3] * 6, "rba": [3] * 6, "heq": False,
                        "build_error": "%s: %s" % (type(e).__name__, e)})
            continue
        out.append({"ka": key(a, case["a"]), "kb": key(b, case["b"]), "rab": row(a, b), "rba": row(b, a),
                    "heq": hash(a) == hash(b)})
    _boot.write_result({"obs": out})


main()
