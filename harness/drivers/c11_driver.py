"""C11 ownership audit (deterministic; no crash is provoked: the probe keeps its own references).

One case = one entry point of a lookup object x one callback point out of the lookup code x one
thing the callback does (re-enter ``changed()`` after bumping the registry state, or raise).

  flavour   "LB"  subclass of LookupBase        (C: _zope_interface_coptimizations.LookupBase)
            "VB"  subclass of VerifyingBase     with a fake registry whose bases have a ``_generation``
                  property (the `_verify` callback point)
  entry     lookup | lookup1 | adapter_hook | queryAdapter | lookupAll | subscriptions | iface_call
  point     lazy_required | provided_hash | name_bool | name_hash | required_hash | uncached |
            generation | providedBy_desc | conform | factory | destructor
  action    changed | raise

At the callback the probe finds the object the lookup code is in the middle of using (see IN_USE),
keeps a reference to it and to nothing that holds it, bumps the state, calls ``changed()`` and then
reads ``sys.getrefcount``: ``extra`` = references beyond the probe's own (calibrated on a dummy).
``extra >= 1`` <=> somebody else (the C frame / the Python frame / the lookup object) still owns what
is used after the callback returns.  Reported per case (data only):
  owned        every in-use object had extra >= 1 (vacuously true when nothing is in use)
  extras       the extra counts
  answer       0 = the pre-mutation value, 1 = the post-mutation value, 2 = something else,
               3 = the expected exception propagated, 4 = another exception, 5 = SystemError (the C
               code went on with an exception set)
  second       a second, undisturbed call returned the post-mutation value
  fired        the callback actually ran (the case exercises the point)
  growth_objs / growth_refs   gc object count / max refcount growth of the participants over
               ``repeat`` further runs of the same scenario (after a warm-up)
"""
import gc
import sys

import _boot
from zope.interface import Interface, implementer
from zope.interface import interface as zi_interface
from zope.interface.adapter import LookupBase, VerifyingBase

MODE = _boot.mode


class I1(Interface):
    pass


class P1(Interface):
    pass


class Boom(Exception):
    pass


FAMILY = {"changed": "_cache", "lookup": "_cache", "lookup1": "_cache", "adapter_hook": "_cache", "queryAdapter": "_cache",
          "iface_call": "_cache", "lookupAll": "_mcache", "subscriptions": "_scache"}
# what the lookup code is using while the callback runs: "top" the dictionary in the owner slot,
# "mid" top[provided], "leaf" the dictionary the result is stored in, "vtuples" the verify tuples
IN_USE = {"none": None, "lazy_required": None, "provided_hash": "top", "name_bool": "mid", "name_hash": "mid",
          "required_hash": "leaf", "uncached": "leaf", "generation": "vtuples", "providedBy_desc": None,
          "conform": None, "factory": None, "destructor": None}


def calibrate():
    d = {}
    held = [d]
    del d
    return [sys.getrefcount(x) for x in held][0]


BASE = calibrate()


class Scenario:
    """All participants of one case; rebuilt for every case."""

    def __init__(self, case):
        self.case = case
        self.flavour, self.entry = case["flavour"], case["entry"]
        self.point, self.action = case["point"], case["action"]
        self.named = bool(case.get("named"))
        self.armed = False
        self.fired = 0
        self.measure = True
        self.extras = []
        self.state = 0
        sc = self

        base_cls = LookupBase if self.flavour == "LB" else VerifyingBase

        class Probe(base_cls):
            def _uncached_lookup(self, required, provided, name=""):
                st = sc.state
                if sc.point == "destructor" and sc.armed:
                    raise Boom("uncached")      # the tuple built from ``required`` is released on the error path
                sc.fire("uncached")
                if sc.entry in ("adapter_hook", "queryAdapter", "iface_call"):
                    def factory(ob, st=st):
                        st2 = sc.state
                        sc.fire("factory")
                        return ("F", st if sc.point != "factory" else st2)
                    return factory
                return ("L", st)

            def _uncached_lookupAll(self, required, provided):
                st = sc.state
                if sc.point == "destructor" and sc.armed:
                    raise Boom("uncached")
                sc.fire("uncached")
                return (("", ("A", st)),)

            def _uncached_subscriptions(self, required, provided):
                st = sc.state
                if sc.point == "destructor" and sc.armed:
                    raise Boom("uncached")
                sc.fire("uncached")
                return [("S", st)]

        self.lk = Probe()
        if self.flavour == "VB":
            class Reg:
                pass

            class Base:
                @property
                def _generation(self):
                    sc.fire("generation")
                    return sc.gen

            self.gen = 0
            self.reg = Reg()
            self.reg.ro = [self.reg] + [Base() for _ in range(3)]
            self.lk._registry = self.reg
            self.lk.changed(None)

        # ---- keys
        class HProvided:
            def __hash__(self):
                sc.fire("provided_hash")
                return 4242

            def __eq__(self, other):
                return self is other

        class SName(str):
            def __bool__(self):
                sc.fire("name_bool")
                return len(self) > 0

            def __hash__(self):
                sc.fire("name_hash")
                return str.__hash__(self)

            def __eq__(self, other):
                return str.__eq__(self, other)

        class HRequired:
            """a required 'specification' with a Python __hash__"""
            def __hash__(self):
                sc.fire("required_hash")
                return 777

            def __eq__(self, other):
                return self is other

            def extends(self, other):      # looks like a specification to providedBy
                return False

        self.provided = HProvided() if self.point == "provided_hash" else P1
        self.variant = case.get("variant", "")
        if self.variant == "unhashable_provided":
            self.provided = {}
        if self.point in ("name_bool", "name_hash"):
            self.name = SName("nm")
        else:
            self.name = "nm" if self.named else ""
        if self.variant == "bad_name":
            self.name = 42
        self.required = HRequired() if self.point == "required_hash" else I1

        class Desc:
            def __get__(self, inst, owner):
                if inst is None:
                    return self
                sc.fire("providedBy_desc")
                return sc.required

        class Obj:
            __providedBy__ = Desc()

            def __conform__(self, iface):
                sc.fire("conform")
                return None

        self.obj = Obj()

        class Victim:
            """dies when the tuple built from the lazy ``required`` is released"""
            def __del__(self):
                sc.fire("destructor")

        self.Victim = Victim

    # ---- the callback
    def in_use(self):
        what = IN_USE[self.point]
        if what is None:
            return []
        lk = self.lk
        if what == "vtuples":
            if MODE == "py":
                # the comprehension of _verify iterates _verify_ro; _verify_generations is read afterwards
                return [lk._verify_ro]
            return [r for r in gc.get_referents(lk) if type(r) is tuple]
        if MODE == "py":
            top = getattr(lk, FAMILY[self.entry])
        else:
            own = lk.__dict__
            tops = [r for r in gc.get_referents(lk) if type(r) is dict and r is not own]
            if len(tops) != 1:
                return ["unexpected number of cache dictionaries: %d" % len(tops)]
            top = tops[0]
        if what == "top":
            return [top]
        mid = top.get(P1)
        if what == "mid" or FAMILY[self.entry] != "_cache":
            return [mid]
        if self.name:
            return [mid.get(str(self.name))]
        return [mid]

    def fire(self, point):
        if not self.armed or point != self.point:
            return
        self.armed = False
        self.fired += 1
        # always keep what is in use alive across changed(): the audit must not provoke a crash
        held = self.in_use()
        if any(isinstance(x, str) or x is None for x in held):
            if self.measure:
                self.extras = ["cannot find the in-use object: %r" % (held,)]
            held = [x for x in held if not (isinstance(x, str) or x is None)]
            self.measure_ok = False
        else:
            self.measure_ok = True
        self.state += 1
        if self.flavour == "VB":
            self.gen += 1
        self.lk.changed(None)
        if self.measure and self.measure_ok:
            self.extras = [sys.getrefcount(x) - BASE for x in held]
        del held
        if self.action == "raise":
            raise Boom(point)

    # ---- the entry points
    def lazy(self):
        if self.point == "lazy_required":
            def gen():
                self.fire("lazy_required")
                yield self.required
            return gen()
        if self.point == "destructor":
            def gen2():
                yield self.required
                yield self.Victim()
            return gen2()
        return [self.required]

    def call(self):
        lk, e = self.lk, self.entry
        if e == "lookup":
            return lk.lookup(self.lazy(), self.provided, self.name, "dflt")
        if e == "lookup1":
            return lk.lookup1(self.required, self.provided, self.name, "dflt")
        if e == "adapter_hook":
            return lk.adapter_hook(self.provided, self.obj, self.name, "dflt")
        if e == "queryAdapter":
            return lk.queryAdapter(self.obj, self.provided, self.name, "dflt")
        if e == "lookupAll":
            return lk.lookupAll(self.lazy(), self.provided)
        if e == "subscriptions":
            return lk.subscriptions(self.lazy(), self.provided)
        if e == "changed":
            return lk.changed(None)
        if e == "iface_call":
            hooks = zi_interface.adapter_hooks
            hook = lambda iface, ob: lk.adapter_hook(iface, ob, "", None)   # noqa: E731
            hooks.append(hook)
            try:
                return P1(self.obj, "dflt")
            finally:
                hooks.remove(hook)
        raise ValueError(e)

    def value(self, st):
        e = self.entry
        if e == "changed":
            return None
        if e in ("lookup", "lookup1"):
            return ("L", st)
        if e in ("adapter_hook", "queryAdapter", "iface_call"):
            return ("F", st)
        if e == "lookupAll":
            return (("", ("A", st)),)
        return [("S", st)]

    def participants(self):
        parts = [self.provided, self.required, self.name, self.lk, P1, I1, self.obj, None]
        if self.point == "none" and not self.variant:
            # the undisturbed call takes the hit path every time: the cache dictionaries must not gain references
            lk = self.lk
            if MODE == "py":
                tops = [lk._cache, lk._mcache, lk._scache]
            else:
                own = lk.__dict__
                tops = [r for r in gc.get_referents(lk) if type(r) is dict and r is not own]
            for t in tops:
                parts.append(t)
                for m in t.values():
                    if type(m) is dict:
                        parts.append(m)
                        parts.extend(x for x in m.values() if type(x) is dict)
        return parts


class I2(Interface):
    pass


class Ans:
    """a cached answer that can be watched with a weak reference"""
    def __call__(self, ob):
        return ("F", 0)


def run_fail_after_success(case):
    """A successful call fills the cache (the answer holds an ``Ans`` we watch through a weak reference);
    then calls for the SAME ``provided`` fail on a cache miss in the way ``case['fail']`` says (the
    overridden ``_uncached_*`` raises / the lazy ``required`` raises / a ``required`` element is not a
    specification, on a real AdapterRegistry); then ``changed()`` and all our references are dropped.
    Whatever the failing calls leaked keeps the detached cache dictionary, and with it the answer, alive:
    ``growth_objs`` = 100 x the number of watched answers that are still alive."""
    import weakref
    from zope.interface.adapter import AdapterRegistry
    entry, fail, flavour = case["entry"], case["fail"], case["flavour"]
    watched = []
    fails = {"on": False}

    def ans():
        a = Ans()
        watched.append(weakref.ref(a))
        return a

    if flavour == "AR":
        reg = AdapterRegistry()
        reg.register([I1], P1, "", ans())
        reg.subscribe([I1], P1, ans())
        lk = reg
    else:
        base_cls = LookupBase if flavour == "LB" else VerifyingBase

        class Probe(base_cls):
            def _uncached_lookup(self, required, provided, name=""):
                if fails["on"] and fail == "uncached":
                    raise Boom("uncached")
                return ans()

            def _uncached_lookupAll(self, required, provided):
                if fails["on"] and fail == "uncached":
                    raise Boom("uncached")
                return (("", ans()),)

            def _uncached_subscriptions(self, required, provided):
                if fails["on"] and fail == "uncached":
                    raise Boom("uncached")
                return [ans()]

        lk = Probe()
        if flavour == "VB":
            class Reg:
                pass

            class Base:
                _generation = 1

            reg0 = Reg()
            reg0.ro = [reg0, Base()]
            lk._registry = reg0
            lk.changed(None)

    class Obj:
        def __init__(self, spec):
            self.__providedBy__ = spec

    def required_for(spec):
        if fails["on"] and fail == "lazy":
            def gen():
                yield spec
                raise Boom("lazy")
            return gen()
        if fails["on"] and fail == "notspec":
            return [object()]
        return [spec]

    def call(spec):
        if entry == "lookup":
            return lk.lookup(required_for(spec), P1, "")
        if entry == "lookup1":
            return lk.lookup1(object() if (fails["on"] and fail == "notspec") else spec, P1, "")
        if entry in ("adapter_hook", "queryAdapter"):
            ob = Obj(spec)
            return lk.adapter_hook(P1, ob, "") if entry == "adapter_hook" else lk.queryAdapter(ob, P1, "")
        if entry == "lookupAll":
            return lk.lookupAll(required_for(spec), P1)
        return lk.subscriptions(required_for(spec), P1)

    shown = ""
    try:
        first = call(I1)
        ok_first = first is not None
    except Exception as e:   # noqa
        ok_first, shown = False, "first call: " + type(e).__name__
    first = None
    fails["on"] = True
    raised = 0
    syserr = False
    for _ in range(5):
        try:
            call(I2)           # another key of the same per-provided dictionary: a cache miss
        except SystemError:
            syserr = True
        except Exception:   # noqa
            raised += 1
    fails["on"] = False
    if flavour == "AR":
        lk.unregister([I1], P1, "")
        lk.unsubscribe([I1], P1)
    else:
        lk.changed(None)
    gc.collect()
    alive = sum(1 for w in watched if w() is not None)
    return {"fired": 1 if (watched and (raised or fail == "notspec" and entry in ("lookup1",))) else 0, "owned": True, "extras": [],
            "notes": [], "answer": 5 if syserr else 3, "shown": shown or "%d of 5 failing calls raised; %d of %d watched answers alive after changed()" % (raised, alive, len(watched)),
            "second": bool(ok_first), "growth_objs": 100 * alive, "growth_refs": 0, "repeat": 1000}


def run_super_proxy(case):
    """The looked-up object is a ``super`` proxy (bound to an instance, bound to a class, or an instance of
    a subclass of ``super``); the factory found for it returns an adapter / returns None / raises / mutates
    the registry.  The lookup code unwraps the proxy (``__self__``): after ``repeat`` calls the reference
    count of the underlying object must not have drifted, and it must die when we let go of it.
    ``growth_refs`` = the drift, ``growth_objs`` = 100 if the object outlives us."""
    import weakref
    from zope.interface.adapter import AdapterRegistry
    entry, kind, fac, flavour = case["entry"], case["kind"], case["fac"], case["flavour"]
    n = int(case.get("repeat", 1000))
    calls = {"n": 0}

    @implementer(I1)
    class A:
        pass

    class B(A):
        pass

    class S(super):
        pass

    holder = {}

    def factory(ob):
        calls["n"] += 1
        if fac == "none":
            return None
        if fac == "raise":
            raise Boom("factory")
        if fac == "mutate":
            holder["lk"].changed(None)
        return ("adapted", type(ob).__name__)

    if flavour == "AR":
        lk = AdapterRegistry()
        lk.register([I1], P1, "", factory)
        lk.subscribe([I1], P1, factory)
    else:
        base_cls = LookupBase if flavour == "LB" else VerifyingBase

        class Probe(base_cls):
            def _uncached_lookup(self, required, provided, name=""):
                return factory

            def _uncached_subscriptions(self, required, provided):
                return [factory]

        lk = Probe()
        if flavour == "VB":
            class Reg:
                pass

            class Base:
                _generation = 1

            reg0 = Reg()
            reg0.ro = [reg0, Base()]
            lk._registry = reg0
            lk.changed(None)
    holder["lk"] = lk
    under = B if kind == "cls" else B()

    def proxy():
        if kind == "cls":
            return super(B, B)
        return S(B, under) if kind == "sub" else super(B, under)

    def once():
        p = proxy()
        if entry == "adapter_hook":
            return lk.adapter_hook(P1, p, "", "dflt")
        if entry == "queryAdapter":
            return lk.queryAdapter(p, P1, "", "dflt")
        if entry == "queryMultiAdapter":
            return lk.queryMultiAdapter((p,), P1, "", "dflt")
        return lk.subscribers((p,), P1)

    shown, answer, bad = "", 0, 0
    for _ in range(20):
        try:
            once()
        except Boom:
            pass
        except Exception as e:   # noqa
            bad += 1
            shown = type(e).__name__ + ": " + str(e)[:80]
    gc.collect()
    rc0 = sys.getrefcount(under)
    for _ in range(n):
        try:
            got = once()
        except Boom:
            answer = 3
        except SystemError as e:
            answer, shown = 5, "SystemError: " + str(e)[:80]
        except Exception as e:   # noqa
            bad += 1
            shown = type(e).__name__ + ": " + str(e)[:80]
    gc.collect()
    drift = sys.getrefcount(under) - rc0
    alive = 0
    if kind != "cls":
        w = weakref.ref(under)
        del under
        got = None
        gc.collect()
        alive = 1 if w() is not None else 0
    return {"fired": 1 if calls["n"] else 0, "owned": True, "extras": [], "notes": [], "answer": 4 if (bad and answer != 5) else answer,
            "shown": shown or "%d factory calls; refcount drift of the unwrapped object %d; alive afterwards: %d" % (calls["n"], drift, alive),
            "second": not bad, "growth_objs": 100 * alive, "growth_refs": drift, "repeat": n}


def run_case(case):
    if case.get("variant") == "fail_after_success":
        return run_fail_after_success(case)
    if case.get("variant") == "super_proxy":
        return run_super_proxy(case)
    sc = Scenario(case)
    if sc.entry == "iface_call" and sc.point == "provided_hash":
        return {"skip": "iface_call needs an interface as provided"}
    pre, post = sc.value(sc.state), sc.value(sc.state + 1)
    plain = sc.point == "none"
    sc.armed = not plain
    try:
        got = sc.call()
        answer = 0 if got == pre else 1 if got == post else 2
        shown = repr(got)[:80]
    except Boom:
        answer, shown = 3, "Boom"
    except (TypeError, ValueError) as e:
        answer, shown = (3 if sc.variant else 4), type(e).__name__ + ": " + str(e)[:80]
    except SystemError as e:
        # the C code carried on with an exception set: never a legitimate outcome
        answer, shown = 5, "SystemError: " + str(e)[:80]
    except Exception as e:   # noqa
        answer, shown = 4, type(e).__name__ + ": " + str(e)[:80]
    fired = sc.fired if not plain else 1
    extras = sc.extras
    bad_extras = [x for x in extras if not isinstance(x, int)]
    owned = not bad_extras and all(x >= 1 for x in extras)
    sc.armed = False
    try:
        second = sc.call() == sc.value(sc.state)
    except (TypeError, ValueError):
        second = bool(sc.variant)
    except Exception as e:  # noqa
        second = False
        shown += " / second: " + type(e).__name__
    # ---- leaks: repeat the whole scenario
    sc.measure = False
    n = int(case.get("repeat", 1000))

    def once():
        sc.armed = not plain
        try:
            sc.call()
        except Exception:   # noqa
            pass
        sc.armed = False

    for _ in range(20):
        once()
    parts = sc.participants()
    gc.collect()
    rc0 = [sys.getrefcount(p) for p in parts]
    n0 = len(gc.get_objects())
    for _ in range(n):
        once()
    gc.collect()
    n1 = len(gc.get_objects())
    rc1 = [sys.getrefcount(p) for p in parts]
    return {"fired": fired, "owned": owned, "extras": [x if isinstance(x, int) else -1 for x in extras],
            "notes": [str(x) for x in bad_extras], "answer": answer, "shown": shown, "second": bool(second),
            "growth_objs": n1 - n0, "growth_refs": max(b - a for a, b in zip(rc0, rc1)), "repeat": n}


def main():
    payload = _boot.read_payload()
    out = []
    for case in payload["cases"]:
        try:
            out.append(run_case(case))
        except Exception as e:   # noqa
            out.append({"error": type(e).__name__ + ": " + str(e)[:200]})
    _boot.write_result({"obs": out})


main()
