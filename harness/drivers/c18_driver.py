"""C18 driver: exec a generated ``def`` and report
  * what zope.interface says about it (getSignatureInfo, getSignatureString, tagged values),
  * what inspect.signature says about the function and about the described callable,
  * the raw function-object fields fromFunction reads.
Objects (defaults / attribute values) are reported as indices into the case's object table
(by identity), names as strings.

case: {"src": text defining f (via 0, 2) or class C / class I with a method f that appends itself
               to _keep (via 1, 3); "_o" is the object table,
       "objs": [python literal sources], "via": 0 fromFunction(f) | 1 fromMethod(C().f) |
               2 fromFunction(f, imlevel=1) | 3 I['f'] of class I(Interface)}
"""
import _boot
import inspect
import types

from zope.interface import Interface
from zope.interface.interface import Method, fromFunction, fromMethod


def oidx(objs, o):
    for i, x in enumerate(objs):
        if x is o:
            return i
    return -1


def view(sig, objs):
    out = []
    for p in sig.parameters.values():
        out.append([p.name, int(p.kind), None if p.default is inspect.Parameter.empty else oidx(objs, p.default)])
    return out


def names_ok(seq):
    return isinstance(seq, (tuple, list)) and all(isinstance(x, str) for x in seq)


def one(case):
    objs = [eval(s, {}) for s in case["objs"]]
    keep = []
    ns = {"_o": objs, "_keep": keep, "Interface": Interface}
    exec(case["src"], ns)
    via = case["via"]
    func = ns["f"] if via in (0, 2) else keep[0]
    assert isinstance(func, types.FunctionType)
    code = func.__code__
    out = {
        "reprs": [repr(o) for o in objs],
        "code": {
            "argcount": code.co_argcount, "kwonly": code.co_kwonlyargcount, "varnames": list(code.co_varnames),
            "va": bool(code.co_flags & inspect.CO_VARARGS), "vk": bool(code.co_flags & inspect.CO_VARKEYWORDS),
            "defaults": [oidx(objs, d) for d in (func.__defaults__ or ())],
            "fdict": [[k, oidx(objs, v)] for k, v in func.__dict__.items()],
        },
        "has_dc": hasattr(func, "__defaults_count__"),
        "view_f": view(inspect.signature(func), objs),
    }
    if via == 1:
        target = ns["C"]().f
        assert isinstance(target, types.MethodType) and target.__func__ is func
    elif via == 2:
        target = types.MethodType(func, object())
    else:
        target = func
    try:
        out["view_t"] = view(inspect.signature(target), objs)
    except ValueError:       # e.g. a bound ``def f(): ...``: nothing to describe
        out["view_t"] = None
    try:
        if via == 0:
            m = fromFunction(func)
        elif via == 1:
            m = fromMethod(target)
        elif via == 2:
            m = fromFunction(func, imlevel=1)
        else:
            m = ns["I"]["f"]
        assert isinstance(m, Method)
        info = m.getSignatureInfo()
        if (sorted(info) != ["kwargs", "optional", "positional", "required", "varargs"]
                or not names_ok(info["positional"]) or not names_ok(info["required"])
                or not isinstance(info["optional"], dict) or not names_ok(list(info["optional"]))
                or not (info["varargs"] is None or isinstance(info["varargs"], str))
                or not (info["kwargs"] is None or isinstance(info["kwargs"], str))):
            out["exc"] = "malformed:" + repr(info)[:200]
            return out
        out["info"] = {
            "positional": list(info["positional"]), "required": list(info["required"]),
            "optional": [[k, oidx(objs, v)] for k, v in info["optional"].items()],
            "varargs": info["varargs"], "kwargs": info["kwargs"],
        }
        s = m.getSignatureString()
        if not isinstance(s, str):
            out["exc"] = "malformed-string"
            return out
        out["sigstr"] = s
        out["tagged"] = [[t, oidx(objs, m.getTaggedValue(t))] for t in m.getTaggedValueTags()]
    except Exception as e:   # reported as data
        out["exc"] = type(e).__name__
    return out


def main():
    payload = _boot.read_payload()
    res = []
    for case in payload["cases"]:
        try:
            res.append(one(case))
        except Exception as e:   # the case itself is broken (does not compile ...)
            res.append({"broken": "%s: %s" % (type(e).__name__, e)})
    _boot.write_result({"obs": res})


main()
