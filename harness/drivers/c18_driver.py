"""C18 driver: exec a generated ``def`` and report
  * what zope.interface says about it (getSignatureInfo, getSignatureString, tagged values),
  * what inspect.signature says about the function and about the described callable,
  * the raw function-object fields fromFunction reads.
Objects (defaults / attribute values) are reported as indices into the case's object table
(by identity), names as strings.

case: {"src": text defining f (via 0, 2) or a class with a method f that appends itself to _keep
               (via 1: class C; 3: class I(Interface); 4: class A(abc.ABC) + class IA(ABCInterface));
               "_o" is the object table,
       "objs": [python literal sources],
       "via": 0 fromFunction(f) | 1 fromMethod(C().f) | 2 fromFunction(f, imlevel=1) |
              3 I['f'] of class I(Interface) | 4 IA['f'] of class IA(ABCInterface) with abc = A,
       "sibling": optional.  A SEQUENCE of two descriptions in this process: first f is described
              through the same route (answer discarded, it is judged by its own case), then a second
              function object g, and only g's description / g's inspect view / g's fields are
              reported:
                {"how": "closure", "rot": r}      src is the body of a factory called twice (object
                                                  table rotated by r the second time): g shares
                                                  f's code object, other defaults
                {"how": "functype", "defaults": [i..]}   g = types.FunctionType(f.__code__, ...,
                                                  other __defaults__), same __dict__/__kwdefaults__
                {"how": "setdefaults", "defaults": [i..]}  g = f after f.__defaults__ = (...)}
"""
import _boot
import abc
import inspect
import types

from zope.interface import Interface
from zope.interface.common import ABCInterface
from zope.interface.interface import InterfaceClass, Method, fromFunction, fromMethod


def oidx(objs, o):
    for i, x in enumerate(objs):
        if x is o:
            return i
    return -1


def view(sig, objs):
    out = []
    for p in sig.parameters.values():
        out.append([p.name, int(p.kind), None if p.default is inspect.Parameter.empty else oidx(objs, p.default)])
    return out


def names_ok(seq):
    return isinstance(seq, (tuple, list)) and all(isinstance(x, str) for x in seq)


R_KEYERROR, R_DEFAULT, R_OTHER, R_NONE = 1000, 1001, 1002, 1003


def tag_reads(m, tag, objs):
    """every read accessor of Element on one tag, coded as Model/PyFunc.v tag_reads"""
    sentinel = object()

    def code(call, none_code):
        try:
            r = call()
        except KeyError:
            return R_KEYERROR
        except Exception:
            return R_OTHER
        if r is sentinel:
            return R_DEFAULT
        if r is None and none_code:
            return R_NONE
        i = oidx(objs, r)
        return i if i >= 0 else R_OTHER

    return [code(lambda: m.getTaggedValue(tag), False), code(lambda: m.getDirectTaggedValue(tag), False),
            code(lambda: m.queryTaggedValue(tag), True), code(lambda: m.queryDirectTaggedValue(tag), True),
            code(lambda: m.queryTaggedValue(tag, sentinel), False),
            code(lambda: m.queryDirectTaggedValue(tag, sentinel), False)]


def make_factory(src):
    text = "def _make(_o, _keep, Interface, ABCInterface, abc):\n"
    text += "".join("    " + ln + "\n" for ln in src.split("\n") if ln.strip())
    text += "    return locals()\n"
    ns = {}
    exec(compile(text, "<c18 case>", "exec"), ns)
    return ns["_make"]


class Raised(Exception):
    """zope.interface raised while the case's class statement was being executed (defining an
    interface describes its methods): an observation, not a broken case."""

    def __init__(self, func, exc):
        Exception.__init__(self, func, exc)
        self.func, self.exc = func, exc


def instantiate(factory, table, via):
    keep = []
    try:
        ns = factory(table, keep, Interface, ABCInterface, abc)
    except Exception as e:
        if via in (3, 4) and keep and isinstance(keep[0], types.FunctionType):
            raise Raised(keep[0], e)      # the def itself ran; building the interface failed
        raise
    func = ns["f"] if via in (0, 2) else keep[0]
    assert isinstance(func, types.FunctionType)
    return ns, func


def describe(via, func, ns):
    """-> (Method, the callable that is described).  ns None: the interface / class around func
    is built here (func is not the function the case's class statement created)."""
    if via == 0:
        return fromFunction(func), func
    if via == 1:
        if ns is not None and ns["C"].__dict__["f"] is func:
            target = ns["C"]().f
        else:
            target = types.MethodType(func, type("C", (), {})())
        assert isinstance(target, types.MethodType) and target.__func__ is func
        return fromMethod(target), target
    if via == 2:
        return fromFunction(func, imlevel=1), types.MethodType(func, object())
    if via == 3:
        iface = ns["I"] if ns is not None else InterfaceClass("I", (Interface,), {"f": func})
        return iface["f"], func
    if via == 4:
        if ns is not None:
            iface = ns["IA"]
        else:
            a = abc.ABCMeta("A", (), {"f": func})
            iface = type(ABCInterface)("IA", (ABCInterface,), {"abc": a})
        return iface["f"], types.MethodType(func, object())
    raise ValueError(via)


def one(case):
    objs = [eval(s, {}) for s in case["objs"]]
    via = case["via"]
    factory = make_factory(case["src"])
    raised = None
    try:
        ns, func = instantiate(factory, objs, via)
    except Raised as r:
        ns, func, raised = None, r.func, r.exc
    sib = case.get("sibling")
    first_exc = None
    if sib and raised is None:
        try:
            describe(via, func, ns)[0].getSignatureInfo()       # first description of the sequence
        except Exception as e:
            first_exc = type(e).__name__
        how = sib["how"]
        if how == "closure":
            r = sib["rot"] % len(objs)
            try:
                ns, g = instantiate(factory, objs[r:] + objs[:r], via)
            except Raised as r2:
                ns, g, raised = None, r2.func, r2.exc
            assert g.__code__ is func.__code__ and g is not func
            func = g
        elif how == "functype":
            g = types.FunctionType(func.__code__, func.__globals__, "f",
                                   tuple(objs[i] for i in sib["defaults"]) or None, func.__closure__)
            g.__kwdefaults__ = func.__kwdefaults__
            g.__dict__.update(func.__dict__)
            func, ns = g, None
        elif how == "setdefaults":
            func.__defaults__ = tuple(objs[i] for i in sib["defaults"]) or None
            ns = None if via in (3, 4) else ns
        else:
            raise ValueError(how)
    code = func.__code__
    out = {
        "reprs": [repr(o) for o in objs],
        "code": {
            "argcount": code.co_argcount, "kwonly": code.co_kwonlyargcount, "varnames": list(code.co_varnames),
            "va": bool(code.co_flags & inspect.CO_VARARGS), "vk": bool(code.co_flags & inspect.CO_VARKEYWORDS),
            "defaults": [oidx(objs, d) for d in (func.__defaults__ or ())],
            "fdict": [[k, oidx(objs, v)] for k, v in func.__dict__.items()],
        },
        "has_dc": hasattr(func, "__defaults_count__"),
        "view_f": view(inspect.signature(func, follow_wrapped=False), objs),
        "view_t": None,
    }
    if first_exc:
        out["first_exc"] = first_exc
    if raised is not None:
        out["exc"] = "raised:" + type(raised).__name__
        return out
    try:
        m, target = describe(via, func, ns)
        try:
            out["view_t"] = view(inspect.signature(target, follow_wrapped=False), objs)
        except ValueError:       # e.g. a bound ``def f(): ...``: inspect has nothing to bind
            out["view_t"] = None
        assert isinstance(m, Method)
        info = m.getSignatureInfo()
        if (sorted(info) != ["kwargs", "optional", "positional", "required", "varargs"]
                or not names_ok(info["positional"]) or not names_ok(info["required"])
                or not isinstance(info["optional"], dict) or not names_ok(list(info["optional"]))
                or not (info["varargs"] is None or isinstance(info["varargs"], str))
                or not (info["kwargs"] is None or isinstance(info["kwargs"], str))):
            out["exc"] = "malformed:" + repr(info)[:200]
            return out
        out["info"] = {
            "positional": list(info["positional"]), "required": list(info["required"]),
            "optional": [[k, oidx(objs, v)] for k, v in info["optional"].items()],
            "varargs": info["varargs"], "kwargs": info["kwargs"],
        }
        s = m.getSignatureString()
        if not isinstance(s, str):
            out["exc"] = "malformed-string"
            return out
        out["sigstr"] = s
        out["tagged"] = [[t, oidx(objs, m.getTaggedValue(t))] for t in m.getTaggedValueTags()]
        out["tags"] = [str(t) for t in m.getTaggedValueTags()]
        out["dtags"] = [str(t) for t in m.getDirectTaggedValueTags()]
        probe = list(func.__dict__)
        probe += [t for t in out["tags"] + out["dtags"] if t not in probe]
        probe.append("absent_tag_")
        out["reads"] = [[t, tag_reads(m, t, objs)] for t in probe]
    except Exception as e:   # reported as data
        out["exc"] = "raised:" + type(e).__name__
    return out


def main():
    payload = _boot.read_payload()
    res = []
    for case in payload["cases"]:
        try:
            res.append(one(case))
        except Exception as e:   # the case itself is broken (does not compile ...)
            res.append({"broken": "%s: %s" % (type(e).__name__, e)})
    _boot.write_result({"obs": res})


main()
