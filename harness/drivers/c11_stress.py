"""C11 thread stress (supporting evidence only): reader threads against one mutator thread, or
readers only, on real AdapterRegistry / VerifyingAdapterRegistry objects (both flavours in one run,
half of the time each), with ``sys.setswitchinterval(1e-6)``.

payload {"seconds": s, "readers": n, "mutator": bool, "seed": k}
 -> {"summary": .., "failures": [..], "stats": {..}}
A failure is: an exception in a reader thread, or an answer outside the set of answers that are right
before or after one of the mutator's operations (with no mutator: anything but THE right answer).
A crash of the interpreter is seen by the harness as the process' exit status."""
import sys
import threading
import time

import _boot
from zope.interface import Interface, implementer
from zope.interface.adapter import AdapterRegistry, VerifyingAdapterRegistry


class I(Interface):
    pass


class J(I):
    pass


class P(Interface):
    pass


class Q(P):
    pass


@implementer(J)
class Ob:
    pass


def fa(ob):
    return ("a", id(ob) & 0)


def fb(ob):
    return ("b", id(ob) & 0)


def run(flavour, seconds, readers, mutator, failures, stats):
    cls = AdapterRegistry if flavour == "AR" else VerifyingAdapterRegistry
    base = cls()
    other = cls()
    reg = cls((base,))
    base.register([I], P, "", fa)
    base.register([I], P, "n", fa)
    base.subscribe([I], P, "s0")
    other.register([I], P, "", fa)
    other.subscribe([I], P, "s0")        # no "n" registration here: a registry stuck on this base is noticed
    ob = Ob()
    stop = time.time() + seconds
    lock = threading.Lock()
    # the mutator only ever adds / removes fb for J and "s1", and swaps base for an equivalent registry
    ok_lookup = {fa, fb}
    ok_all = {(("", fa),), (("", fa), ("n", fa)), (("", fb),), (("", fb), ("n", fa)), (("", fa), ("n", fb)),
              (("", fb), ("n", fb))}
    ok_subs = {("s0",), ("s0", "s1")}
    ok_hook = {("a", 0), ("b", 0)}

    def fail(msg):
        with lock:
            if len(failures) < 10:
                failures.append("%s: %s" % (flavour, msg))

    def reader(k):
        n = 0
        try:
            while time.time() < stop:
                for _ in range(40):
                    r = reg.lookup([J], P, "")
                    if mutator:
                        if r not in ok_lookup:
                            fail("lookup returned %r" % (r,))
                    elif r is not fa:
                        fail("readers only: lookup returned %r" % (r,))
                    r = reg.lookup1(J, Q if k % 2 else P, "")
                    if r is not None and r not in ok_lookup:
                        fail("lookup1 returned %r" % (r,))
                    r = tuple(reg.lookupAll([J], P))
                    if tuple(sorted(r, key=lambda x: x[0])) not in ok_all:
                        fail("lookupAll returned %r" % (r,))
                    r = tuple(sorted(reg.subscriptions([J], P)))
                    if r not in ok_subs or (not mutator and r != ("s0",)):
                        fail("subscriptions returned %r" % (r,))
                    r = reg.queryAdapter(ob, P, "")
                    if r not in ok_hook or (not mutator and r != ("a", 0)):
                        fail("queryAdapter returned %r" % (r,))
                    r = reg.adapter_hook(P, ob, "n")
                    if (r not in ok_hook and not (mutator and r is None)) or (not mutator and r != ("a", 0)):
                        fail("adapter_hook returned %r" % (r,))
                    n += 1
        except Exception as e:   # noqa
            import traceback; fail("exception in reader thread: %s: %s | %s" % (type(e).__name__, str(e)[:200], " <- ".join("%s:%d %s" % (f.filename.split("/")[-1], f.lineno, f.name) for f in traceback.extract_tb(e.__traceback__)[-6:])))
        with lock:
            stats["lookups"] = stats.get("lookups", 0) + n * 6

    def writer():
        i = 0
        try:
            while time.time() < stop:
                i += 1
                reg.register([J], P, "", fb)
                reg.unregister([J], P, "")
                reg.register([J], P, "n", fb)
                reg.unregister([J], P, "n")
                reg.subscribe([J], P, "s1")
                reg.unsubscribe([J], P, "s1")
                # orders grow and shrink: a two-argument registration is the only one of its order
                reg.register([J, J], P, "", fb)
                reg.unregister([J, J], P, "")
                if i % 5 == 0:
                    reg.__bases__ = (other,)
                    if list(reg.ro) != [reg, other]:
                        fail("after reg.__bases__ = (other,) returned, reg.ro is %s" % (
                            ["reg" if r is reg else "base" if r is base else "other" for r in reg.ro],))
                    reg.__bases__ = (base,)
                    if list(reg.ro) != [reg, base]:
                        fail("after reg.__bases__ = (base,) returned, reg.ro is %s" % (
                            ["reg" if r is reg else "base" if r is base else "other" for r in reg.ro],))
        except Exception as e:   # noqa
            import traceback; fail("exception in mutator thread: %s: %s | %s" % (type(e).__name__, str(e)[:200], " <- ".join("%s:%d %s" % (f.filename.split("/")[-1], f.lineno, f.name) for f in traceback.extract_tb(e.__traceback__)[-4:])))
        with lock:
            stats["mutations"] = stats.get("mutations", 0) + i * 8

    ts = [threading.Thread(target=reader, args=(k,)) for k in range(readers)]
    if mutator:
        ts.append(threading.Thread(target=writer))
    [t.start() for t in ts]
    [t.join() for t in ts]
    # quiescence: the registry must consult its current base chain and answer from the final state
    from zope.interface import ro as zro
    if list(reg.ro) != zro.ro(reg) or list(reg.ro) != [reg, base]:
        fail("after all threads finished, reg.ro is %s but __bases__ gives %s"
             % (["reg" if r is reg else "base" if r is base else "other" for r in reg.ro],
                ["reg" if r is reg else "base" if r is base else "other" for r in zro.ro(reg)]))
    if reg.lookup([J], P, "") is not fa or reg.lookup([J], P, "n") is not fa or tuple(reg.subscriptions([J], P)) != ("s0",):
        fail("after all threads finished, lookups return %r %r %r" % (reg.lookup([J], P, ""), reg.lookup([J], P, "n"), reg.subscriptions([J], P)))


def main():
    payload = _boot.read_payload()
    sys.setswitchinterval(1e-6)
    failures, stats = [], {}
    secs = float(payload["seconds"])
    for flavour in ("AR", "VAR"):
        run(flavour, secs / 2.0, int(payload["readers"]), bool(payload["mutator"]), failures, stats)
    _boot.write_result({"summary": "%d lookups, %d mutations, %d failures" % (stats.get("lookups", 0), stats.get("mutations", 0), len(failures)),
                        "failures": failures, "stats": stats})


main()
