"""C03 oracle driver: CPython's own MRO on a hierarchy of real classes shaped like the given
graph (node 0 <-> ``object``; a node without bases derives from ``object``).

payload: {"graphs": [ {"graph": [[id, [base ids]], ...] in creation (topological) order} ]}
output : {"obs": [ [[id, mro as ids | None], ...] ]}   None = the class cannot be created
(TypeError: inconsistent MRO, or one of its bases could not be created).
No zope.interface code is involved.
"""
import json
import sys


def mirror(graph):
    classes = {0: object}
    back = {object: 0}
    out = []
    for x, bs in graph:
        if x == 0:
            out.append([0, [0]])
            continue
        if any(classes.get(b) is None for b in bs):
            classes[x] = None
            out.append([x, None])
            continue
        bases = tuple(classes[b] for b in bs) or (object,)
        try:
            cls = type("N%d" % x, bases, {})
        except TypeError:
            classes[x] = None
            out.append([x, None])
            continue
        classes[x] = cls
        back[cls] = x
        out.append([x, [back[c] for c in cls.__mro__]])
    return out


def main():
    payload = json.load(sys.stdin)
    res = []
    for item in payload["graphs"]:
        try:
            res.append(mirror(item["graph"]))
        except Exception as e:
            res.append({"exc": "%s: %s" % (type(e).__name__, e)})
    sys.stdout.write(json.dumps({"obs": res}))


main()
