"""C16 driver: runs register*/unregister* histories on a real ``Components`` object and reports,
after every call: return value, events passed to ``zope.interface.registry.notify`` during the
call, the four registered*() listings, rebuildUtilityRegistryFromLocalCache() counters and the
answers of the step's query calls.  Integers / lists / bools / short strings only.

Case (JSON):  {"specs": [...], "objects": [...]            as harness/drivers/reg_common.World
               "unhashable": [component identities whose class has __hash__ = None],
               "falsy_factories": [identities of ``factory=`` arguments that are falsy callables],
               "falsy": [component identities that are falsy: __bool__ False (hashable ones) or
                         __len__ 0 (unhashable ones); invisible to the model],
               "steps": [{"op": [...], "queries": [[...], ...]}, ...]}
Components / factories are [vid, veq] pairs (identity, equality class).  Names and infos are
numbers (0 -> '', k -> 'n<k>' / 'i<k>').  ``style`` selects how the arguments are passed:
  "plain"   everything explicit
  "factory" (utilities) the component is produced by ``factory=``
  "infer"   provided / required are left out and inferred from declarations on the component /
            factory (set just before the call)
  "class"   class specifications in ``required`` are passed as the classes themselves
  "named"   (registerUtility / registerAdapter) the name is left out and inferred from a ``named()``
            decoration of the component / factory (removed again after the call)
  "inferall" "infer" and "named" together
"""
import _boot
import reg_common as R

import zope.interface.registry as ZR
from zope.interface import directlyProvides, implementer
from zope.interface.declarations import named
from zope.interface.registry import Components


def oracle_call(vid, obj_ids):
    """What a component returns when called as a factory / subscriber / handler: None or a small
    number (mirrors Tie.C16.call16; small so that Coq reads the literals as plain nat)."""
    if (vid + sum(obj_ids)) % 3 == 0:
        return None
    code = 0
    for o in obj_ids:
        code = code * 10 + (o % 10)
    return vid * 100 + code


def make_classes():
    """Fresh component classes per case: ``directlyProvides`` shares Provides objects per
    (class, interfaces) and interfaces of different cases' worlds are equal by name."""

    class Comp:
        """component / factory with separate identity and equality class; callable (adapter
        factory, subscriber, handler) with the shared deterministic oracle"""

        def __init__(self, vid, veq, env):
            self.vid, self.veq, self.env = vid, veq, env

        def __eq__(self, other):
            return isinstance(other, Comp) and other.veq == self.veq

        def __ne__(self, other):
            return not self.__eq__(other)

        def __hash__(self):
            return hash(self.veq)

        def __call__(self, *objs):
            ids = [self.env.world.obj_id(o) for o in objs]
            self.env.calls.append(self.vid)
            return oracle_call(self.vid, ids)

    class UComp(Comp):
        __hash__ = None

    class FComp(Comp):
        """falsy, hashable"""

        def __bool__(self):
            return False

    class UFComp(UComp):
        """falsy the way an empty container is, unhashable"""

        def __len__(self):
            return 0

    return Comp, UComp, FComp, UFComp


class UFactory:
    """a ``factory=`` argument of registerUtility: an identity that returns the wanted component"""

    def __init__(self, k):
        self.k = k
        self.ret = None

    def __call__(self):
        return self.ret


class FalsyUFactory(UFactory):
    """a callable that is falsy the way an empty container is"""

    def __len__(self):
        return 0


class FalseUFactory(UFactory):
    def __bool__(self):
        return False


def info_str(i):
    return "" if i == 0 else "i%d" % i


def info_id(s):
    return 0 if s == "" else int(s[1:])


class Env:
    def __init__(self, case):
        self.world = R.World(case)
        self.Comp, self.UComp, self.FComp, self.UFComp = make_classes()
        self.falsy = set(case.get("falsy", []))
        self.falsy_facs = set(case.get("falsy_factories", []))
        self.unh = set(case.get("unhashable", []))
        self.comps = {}
        self.facs = {}
        self.calls = []
        self.events = []
        self.regs = [Components("c0")]        # object 0; more are created by "newc"
        self.reg = self.regs[0]                # the object the current step acts upon
        self.exc = False

    def comp(self, v):
        if v is None:
            return None
        key = (v[0], v[1])
        if key not in self.comps:
            if v[0] in self.falsy:
                cls = self.UFComp if v[0] in self.unh else self.FComp
            else:
                cls = self.UComp if v[0] in self.unh else self.Comp
            self.comps[key] = cls(v[0], v[1], self)
        return self.comps[key]

    def fac(self, k):
        if k is None:
            return None
        if k not in self.facs:
            cls = UFactory
            if k in self.falsy_facs:
                cls = FalsyUFactory if k % 2 == 0 else FalseUFactory
            self.facs[k] = cls(k)
        return self.facs[k]

    def req(self, lst, style):
        w = self.world
        out = []
        for r in lst:
            if r is None:
                out.append(None)
            elif style == "class" and r in w.classes and w.classes[r] is not object:
                out.append(w.classes[r])
            else:
                out.append(w.specs[r])
        return tuple(out)

    # ---- canonical records
    def cvq(self, c):
        """a component in a query answer: never None"""
        r = self.cv(c)
        if r is None:
            self.exc = True
            return [999, 999]
        return r

    def cv(self, c):
        if c is None:
            return None
        if isinstance(c, self.Comp):
            return [c.vid, c.veq]
        self.exc = True
        return [999, 999]

    def creq(self, req):
        return [self.world.spec_id(r) for r in req]

    def rec(self, r):
        w = self.world
        if r.registry is not self.reg:
            self.exc = True
        k = type(r).__name__
        if k == "UtilityRegistration":
            f = r.factory
            if f is not None and not isinstance(f, UFactory):
                self.exc = True
            return ["U", w.spec_id(r.provided), w.name_id(r.name), self.cv(r.component), info_id(r.info),
                    None if f is None else f.k]
        if k == "AdapterRegistration":
            return ["A", self.creq(r.required), w.spec_id(r.provided), w.name_id(r.name), self.cv(r.factory),
                    info_id(r.info)]
        if k == "SubscriptionRegistration":
            if r.name != "":
                self.exc = True
            return ["S", self.creq(r.required), w.spec_id(r.provided), self.cv(r.factory), info_id(r.info)]
        if k == "HandlerRegistration":
            if r.name != "" or r.provided is not None:
                self.exc = True
            return ["H", self.creq(r.required), self.cv(r.factory), info_id(r.info)]
        self.exc = True
        return ["U", 0, 0, [999, 999], 0, None]

    def notify(self, e):
        k = type(e).__name__
        if k not in ("Registered", "Unregistered"):
            self.exc = True
        self.events.append([1 if k == "Registered" else 0, self.rec(e.object)])


def set_implemented(f, iface):
    try:
        del f.__implemented__
    except AttributeError:
        pass
    implementer(iface)(f)


def do_op(env, op):
    w, c = env.world, env.reg
    k = op[0]
    if k == "reinit":
        if len(op) > 1:          # ["reinit", "keep"]: the test-cleanup idiom, bases kept
            c.__init__("c16", bases=c.__bases__)
        else:
            c.__init__("c16")
        return None
    if k == "newc":
        env.regs.append(Components("c%d" % len(env.regs), bases=tuple(env.regs[b] for b in op[1])))
        return None
    if k == "setbases":
        env.regs[op[1]].__bases__ = tuple(env.regs[b] for b in op[2])
        return None
    if k == "tamper":          # corrupt the utilities registry behind the object's back
        if op[1] == "unreg":
            c.utilities.unregister((), w.specs[op[2]], w.name(op[3]))
        else:
            c.utilities.unsubscribe((), w.specs[op[2]], env.comp(op[3]))
        return None
    if k == "rebuild":
        d = c.rebuildUtilityRegistryFromLocalCache(True)
        return ("dict", [d["needed_registered"], d["did_not_register"], d["needed_subscribed"], d["did_not_subscribe"]])
    if k == "uboth":
        # component and factory= together: "Can't specify factory and component." (TypeError)
        _, unreg, v, p, n, fac = op
        comp, prov, name, f = env.comp(v), w.specs[p], w.name(n), env.fac(fac)
        f.ret = comp
        if unreg:
            return c.unregisterUtility(comp, prov, name, factory=f)
        return c.registerUtility(comp, prov, name, "", factory=f)
    ev = op[-1] if isinstance(op[-1], bool) else True      # the ``event=`` argument of register*
    if isinstance(op[-1], bool):
        op = op[:-1]
    if k == "regU":
        _, v, p, n, i, fac, style = op
        comp, prov, name, info = env.comp(v), w.specs[p], w.name(n), info_str(i)
        if style == "factory" or fac is not None:
            f = env.fac(fac if fac is not None else 0)
            f.ret = comp
            return c.registerUtility(None, prov, name, info, ev, factory=f)
        if style == "infer":
            directlyProvides(comp, prov)
            return c.registerUtility(comp, name=name, info=info, event=ev)
        if style in ("named", "inferall") and name != "":
            named(name)(comp)
            try:
                if style == "inferall":
                    directlyProvides(comp, prov)
                    return c.registerUtility(comp, info=info, event=ev)
                return c.registerUtility(comp, prov, info=info, event=ev)
            finally:
                del comp.__component_name__
        return c.registerUtility(comp, prov, name, info, ev)
    if k == "unregU":
        _, v, p, n, style = op
        comp, prov, name = env.comp(v), w.specs[p], w.name(n)
        if style == "factory" and comp is not None:
            f = env.fac(1000)
            f.ret = comp
            return c.unregisterUtility(None, prov, name, factory=f)
        if style == "infer" and comp is not None:
            directlyProvides(comp, prov)
            return c.unregisterUtility(comp, name=name)
        return c.unregisterUtility(comp, prov, name)
    if k in ("regA", "regS"):
        _, v, req, p, n, i, style = op
        f, prov, name, info = env.comp(v), w.specs[p], w.name(n), info_str(i)
        meth = c.registerAdapter if k == "regA" else c.registerSubscriptionAdapter
        if style == "infer":
            set_implemented(f, prov)
            f.__component_adapts__ = env.req(req, "plain")
            return meth(f, name=name, info=info, event=ev)
        if k == "regA" and style in ("named", "inferall") and name != "":
            named(name)(f)
            try:
                if style == "inferall":
                    set_implemented(f, prov)
                    f.__component_adapts__ = env.req(req, "plain")
                    return meth(f, info=info, event=ev)
                return meth(f, env.req(req, "plain"), prov, info=info, event=ev)
            finally:
                del f.__component_name__
        return meth(f, env.req(req, style), prov, name, info, ev)
    if k in ("unregA", "unregS"):
        _, v, req, p, n, style = op
        f, prov, name = env.comp(v), w.specs[p], w.name(n)
        meth = c.unregisterAdapter if k == "unregA" else c.unregisterSubscriptionAdapter
        if style == "infer" and f is not None:
            set_implemented(f, prov)
            f.__component_adapts__ = env.req(req, "plain")
            return meth(f, name=name)
        return meth(f, env.req(req, style), prov, name)
    if k == "regH":
        _, v, req, n, i, style = op
        f, name, info = env.comp(v), w.name(n), info_str(i)
        if style == "infer":
            f.__component_adapts__ = env.req(req, "plain")
            return c.registerHandler(f, name=name, info=info, event=ev)
        return c.registerHandler(f, env.req(req, style), name, info, ev)
    if k == "unregH":
        _, v, req, n, style = op
        f, name = env.comp(v), w.name(n)
        if style == "infer" and f is not None:
            f.__component_adapts__ = env.req(req, "plain")
            return c.unregisterHandler(f, name=name)
        return c.unregisterHandler(f, env.req(req, style), name)
    raise RuntimeError("unknown op %r" % (k,))


def do_query(env, q, on):
    w, c = env.world, env.regs[on]
    k = q[0]
    default = object()
    if k == "util":
        r = c.queryUtility(w.specs[q[1]], w.name(q[2]), default)
        return None if r is default else env.cvq(r)[0]
    if k == "utilsFor":
        return sorted([w.name_id(n), env.cvq(v)[0]] for n, v in c.getUtilitiesFor(w.specs[q[1]]))
    if k == "allUtils":
        return [env.cvq(v) for v in c.getAllUtilitiesRegisteredFor(w.specs[q[1]])]
    if k == "adapter":
        r = c.queryAdapter(w.objects[q[1]], w.specs[q[2]], w.name(q[3]), default)
        return None if r is default else r
    if k == "multi":
        r = c.queryMultiAdapter([w.objects[j] for j in q[1]], w.specs[q[2]], w.name(q[3]), default)
        return None if r is default else r
    if k == "getAdapters":
        return sorted([w.name_id(n), r] for n, r in c.getAdapters([w.objects[j] for j in q[1]], w.specs[q[2]]))
    if k == "subscribers":
        before = len(env.calls)
        res = c.subscribers([w.objects[j] for j in q[1]], w.specs[q[2]])
        return [list(res), env.calls[before:]]
    if k == "handle":
        before = len(env.calls)
        c.handle(*[w.objects[j] for j in q[1]])
        return env.calls[before:]
    raise RuntimeError("unknown query %r" % (k,))


def run_case(case):
    env = Env(case)
    ZR.notify = env.notify
    steps = []
    for st in case["steps"]:
        env.events = []
        env.exc = False
        on = st.get("on", 0)
        if st["op"][0] == "newc":
            on = len(env.regs)
        if on < len(env.regs):
            env.reg = env.regs[on]
        try:
            r = do_op(env, st["op"])
            ret = ("none" if r is None else bool(r) if isinstance(r, bool) else
                   ["dict"] + r[1] if isinstance(r, tuple) and r[0] == "dict" else "exc:nonbool")
        except TypeError:
            ret = "TypeError"
        except Exception as e:  # noqa
            ret = "exc:" + type(e).__name__
        events = env.events
        env.events = []
        ob = {"ret": ret, "events": events, "on": on}
        try:
            c = env.reg = env.regs[on]
            ob["lu"] = [env.rec(r) for r in c.registeredUtilities()]
            ob["la"] = [env.rec(r) for r in c.registeredAdapters()]
            ob["ls"] = [env.rec(r) for r in c.registeredSubscriptionAdapters()]
            ob["lh"] = [env.rec(r) for r in c.registeredHandlers()]
            pr = c.rebuildUtilityRegistryFromLocalCache()
            ob["probe"] = [pr["needed_registered"], pr["did_not_register"], pr["needed_subscribed"],
                           pr["did_not_subscribe"]]
            qs = st.get("queries", [])
            qon = st.get("qon") or [on] * len(qs)
            ob["qon"] = qon
            ob["answers"] = [do_query(env, q, r_) for q, r_ in zip(qs, qon)]
            if env.events:          # listings / probe / queries must not emit events
                env.exc = True
        except Exception as e:  # noqa
            ob["error"] = "%s: %s" % (type(e).__name__, e)
            env.exc = True
        ob["exc"] = bool(env.exc or (isinstance(ret, str) and ret.startswith("exc:")))
        steps.append(ob)
    w = env.world
    return {"specs": w.observed_specs(), "obj_provides": [w.spec_id(R.providedBy(o)) for o in w.objects],
            "steps": steps}


def main():
    payload = _boot.read_payload()
    orig = ZR.notify
    out = []
    for case in payload["cases"]:
        try:
            out.append(run_case(case))
        except Exception as e:  # noqa
            out.append({"error": "%s: %s" % (type(e).__name__, e)})
        finally:
            ZR.notify = orig
    _boot.write_result({"obs": out})


main()
