"""C08 driver: registry histories in which every entry point is called for the same keys.

Same op language as reg_common, plus symbolic required specifications: an entry {"prov": j} in a
``required`` list (or as lookup1's required) stands for ``providedBy(objects[j])`` -- the id of
that specification is only known once the world exists (Provides of directly-providing instances,
the specification of a ``super`` proxy).  The resolved ops are reported back so that the Coq case
is built from exactly what was executed.
"""
import _boot
import reg_common as R


# Non-string name stand-ins.  reg_common knows "X" -> 42 (truthy); a FALSY non-string takes the
# "if name:" / PyObject_IsTrue(name) branch of _getcache that the empty string takes, so a missing
# isinstance check shows only there and only with a warm cache.  All are hashable.
NONSTRINGS = {"X": 42, "X0": b"", "X1": 0, "X2": (), "X3": None, "X4": b"n1", "X5": 0.0}


class Falsy:
    """an adapter / subscriber that is false without being None (an empty container-like component)"""

    def __len__(self):
        return 0


FALSY_RESULTS = [0, (), "", 0.0, Falsy()]


def oracle_call8(vid, obj_ids):
    """What a registered value returns when called (mirrors Tie.C08.call8): None, a FALSY result that is not
    None (all encoded as the number 0) or a number >= 1000."""
    s = vid + sum(obj_ids)
    if s % 3 == 0:
        return None
    if s % 5 == 1:
        return FALSY_RESULTS[s % len(FALSY_RESULTS)]
    return R.oracle_call(vid, obj_ids)


class V8(R.V):
    __slots__ = ()

    def __call__(self, *objs):
        ids = [self.world.obj_id(o) for o in objs]
        self.world.calls.append((self.vid, ids))
        return oracle_call8(self.vid, ids)


def canon(a):
    """an answer as a list of ints: the falsy results are 0; anything else that is not an int (a None among
    subscribers' results ...) makes the whole answer [3, 1]"""
    out = []
    for x in a:
        if type(x) is int:
            out.append(x)
        elif any(x is f for f in FALSY_RESULTS) or (type(x) in (tuple, str, float) and not x):
            out.append(0)
        else:
            return [3, 1]
    return out


class World8(R.World):
    @staticmethod
    def name(n):
        if isinstance(n, str) and n in NONSTRINGS:
            return NONSTRINGS[n]
        return R.World.name(n)

    def value(self, v):
        if v is None:
            return None
        key = (v[0], v[1])
        if key not in self.values:
            self.values[key] = V8(v[0], v[1], self)
        return self.values[key]


WORLD_STEPS = ("classImplements", "classImplementsFirst", "classImplementsOnly")


def resolve_op(w, op):
    def one(x):
        if isinstance(x, dict):
            return w.spec_id(R.providedBy(w.objects[x["prov"]]))
        return x

    op = list(op)
    k = op[0]
    if k in ("lookup", "lookupAll", "names", "subscriptions"):
        op[2] = [one(x) for x in op[2]]
    elif k == "lookup1":
        op[2] = one(op[2])
    return op


def world_step(w, op):
    """An in-place change of a required-side specification: [kind, class spec id, interface id]."""
    from zope.interface import classImplements, classImplementsFirst, classImplementsOnly
    fn = {"classImplements": classImplements, "classImplementsFirst": classImplementsFirst,
          "classImplementsOnly": classImplementsOnly}[op[0]]
    fn(w.classes[op[1]], w.specs[op[2]])


def snapshot(w, changed):
    # the objects' declarations first: the one of a super proxy is rebuilt after a change of its class and
    # enters the specification table here
    provides = [w.spec_id(R.providedBy(o)) for o in w.objects]
    return {"specs": w.observed_specs(), "changed": changed, "obj_provides": provides}


def run_case(case):
    """-> phases (the world as observed while each stretch of the history ran, and which specification was
    changed in place to get there), the executed ops (symbolic requireds resolved; world steps kept in place)
    and one answer per registry op."""
    w = World8(case)
    phases, ops_out, answers = [], [], []
    changed = []
    for op in case["ops"]:
        if op[0] in WORLD_STEPS:
            phases.append(snapshot(w, changed))
            world_step(w, op)
            changed = [op[1]]
            ops_out.append(list(op))
            continue
        rop = resolve_op(w, op)
        a = R.run_ops(w, [rop])[0]
        answers.append(canon(a))
        ops_out.append(rop)
    phases.append(snapshot(w, changed))
    return {"phases": phases, "ops": ops_out, "answers": answers,
            "specs": phases[-1]["specs"], "obj_provides": phases[-1]["obj_provides"]}


payload = _boot.read_payload()
out = []
for case in payload["cases"]:
    try:
        out.append(run_case(case))
    except Exception as e:  # noqa
        out.append({"error": "%s: %s" % (type(e).__name__, e)})
_boot.write_result({"obs": out})
