"""C08 driver: registry histories in which every entry point is called for the same keys.

Same op language as reg_common, plus symbolic required specifications: an entry {"prov": j} in a
``required`` list (or as lookup1's required) stands for ``providedBy(objects[j])`` -- the id of
that specification is only known once the world exists (Provides of directly-providing instances,
the specification of a ``super`` proxy).  The resolved ops are reported back so that the Coq case
is built from exactly what was executed.
"""
import _boot
import reg_common as R


# Non-string name stand-ins.  reg_common knows "X" -> 42 (truthy); a FALSY non-string takes the
# "if name:" / PyObject_IsTrue(name) branch of _getcache that the empty string takes, so a missing
# isinstance check shows only there and only with a warm cache.  All are hashable.
NONSTRINGS = {"X": 42, "X0": b"", "X1": 0, "X2": (), "X3": None, "X4": b"n1", "X5": 0.0}


class Falsy:
    """an adapter / subscriber that is false without being None (an empty container-like component)"""

    def __len__(self):
        return 0


FALSY_RESULTS = [0, (), "", 0.0, Falsy()]


def oracle_call8(vid, obj_ids):
    """What a registered value returns when called (mirrors Tie.C08.call8): None, a FALSY result that is not
    None (all encoded as the number 0) or a number >= 1000."""
    s = vid + sum(obj_ids)
    if s % 3 == 0:
        return None
    if s % 5 == 1:
        return FALSY_RESULTS[s % len(FALSY_RESULTS)]
    return R.oracle_call(vid, obj_ids)


class V8(R.V):
    __slots__ = ()

    def __call__(self, *objs):
        ids = [self.world.obj_id(o) for o in objs]
        self.world.calls.append((self.vid, ids))
        return oracle_call8(self.vid, ids)


def canon(a):
    """an answer as a list of ints: the falsy results are 0; anything else that is not an int (a None among
    subscribers' results ...) makes the whole answer [3, 1]"""
    out = []
    for x in a:
        if type(x) is int:
            out.append(x)
        elif any(x is f for f in FALSY_RESULTS) or (type(x) in (tuple, str, float) and not x):
            out.append(0)
        else:
            return [3, 1]
    return out


class World8(R.World):
    @staticmethod
    def name(n):
        if isinstance(n, str) and n in NONSTRINGS:
            return NONSTRINGS[n]
        return R.World.name(n)

    def value(self, v):
        if v is None:
            return None
        key = (v[0], v[1])
        if key not in self.values:
            self.values[key] = V8(v[0], v[1], self)
        return self.values[key]


WORLD_STEPS = ("classImplements", "classImplementsFirst", "classImplementsOnly")


def resolve_op(w, op):
    def one(x):
        if isinstance(x, dict):
            return w.spec_id(R.providedBy(w.objects[x["prov"]]))
        return x

    op = list(op)
    k = op[0]
    if k in ("lookup", "lookupAll", "names", "subscriptions"):
        op[2] = [one(x) for x in op[2]]
    elif k == "lookup1":
        op[2] = one(op[2])
    return op


# Python-level signatures of the entry points (IAdapterRegistry): a call may pass the first [pos] arguments
# positionally and the others BY KEYWORD, and may leave [default] out (then None is the default)
SIGS = {"lookup": ["required", "provided", "name", "default"], "lookup1": ["required", "provided", "name", "default"],
        "queryAdapter": ["object", "provided", "name", "default"], "adapter_hook": ["provided", "object", "name", "default"],
        "queryMultiAdapter": ["objects", "provided", "name", "default"], "lookupAll": ["required", "provided"],
        "names": ["required", "provided"], "subscriptions": ["required", "provided"], "subscribers": ["objects", "provided"]}


def run_kw(w, op, how):
    """the entry-point call of [op] with keyword arguments: how = {"pos": n positional arguments, "nodefault": bool};
    same answer encoding as reg_common.run_op"""
    k = op[0]
    r = w.regs[op[1]]
    default = object()
    vals = {"provided": w.prov(op[3])}
    if k in ("lookup", "lookupAll", "names", "subscriptions"):
        vals["required"] = w.req(op[2])
    elif k == "lookup1":
        vals["required"] = w.specs[op[2]]
    elif k in ("queryAdapter", "adapter_hook"):
        vals["object"] = w.objects[op[2]]
    else:
        vals["objects"] = [w.objects[i] for i in op[2]]
    sig = list(SIGS[k])
    if "name" in sig:
        vals["name"] = w.name(op[4])
        vals["default"] = default
        if how.get("nodefault"):
            sig.remove("default")
            default = None
    pos = min(how.get("pos", 0), len(sig))
    before = len(w.calls)
    res = getattr(r, k)(*[vals[a] for a in sig[:pos]], **{a: vals[a] for a in sig[pos:]})
    if k in ("lookup", "lookup1"):
        return R.enc_res_value(res, default)
    if k in ("queryAdapter", "adapter_hook", "queryMultiAdapter"):
        return R.enc_res_nat(res, default)
    if k == "lookupAll":
        items = sorted((w.name_id(n), v.vid) for n, v in res)
        return [x for it in items for x in it]
    if k == "names":
        return sorted(w.name_id(n) for n in res)
    if k == "subscriptions":
        return [v.vid for v in res]
    return list(res) + [R.MARK] + [c[0] for c in w.calls[before:]]


def run_one(w, rop):
    """one registry op -> its answer; a trailing {"pos": .., "nodefault": ..} asks for the keyword spelling"""
    if isinstance(rop[-1], dict) and rop[0] in SIGS:
        try:
            return run_kw(w, rop[:-1], rop[-1])
        except ValueError:
            return [2]
        except Exception as e:  # noqa
            return [3, sum(map(ord, type(e).__name__)) % 1000]
    return R.run_ops(w, [rop])[0]


def world_step(w, op):
    """An in-place change of a required-side specification: [kind, class spec id, interface id]."""
    from zope.interface import classImplements, classImplementsFirst, classImplementsOnly
    fn = {"classImplements": classImplements, "classImplementsFirst": classImplementsFirst,
          "classImplementsOnly": classImplementsOnly}[op[0]]
    fn(w.classes[op[1]], w.specs[op[2]])


def snapshot(w, changed):
    # the objects' declarations first: the one of a super proxy is rebuilt after a change of its class and
    # enters the specification table here
    provides = [w.spec_id(R.providedBy(o)) for o in w.objects]
    return {"specs": w.observed_specs(), "changed": changed, "obj_provides": provides}


def run_case(case):
    """-> phases (the world as observed while each stretch of the history ran, and which specification was
    changed in place to get there), the executed ops (symbolic requireds resolved; world steps kept in place)
    and one answer per registry op."""
    w = World8(case)
    phases, ops_out, answers = [], [], []
    changed = []
    for op in case["ops"]:
        if op[0] in WORLD_STEPS:
            phases.append(snapshot(w, changed))
            world_step(w, op)
            changed = [op[1]]
            ops_out.append(list(op))
            continue
        rop = resolve_op(w, op)
        a = run_one(w, rop)
        answers.append(canon(a))
        ops_out.append(rop)
    phases.append(snapshot(w, changed))
    return {"phases": phases, "ops": ops_out, "answers": answers,
            "specs": phases[-1]["specs"], "obj_provides": phases[-1]["obj_provides"]}


payload = _boot.read_payload()
out = []
for case in payload["cases"]:
    try:
        out.append(run_case(case))
    except Exception as e:  # noqa
        out.append({"error": "%s: %s" % (type(e).__name__, e)})
_boot.write_result({"obs": out})
