"""C09 driver: registry histories (interpreter shared with the REG fidelity test) plus

  * for every ``rebuild`` of the history the raw enumeration order of allRegistrations() /
    allSubscriptions() immediately before it (rebuild() replays in exactly that order);
  * a replay stream: the final queries answered by registry ``r0``, then a second, empty registry
    of the same class receives ``register(*t)`` for every tuple of ``r0.allRegistrations()`` and
    ``subscribe(*t)`` for every tuple of ``r0.allSubscriptions()`` and answers the same queries.

Only ints / lists in the output; values are [vid, veq]; exceptions are data.
"""
import _boot
import reg_common as R


class FV(R.V):
    """registered values of which some are FALSY (vid divisible by 3): truthiness is no part of the
    bookkeeping property, ``None`` alone means "nothing registered" """
    __slots__ = ()

    def __bool__(self):
        return self.vid % 3 != 0


R.V = FV      # World.value() builds its values from the module global


def raw_listing(w, reg):
    regs = []
    for req, prov, name, val in reg.allRegistrations():
        regs.append([[w.spec_id(x) for x in req], w.spec_id(prov), w.name_id(name), [val.vid, val.veq]])
    subs = []
    for req, prov, val in reg.allSubscriptions():
        subs.append([[w.spec_id(x) for x in req], None if prov is None else w.spec_id(prov), [val.vid, val.veq]])
    return {"regs": regs, "subs": subs}


def canon_dict(w, d, level, provided_level, subs):
    """Nested dictionaries in dict order: {"n": [[key, subtree], ...]}; anything that is not a dict is a
    payload: {"v": [vid, veq]} (adapters) or {"l": [[vid, veq], ...]} (subscribers).  Keys: spec ids
    above the provided level, there spec id (adapters) / 0 for None, id + 1 otherwise (subscribers),
    below it the name id.  Deliberately private layout: this is a refinement check."""
    if not isinstance(d, dict):
        if isinstance(d, tuple):
            return {"l": [[x.vid, x.veq] for x in d]}
        return {"v": [d.vid, d.veq]}
    out = []
    for k, sub in d.items():
        if level < provided_level:
            kk = w.spec_id(k)
        elif level == provided_level:
            kk = (0 if k is None else w.spec_id(k) + 1) if subs else w.spec_id(k)
        else:
            kk = w.name_id(k)
        out.append([kk, canon_dict(w, sub, level + 1, provided_level, subs)])
    return {"n": out}


def layout(w, reg):
    return {"ad": [canon_dict(w, c, 0, i, False) for i, c in enumerate(reg._adapters)],
            "su": [canon_dict(w, c, 0, i, True) for i, c in enumerate(reg._subscribers)],
            "pc": sorted([w.spec_id(k), n] for k, n in reg._provided.items())}


MUTATORS = ("register", "unregister", "subscribe", "unsubscribe", "rebuild")


def retarget(op, r2):
    op = list(op)
    op[1] = r2
    return op


def run_case(case):
    w = R.World(case)
    answers, orders, layouts = [], [], []
    for op in case["ops"]:
        if op[0] == "rebuild":
            orders.append(raw_listing(w, w.regs[op[1]]))
        answers.extend(R.run_ops(w, [op]))
        if op[0] in MUTATORS:
            layouts.append(layout(w, w.regs[op[1]]))
    rp = case["replay"]
    r0 = w.regs[rp["reg"]]
    a1 = R.run_ops(w, rp["queries"])
    listing = raw_listing(w, r0)
    second = type(r0)()
    for t in list(r0.allRegistrations()):
        second.register(*t)
    for t in list(r0.allSubscriptions()):
        second.subscribe(*t)
    w.regs.append(second)
    r2 = len(w.regs) - 1
    a2 = R.run_ops(w, [retarget(q, r2) for q in rp["queries"]])
    return {"specs": w.observed_specs(), "answers": answers, "orders": orders, "layouts": layouts,
            "replay": {"flavour": "push" if type(r0) is R.AdapterRegistry else "verifying",
                       "listing": listing, "a1": a1, "a2": a2, "layout": layout(w, second)}}


payload = _boot.read_payload()
out = []
for case in payload["cases"]:
    try:
        out.append(run_case(case))
    except Exception as e:  # noqa
        try:
            specs = R.World(dict(case, ops=[], objects=case.get("objects", []))).observed_specs()
        except Exception:  # noqa
            specs = []
        out.append({"error": "%s: %s" % (type(e).__name__, e), "specs": specs})
_boot.write_result({"obs": out})
