"""C10 driver: interpret one API *program* against the zope.interface of the current mode.

The driver is single-mode (ZI_MODE = c | py); harness/props/c10.py runs it in both modes and
compares the traces op by op.

Case (JSON):
  {"world": W, "ops": [op ...]}
  W = {"specs": [...], "objects": [...]            as harness/drivers/reg_common.py (S0 = Interface)
       "xifaces": [{"name", "module", "bases": [xiface ids], "adapt": A, "other": bool}]
                    A = None | ["none"] | ["value", k] | ["raise", exc] | ["delegate"]
                    (custom __adapt__ through @interfacemethod; "other" adds a second interfacemethod)
       "odd": [odd object descriptions, see make_odd]}
Refs (arguments of ops):
  ["S", k] specification k of the world      ["X", k] extra interface k     ["N"] None
  ["o", j] object j                          ["c", k] the class of class-specification k
  ["odd", k] odd object k                    ["oddc", k] its class
  ["F", k] foreign value k (FOREIGN table)   ["P", ref] providedBy(ref) (evaluated when used)
  ["IB", ref] implementedBy(ref)             ["sup", c, j] super(class c, object j)
Ops: see ``do`` (declarations, specification queries, comparison / hash / sort, adaptation,
adapter_hooks, registry mutation and every lookup entry point incl. odd arguments, attribute
protocol reads, direct two-argument ``descriptor.__get__`` calls, bare instances of the documented
base classes).

Observation per case:
  {"tokens": [token ...]    one canonical token (JSON value without reprs / addresses) per op;
                            an exception is "EXC:<class name>"
   "rows":   [row ...]}     abstract descriptions + outcomes of the twin kernels exercised by the ops
                            (consumed by coq/Tie/C10.v; see ``Rows``)
"""
import signal
import types

import _boot
import reg_common as RC
from zope.interface import Interface, implementedBy, providedBy, implementer, implementer_only
from zope.interface import classImplements, classImplementsOnly, classImplementsFirst
from zope.interface import directlyProvides, alsoProvides, noLongerProvides, directlyProvidedBy, provider
from zope.interface.interface import InterfaceClass, SpecificationBase, Specification, adapter_hooks
from zope.interface.interface import interfacemethod
from zope.interface.declarations import Implements, Declaration, ClassProvidesBase
from zope.interface.declarations import ObjectSpecificationDescriptor, getObjectSpecification
from zope.interface.adapter import AdapterRegistry, VerifyingAdapterRegistry

EXCS = {"AttributeError": AttributeError, "ValueError": ValueError, "KeyError": KeyError,
        "TypeError": TypeError, "RuntimeError": RuntimeError}


class OpTimeout(BaseException):
    pass


def _on_alarm(signum, frame):
    raise OpTimeout()


signal.signal(signal.SIGALRM, _on_alarm)


class Val:
    """a small result value (what a hook / __conform__ / __adapt__ returns)"""

    def __init__(self, k):
        self.k = k


class FVal(Val):
    """a result that is falsy but not None (``__bool__``)"""

    def __bool__(self):
        return False


class LVal(Val):
    """a result that is falsy but not None (an empty container: ``__len__`` is 0)"""

    def __len__(self):
        return 0


class FalsyV(RC.V):
    """a registered value that is falsy"""
    __slots__ = ()

    def __bool__(self):
        return False


class ZeroV(RC.V):
    """a factory whose non-None results are the falsy 0"""
    __slots__ = ()

    def __call__(self, *objs):
        r = RC.V.__call__(self, *objs)
        return None if r is None else 0


class HookedSpecBase(Declaration):
    """required specifications that run application code while a lookup uses them"""
    hook = None

    def fire(self):
        h, self.hook = self.hook, None
        if h is not None:
            h()


class SubscribeSpec(HookedSpecBase):
    def subscribe(self, dependent):
        Declaration.subscribe(self, dependent)
        self.fire()


class WeakrefSpec(HookedSpecBase):
    def weakref(self, callback=None):
        self.fire()
        return Declaration.weakref(self, callback)


class SroSpec(HookedSpecBase):
    armed = False

    @property
    def __sro__(self):
        if self.armed:
            self.fire()
        return self.__dict__["_sro"]

    @__sro__.setter
    def __sro__(self, v):
        self.__dict__["_sro"] = v


class Provider:
    """an object that says itself what it provides"""

    def __init__(self, spec):
        self.__providedBy__ = spec


class Named:
    """a foreign comparand with __name__ / __module__"""

    def __init__(self, name, module):
        self.__name__ = name
        self.__module__ = module


class ModRaises:
    __name__ = "I1"

    @property
    def __module__(self):
        raise ValueError("module")


class Anon:
    __slots__ = ()

    def __getattribute__(self, n):
        if n in ("__name__", "__module__"):
            raise AttributeError(n)
        return object.__getattribute__(self, n)


class UnhashableNamed(list):
    __name__ = "I1"
    __module__ = "verif.world"


class PartialSpec:
    """has the one attribute providedBy() probes for, nothing else"""
    extends = 1


class PartialSpecCall:
    extends = 1
    _implied = {}

    def __call__(self, x):
        return True


class ExtendsRaises:
    @property
    def extends(self):
        raise ValueError("extends")


def _function(x=None):
    return None


def foreign_table():
    return [5, "str", [], object(), Named("I1", "verif.world"), Named(5, "verif.world"), Named("I1", 5),
            _function, types.ModuleType("verif_mod"), ModRaises(), 3.5, UnhashableNamed(), Anon(),
            Named("I2", 5), Named("", ""), (1, 2)]


N_FOREIGN = 16


def raiser(excname):
    def get(self):
        raise EXCS[excname](excname)
    return property(get)


class World(RC.World):
    def __init__(self, desc):
        RC.World.__init__(self, desc)
        self.vals = {}
        self.foreign = foreign_table()
        self.xifaces = []
        self.adapt_log = []
        for k, x in enumerate(desc.get("xifaces", [])):
            self.xifaces.append(self.make_xiface(k, x))
        self.odd = []
        self.oddc = []
        for k, d in enumerate(desc.get("odd", [])):
            ob, cls = self.make_odd(k, d)
            self.odd.append(ob)
            self.oddc.append(cls)
        self.keep = []

    def val(self, k):
        """result values: 100..199 falsy through __bool__, 200..299 falsy through __len__,
        300 -> 0, 301 -> '', 302 -> (); anything else an ordinary object"""
        if k == 300:
            return 0
        if k == 301:
            return ""
        if k == 302:
            return ()
        if k not in self.vals:
            self.vals[k] = FVal(k) if 100 <= k < 200 else LVal(k) if 200 <= k < 300 else Val(k)
        return self.vals[k]

    def value(self, v):
        """registered values (see reg_common.World.value): vid 4 is a factory whose results are the
        falsy 0, vid 5 is itself falsy"""
        if v is None:
            return None
        key = (v[0], v[1])
        if key not in self.values:
            cls = ZeroV if v[0] == 4 else FalsyV if v[0] == 5 else RC.V
            self.values[key] = cls(v[0], v[1], self)
        return self.values[key]

    # ---- extra interfaces: names / modules for comparison, custom __adapt__ chains
    def make_xiface(self, k, x):
        """a class statement (the public way to write an interface, incl. @interfacemethod) when the
        name is an identifier; otherwise types.new_class, which computes the metaclass the same way"""
        bases = tuple(self.xifaces[b] for b in x["bases"]) or (Interface,)
        ad = x.get("adapt")
        w = self
        name = x["name"]

        def custom_adapt(self, obj):
            w.adapt_log.append(k)
            if ad[0] == "none":
                return None
            if ad[0] == "value":
                return w.val(ad[1])
            raise EXCS[ad[1]]("adapt")

        def log(self):
            w.adapt_log.append(k)

        if not (name.isidentifier() and name not in ("None", "True", "False")):
            def body(ns):
                ns["__module__"] = x["module"]
            return types.new_class(name, bases, {}, body)
        src = ["class %s(*bases):" % name, "    __module__ = module"]
        if ad is not None:
            src += ["    @interfacemethod", "    def __adapt__(self, obj):"]
            if ad[0] == "delegate":
                src += ["        log(self)", "        return super().__adapt__(obj)"]
            else:
                src += ["        return custom_adapt(self, obj)"]
        if x.get("other"):
            src += ["    @interfacemethod", "    def extra_method(self):", "        return 1"]
        if x.get("provby"):
            src += ["    @interfacemethod", "    def providedBy(self, obj):", "        return True"]
        ns = {"bases": bases, "module": x["module"], "interfacemethod": interfacemethod,
              "custom_adapt": custom_adapt, "log": log}
        exec("\n".join(src) + "\n", ns)
        return ns[name]

    # ---- odd objects
    def value_of(self, v):
        k = v[0]
        if k == "int":
            return 5
        if k == "str":
            return "x"
        if k == "none":
            return None
        if k == "partial":
            return PartialSpec()
        if k == "partial_call":
            return PartialSpecCall()
        if k == "extends_raises":
            return ExtendsRaises()
        if k == "call_badbool":
            return CallBadBool()
        if k == "bare_sb":
            return SpecificationBase()
        if k == "spec":       # a real specification of the world
            return self.specs[v[1]]
        if k == "provides":   # a real instance declaration
            class _T:
                pass
            t = _T()
            directlyProvides(t, *[self.specs[i] for i in v[1]])
            return t.__provides__
        if k == "decl":
            return Declaration(*[self.specs[i] for i in v[1]])
        raise ValueError(v)

    def make_odd(self, k, d):
        """d = {"base": class spec id or None, "declare": [iface ids] or None,
                "cattr": {attr: A}, "iattr": {attr: A}, "mattr": {attr: A}, "slots": bool,
                "conform": C}
           A = ["raise", exc] | ["val", V];  cattr on the class, iattr in the instance dict,
           mattr on the metaclass (what ``cls.attr`` gives)
           C = None | ["retnone"] | ["retvalue", k] | ["raise", exc] | ["getraise", exc] | ["getnone"]"""
        ns = {"__module__": "verif.odd"}
        if d.get("slots"):
            ns["__slots__"] = ()
        if d.get("falsy") == "bool":
            ns["__bool__"] = lambda self: False
        elif d.get("falsy") == "len":
            ns["__len__"] = lambda self: 0
        for attr, a in (d.get("cattr") or {}).items():
            ns[attr] = raiser(a[1]) if a[0] == "raise" else self.value_of(a[1])
        c = d.get("conform")
        w = self
        if c is not None:
            if c[0] == "getraise":
                ns["__conform__"] = raiser(c[1])
            elif c[0] == "getnone":
                ns["__conform__"] = None
            else:
                def __conform__(self, iface):
                    if c[0] == "retnone":
                        return None
                    if c[0] == "retvalue":
                        return w.val(c[1])
                    raise EXCS[c[1]]("conform")
                ns["__conform__"] = __conform__
        base = (self.classes[d["base"]],) if d.get("base") is not None else (object,)
        meta = type
        if d.get("mattr"):
            mns = {}
            for attr, a in d["mattr"].items():
                mns[attr] = raiser(a[1]) if a[0] == "raise" else self.value_of(a[1])
            meta = type("OddMeta%d" % k, (type,), mns)
        cls = meta("Odd%d" % k, base, ns)
        if d.get("declare") is not None:
            classImplements(cls, *[self.specs[i] for i in d["declare"]])
        ob = cls()
        for attr, a in (d.get("iattr") or {}).items():
            ob.__dict__[attr] = self.value_of(a[1])
        return ob, cls

    # ---- references
    def ref(self, r):
        k = r[0]
        if k == "S":
            return self.specs[r[1]]
        if k == "X":
            return self.xifaces[r[1]]
        if k == "N":
            return None
        if k == "o":
            return self.objects[r[1]]
        if k == "c":
            return self.classes[r[1]]
        if k == "odd":
            return self.odd[r[1]]
        if k == "oddc":
            return self.oddc[r[1]]
        if k == "F":
            return self.foreign[r[1]]
        if k == "P":
            return providedBy(self.ref(r[1]))
        if k == "IB":
            return implementedBy(self.ref(r[1]))
        if k == "sup":
            return super(self.classes[r[1]], self.objects[r[2]])
        if k == "val":
            return self.val(r[1])
        raise ValueError(r)

    # ---- canonical tokens
    def canon(self, x, depth=0):
        if x is None:
            return "None"
        if x is True:
            return "T"
        if x is False:
            return "F"
        if isinstance(x, int):
            return x if abs(x) < 10 ** 9 else "bigint"
        if isinstance(x, float):
            return "float"
        if isinstance(x, str):
            return "s:" + x[:24]
        if isinstance(x, Val):
            return "val%d" % x.k
        if isinstance(x, RC.V):
            return "v%d" % x.vid
        for j, o in enumerate(self.objects):
            if o is x:
                return "o%d" % j
        for j, o in enumerate(self.odd):
            if o is x:
                return "odd%d" % j
        for j, o in enumerate(self.oddc):
            if o is x:
                return "oddc%d" % j
        for j, o in enumerate(self.foreign):
            if o is x:
                return "F%d" % j
        if isinstance(x, type):
            for j, c in self.classes.items():
                if c is x:
                    return "c%d" % j
            return "type:" + x.__name__
        if depth > 3:
            return "deep"
        if isinstance(x, (tuple, list)):
            return [self.canon(y, depth + 1) for y in x][:40]
        if isinstance(x, InterfaceClass):
            for j, s in enumerate(self.specs):
                if s is x:
                    return "S%d" % j
            for j, s in enumerate(self.xifaces):
                if s is x:
                    return "X%d" % j
            return "iface:" + str(x.__name__)
        if isinstance(x, SpecificationBase):
            try:
                iro = [self.canon(i, depth + 1) for i in x.__iro__]
            except Exception as e:  # bare SpecificationBase
                return ["spec", type(x).__name__, "EXC:" + type(e).__name__]
            if isinstance(x, Implements):
                return ["impl", str(x.__name__), iro]
            return ["spec", type(x).__name__, iro]
        if isinstance(x, super):
            return "super"
        return "obj:" + type(x).__name__


def tok_exc(e):
    return "EXC:" + type(e).__name__


CMP_OPS = [lambda a, b: a < b, lambda a, b: a <= b, lambda a, b: a > b, lambda a, b: a >= b,
           lambda a, b: a == b, lambda a, b: a != b]


def cmp_row(a, b):
    out = []
    for f in CMP_OPS:
        try:
            r = f(a, b)
        except Exception as e:
            out.append(tok_exc(e))
            continue
        out.append(1 if r is True else 0 if r is False else "nonbool")
    return out


DECLS = {
    "classImplements": classImplements, "classImplementsOnly": classImplementsOnly,
    "directlyProvides": directlyProvides, "alsoProvides": alsoProvides,
}


class BadBool:
    def __bool__(self):
        raise ValueError("bool")


class CallBadBool:
    """a foreign declaration (no _implied) whose answer has a truth value that raises"""

    def __call__(self, spec):
        return BadBool()


def lazy_raise(items):
    for x in items:
        yield x
    raise ValueError("lazy required")


def inst_of(cls):
    return cls()


def lazy(items):
    for x in items:
        yield x


class Interp:
    def __init__(self, w):
        self.w = w
        self.rows = []
        self.default = RC.MARK
        self.dflt = object()

    def run(self, ops):
        out = []
        for n, op in enumerate(ops):
            signal.alarm(10)
            try:
                t = self.do(op, n)
            except RecursionError:
                t = "EXC:RecursionError"
            except OpTimeout:
                t = "TIMEOUT"
            except Exception as e:
                t = tok_exc(e)
            finally:
                signal.alarm(0)
            out.append(t)
        return out

    def refs(self, l):
        return [self.w.ref(r) for r in l]

    def do(self, op, n):
        w = self.w
        k = op[0]
        C = w.canon
        # ---------------- declarations
        if k == "decl":
            how, target, specs = op[1], w.ref(op[2]), self.refs(op[3])
            if how in DECLS:
                DECLS[how](target, *specs)
            elif how == "classImplementsFirst":
                classImplementsFirst(target, specs[0])
            elif how == "noLongerProvides":
                noLongerProvides(target, specs[0])
            elif how == "implementer":
                implementer(*specs)(target)
            elif how == "implementer_only":
                implementer_only(*specs)(target)
            elif how == "provider":
                provider(*specs)(target)
            else:
                raise RuntimeError(how)
            return "ok"
        # ---------------- specification queries
        if k == "providedBy":
            ob = w.ref(op[1])
            Rows.provided_by(self, n, ob)
            return C(providedBy(ob))
        if k == "implementedBy":
            cls = w.ref(op[1])
            Rows.implemented_by(self, n, cls)
            r = implementedBy(cls)
            w.keep.append(r)
            return C(r)
        if k == "getObjectSpecification":
            return C(getObjectSpecification(w.ref(op[1])))
        if k == "directlyProvidedBy":
            return C(directlyProvidedBy(w.ref(op[1])))
        if k == "m":
            meth, spec, arg = op[1], w.ref(op[2]), w.ref(op[3])
            if meth == "call":
                Rows.sb_extends(self, n, spec, arg)
                return C(Specification.__call__(spec, arg))
            if meth == "isOrExtends":
                Rows.sb_extends(self, n, spec, arg)
                return C(spec.isOrExtends(arg))
            if meth == "extends":
                return C(spec.extends(arg))
            if meth == "extends_nonstrict":
                return C(spec.extends(arg, False))
            if meth == "isEqualOrExtendedBy":
                return C(spec.isEqualOrExtendedBy(arg))
            if meth == "providedBy":
                return C(spec.providedBy(arg))
            if meth == "implementedBy":
                return C(spec.implementedBy(arg))
            raise RuntimeError(meth)
        if k == "attr":
            spec, what = w.ref(op[1]), op[2]
            if what == "flattened":
                return C(list(spec.flattened()))
            if what == "iter":
                return C(list(iter(spec)))
            if what == "interfaces":
                return C(list(spec.interfaces()))
            return C(getattr(spec, what))
        if k == "in":
            return C(w.ref(op[1]) in w.ref(op[2]))
        if k == "getattr":
            ob, name = w.ref(op[1]), op[2]
            Rows.descr_get(self, n, ob, name)
            return C(getattr(ob, name))
        if k == "bare":
            return self.bare(op, n)
        if k == "reent":
            return self.reent(op)
        if k == "metaeq":
            return self.metaeq(op)
        if k == "life":
            return self.life(op)
        if k == "newcomp":
            from zope.interface.registry import Components
            if not hasattr(w, "comps"):
                w.comps = []
            w.comps.append(Components("comp%d" % len(w.comps), tuple(w.comps[b] for b in op[1])))
            return "ok"
        if k == "comp":
            return self.comp(op)
        if k == "m_kw":
            # a specification method called with its argument by keyword
            meth, spec, arg = op[1], w.ref(op[2]), w.ref(op[3])
            kw = {"isOrExtends": "interface", "providedBy": "ob", "implementedBy": "cls", "extends": "interface"}[meth]
            return C(getattr(spec, meth)(**{kw: arg}))
        if k == "icsub":
            return self.icsub(op)
        if k == "descr_get":
            # a direct two-argument call of the descriptor's __get__ (what inspect-like code does):
            # ["descr_get", "osd", inst | None, cls | None]
            # ["descr_get", "cpb", inst | None, cls | None, owner class whose ClassProvides is used]
            inst = None if op[2] is None else w.ref(op[2])
            cls = None if op[3] is None else w.ref(op[3])
            if inst is None and cls is None:
                raise RuntimeError("__get__(None, None) is a slot-wrapper matter")
            if op[1] == "osd":
                d = ObjectSpecificationDescriptor()
            else:
                owner = w.ref(op[4])
                implementedBy(owner)
                d = owner.__dict__["__provides__"]
            return C(d.__get__(inst, cls))
        # ---------------- comparison, hashing, sorting
        if k == "cmp":
            a, b = w.ref(op[1]), w.ref(op[2])
            rab, rba = cmp_row(a, b), cmp_row(b, a)
            Rows.cmp(self, n, op[1], op[2], a, b, rab, rba)
            return [rab, rba]
        if k == "hash":
            a, b = w.ref(op[1]), w.ref(op[2])
            ha, hb = hash(a), hash(b)
            own = None
            if isinstance(a, InterfaceClass):
                own = ha == hash((a.__name__, a.__module__))
                Rows.hash(self, n, a, ha)
            return [C(ha == hb), C(own), C(hash(a) == ha)]
        if k == "sort":
            items = self.refs(op[1])
            return C(sorted(items))
        if k == "dict":
            # use specifications as dictionary keys: equal ones collapse
            d = {}
            for i, x in enumerate(self.refs(op[1])):
                d.setdefault(x, i)
            return sorted(d.values())
        # ---------------- adaptation
        if k == "sethooks":
            del adapter_hooks[:]
            for h in op[1]:
                adapter_hooks.append(self.make_hook(h))
            return "ok"
        if k in ("call", "adapt"):
            iface, ob = w.ref(op[1]), w.ref(op[2])
            before = len(w.adapt_log)
            try:
                if k == "adapt":
                    r = iface.__adapt__(ob)
                elif op[3] == "falsy":
                    r = iface(ob, w.val(150))
                elif op[3]:
                    r = iface(ob, self.dflt)
                else:
                    r = iface(ob)
            except Exception as e:
                return [tok_exc(e), w.adapt_log[before:]]
            return ["default" if r is self.dflt else C(r), w.adapt_log[before:]]
        # ---------------- registries
        if k == "xreg":
            return self.xreg(op)
        if k in ("newreg", "setregbases", "register", "unregister", "subscribe", "unsubscribe", "rebuild",
                 "lookup", "lookup1", "lookupAll", "names", "subscriptions", "registered", "subscribed",
                 "allRegistrations", "allSubscriptions", "queryAdapter", "adapter_hook",
                 "queryMultiAdapter", "subscribers"):
            try:
                return RC.run_op(w, op)
            except ValueError:
                return "EXC:ValueError"
        raise RuntimeError("unknown op %r" % (op,))

    def bare(self, op, n):
        """bare instances of the documented base classes (slots never assigned):
        ["bare", what, class ref, interface ref]"""
        from zope.interface.interface import InterfaceBase
        w = self.w
        cls, iface = w.ref(op[2]), w.ref(op[3])
        what = op[1]

        def attempt(f):
            try:
                return w.canon(f())
            except Exception as e:
                return tok_exc(e)

        def code(f):
            try:
                f()
                return 1
            except AttributeError:
                return 2
            except TypeError:
                return 3
            except SystemError:
                return 4
            except Exception:
                return 5
        if what == "ib_hash_unhashable":
            ib = InterfaceBase([], "m")
            outs = [code(lambda: hash(ib)), code(lambda: hash(ib))]
            self.rows.append({"k": "hashfail", "op": n, "outs": outs})
            return outs
        if what == "ib_hash_unset":
            ib = InterfaceBase.__new__(InterfaceBase)
            return [code(lambda: hash(ib)), code(lambda: hash(ib))]
        if what in ("cpb_unset", "cpb_no_implements", "cpb_other_cls"):
            d = ClassProvidesBase()
            if what != "cpb_unset":
                d._cls = cls
            if what == "cpb_other_cls":
                d._implements = 5
            owner = cls if what != "cpb_other_cls" else object
            inst = cls()
            ids = Ids()
            out_cls = Rows.outcome(lambda: d.__get__(None, owner), ids)
            out_inst = Rows.outcome(lambda: d.__get__(inst, owner), ids)
            sid = ids.of(d)
            for is_inst, out in ((False, out_cls), (True, out_inst)):
                self.rows.append({"k": "cpb", "op": n, "cls_set": what != "cpb_unset", "same_cls": what == "cpb_no_implements",
                                  "inst": is_inst, "self": sid, "implements": ids.of(5) if what == "cpb_other_cls" else 0,
                                  "out": out})
            return [attempt(lambda: d.__get__(None, owner) is d), attempt(lambda: d.__get__(inst, owner))]
        if what == "sb_unset":
            sb = SpecificationBase()
            Rows.sb_extends(self, n, sb, iface)
            return [attempt(lambda: sb.isOrExtends(iface)), attempt(lambda: sb(iface)),
                    attempt(lambda: sb.providedBy(inst_of(cls))), attempt(lambda: sb.implementedBy(cls))]
        if what == "sb_implied_none":
            sp = Specification()
            sp._implied = None
            Rows.sb_extends(self, n, sp, iface)
            return [attempt(lambda: sp.isOrExtends(iface)), attempt(lambda: sp(iface))]
        raise RuntimeError(what)

    def reent(self, op):
        """a lookup during which the registry is mutated by the required specification, then the
        identical lookup again (twice, the second time with a default):
        ["reent", trigger, entry, r, [iface spec ids], provided ref, name, mutation, arity2]
           trigger  = "subscribe" | "weakref" | "sro"   what the lookup does to the specification
           entry    = lookup | lookup1 | queryAdapter | adapter_hook | queryMultiAdapter | lookupAll |
                      names | subscriptions | subscribers
           mutation = an op of reg_common.run_op (register / unregister / subscribe / unsubscribe /
                      setregbases / rebuild) or ["changed", r]"""
        w = self.w
        trigger, entry, r, bases, prov, name, mut, arity2 = op[1:9]
        reg = w.regs[r]
        fired = []

        def hook():
            fired.append("fired")
            try:
                if mut[0] == "changed":
                    w.regs[mut[1]].changed(None)
                else:
                    RC.run_op(w, mut)
            except Exception as e:
                fired.append(tok_exc(e))
        cls = {"subscribe": SubscribeSpec, "weakref": WeakrefSpec, "sro": SroSpec}[trigger]
        spec = cls(*[w.specs[b] for b in bases])
        spec.hook = hook
        if trigger == "sro":
            spec.armed = True
        ob = Provider(spec)
        w.keep.append((spec, ob))
        provided = w.ref(prov)
        other = w.specs[bases[0]] if bases else Interface
        req = (spec, other) if arity2 else (spec,)
        obs = [ob, w.objects[0]] if arity2 else [ob]

        def call(with_default):
            d = (self.dflt,) if with_default else ()
            if entry == "lookup":
                return reg.lookup(req, provided, name, *d)
            if entry == "lookup1":
                return reg.lookup1(spec, provided, name, *d)
            if entry == "queryAdapter":
                return reg.queryAdapter(ob, provided, name, *d)
            if entry == "adapter_hook":
                return reg.adapter_hook(provided, ob, name, *d)
            if entry == "queryMultiAdapter":
                return reg.queryMultiAdapter(obs, provided, name, *d)
            if entry == "lookupAll":
                return sorted([[w.canon(a), w.canon(b)] for a, b in reg.lookupAll(req, provided)], key=repr)
            if entry == "names":
                return sorted(reg.names(req, provided))
            if entry == "subscriptions":
                return list(reg.subscriptions(req, provided))
            if entry == "subscribers":
                return list(reg.subscribers(obs, provided))
            raise RuntimeError(entry)
        outs = []
        for with_default in (False, False, True):
            try:
                x = call(with_default)
                outs.append("default" if x is self.dflt else w.canon(x))
            except Exception as e:
                outs.append(tok_exc(e))
        return [outs, fired]

    def comp(self, op):
        """Components-level API: ["comp", method, component index, args...]; values are [vid, veq]
        pairs (callable, see reg_common.V), specs are world spec ids, objects are refs"""
        w = self.w
        meth, ci = op[1], op[2]
        cm = w.comps[ci]
        a = op[3:]
        S = lambda i: None if i is None else w.specs[i]          # noqa
        N = w.name
        if meth == "setbases":
            cm.__bases__ = tuple(w.comps[b] for b in a[0])
            return "ok"
        if meth == "registerUtility":
            cm.registerUtility(w.value(a[0]), S(a[1]), N(a[2]))
            return "ok"
        if meth == "unregisterUtility":
            return w.canon(cm.unregisterUtility(w.value(a[0]), S(a[1]), N(a[2])))
        if meth == "queryUtility":
            r = cm.queryUtility(S(a[0]), N(a[1]), self.dflt)
            return "default" if r is self.dflt else w.canon(r)
        if meth == "getUtility":
            return w.canon(cm.getUtility(S(a[0]), N(a[1])))
        if meth == "getUtilitiesFor":
            return sorted([[w.canon(n), w.canon(u)] for n, u in cm.getUtilitiesFor(S(a[0]))], key=repr)
        if meth == "getAllUtilitiesRegisteredFor":
            return sorted((w.canon(u) for u in cm.getAllUtilitiesRegisteredFor(S(a[0]))), key=repr)
        if meth == "registerAdapter":
            cm.registerAdapter(w.value(a[0]), [S(i) for i in a[1]], S(a[2]), N(a[3]))
            return "ok"
        if meth == "unregisterAdapter":
            return w.canon(cm.unregisterAdapter(w.value(a[0]), [S(i) for i in a[1]], S(a[2]), N(a[3])))
        if meth == "queryAdapter":
            r = cm.queryAdapter(w.ref(a[0]), S(a[1]), N(a[2]), self.dflt)
            return "default" if r is self.dflt else w.canon(r)
        if meth == "getAdapter":
            return w.canon(cm.getAdapter(w.ref(a[0]), S(a[1]), N(a[2])))
        if meth == "queryMultiAdapter":
            r = cm.queryMultiAdapter([w.ref(x) for x in a[0]], S(a[1]), N(a[2]), self.dflt)
            return "default" if r is self.dflt else w.canon(r)
        if meth == "getAdapters":
            return sorted([[w.canon(n), w.canon(x)] for n, x in cm.getAdapters([w.ref(x) for x in a[0]], S(a[1]))],
                          key=repr)
        if meth == "registerSubscriptionAdapter":
            cm.registerSubscriptionAdapter(w.value(a[0]), [S(i) for i in a[1]], S(a[2]))
            return "ok"
        if meth == "unregisterSubscriptionAdapter":
            return w.canon(cm.unregisterSubscriptionAdapter(w.value(a[0]), [S(i) for i in a[1]], S(a[2])))
        if meth == "subscribers":
            return [w.canon(x) for x in cm.subscribers([w.ref(x) for x in a[0]], S(a[1]))]
        if meth == "registerHandler":
            cm.registerHandler(w.value(a[0]), [S(i) for i in a[1]])
            return "ok"
        if meth == "unregisterHandler":
            return w.canon(cm.unregisterHandler(w.value(a[0]), [S(i) for i in a[1]]))
        if meth == "handle":
            before = len(w.calls)
            cm.handle(*[w.ref(x) for x in a[0]])
            return [c[0] for c in w.calls[before:]]
        if meth == "registered":
            def key(r):
                return repr([w.canon(getattr(r, "provided", None)), w.canon(tuple(getattr(r, "required", ()))),
                             w.canon(getattr(r, "name", "")), w.canon(getattr(r, "component", None) or
                                                                       getattr(r, "factory", None))])
            out = []
            for lst in (cm.registeredUtilities(), cm.registeredAdapters(), cm.registeredSubscriptionAdapters(),
                        cm.registeredHandlers()):
                out.append(sorted(key(r) for r in lst))
            return out
        raise RuntimeError(meth)

    def metaeq(self, op):
        """class objects whose metaclass defines == / hash: equal-but-distinct classes where one
        subclasses the other, interfaces provided by the BASE class object, queries about the subclass
        ["metaeq", kind, provided iface id, implemented iface id, r, warm]
           kind = "byname" | "always" | "never";  warm: call implementedBy(Sub) before the queries"""
        w = self.w
        kind, pi, ii, r, warm = op[1:6]
        IP, II = w.specs[pi], w.specs[ii]

        class Meta(type):
            def __eq__(cls, other):
                if not isinstance(other, Meta):
                    return NotImplemented
                if kind == "always":
                    return True
                if kind == "never":
                    return False
                return cls.__name__ == other.__name__

            def __ne__(cls, other):
                x = cls.__eq__(other)
                return x if x is NotImplemented else not x

            def __hash__(cls):
                return hash(cls.__name__) if kind == "byname" else 7
        Base = Meta("Widget", (object,), {"__module__": "verif.metaeq"})
        implementer(II)(Base)
        provider(IP)(Base)
        Sub = Meta("Widget", (Base,), {"__module__": "verif.metaeq"})
        Other = Meta("Gadget", (object,), {"__module__": "verif.metaeq"})
        reg = w.regs[r]
        fac = w.value([3, 3])
        reg.register([IP], Interface, "metaeq", fac)
        outs = []

        def att(f):
            try:
                x = f()
            except Exception as e:
                outs.append(tok_exc(e))
                return
            if x is Base:
                x = "Base"
            elif x is Sub:
                x = "Sub"
            outs.append("default" if x is self.dflt else w.canon(x))
        try:
            if warm:
                att(lambda: implementedBy(Sub))
            for cls in (Sub, Base, Other):
                att(lambda: IP.providedBy(cls))
                att(lambda: IP in providedBy(cls))
                att(lambda: providedBy(cls))
                att(lambda: IP(cls, self.dflt))
                att(lambda: reg.queryAdapter(cls, Interface, "metaeq", self.dflt))
                att(lambda: cls.__provides__)
                att(lambda: getattr(cls(), "__provides__"))
                att(lambda: providedBy(cls()) is implementedBy(cls))
                att(lambda: providedBy(cls()))
                att(lambda: implementedBy(cls).inherit is cls)
                att(lambda: II.providedBy(cls()))
                att(lambda: II.implementedBy(cls))
        finally:
            reg.unregister([IP], Interface, "metaeq", fac)
        return outs

    def life(self, op):
        """object lifetimes after a lookup: ["life", entry, r, class spec id, objkind, behaviour, with_default]
           entry = queryAdapter | adapter_hook | queryMultiAdapter | subscribers | lookup | lookup1 | call
           objkind = plain | direct | super;  behaviour = adapter | none | raise | miss
        Reports the answer and, after dropping every reference and gc.collect(), which of the
        object, the adapter, the factory and a throw-away registry are gone."""
        import gc
        import weakref
        w = self.w
        entry, r, ci, objkind, beh, with_default = op[1:7]
        cls = w.classes[ci]
        reg = w.regs[r]
        name = "life"

        class Adapter:
            pass

        class Boom(Exception):
            pass

        class Factory:
            def __call__(self, *obs):
                if beh == "none":
                    return None
                if beh == "raise":
                    raise Boom()
                return Adapter()
        ob = cls()
        if objkind == "direct":
            directlyProvides(ob, w.specs[0])
        target = super(cls, ob) if objkind == "super" else ob
        fac = Factory()
        required = [implementedBy(cls)] if objkind != "super" else [implementedBy(object)]
        prov = w.specs[0]
        if beh != "miss":
            if entry == "subscribers":
                reg.subscribe(required, prov, fac)
            else:
                reg.register(required, prov, name, fac)
        tmp = type(reg)((reg,))
        refs = {"ob": weakref.ref(ob), "fac": weakref.ref(fac), "tmp": weakref.ref(tmp)}
        d = (self.dflt,) if with_default else ()
        res = None
        tok = None
        try:
            for rg in (reg, tmp):
                if entry == "queryAdapter":
                    res = rg.queryAdapter(target, prov, name, *d)
                elif entry == "adapter_hook":
                    res = rg.adapter_hook(prov, target, name, *d)
                elif entry == "queryMultiAdapter":
                    res = rg.queryMultiAdapter((target,), prov, name, *d)
                elif entry == "subscribers":
                    res = rg.subscribers((target,), prov)
                elif entry == "lookup":
                    res = rg.lookup((providedBy(target),), prov, name, *d)
                elif entry == "lookup1":
                    res = rg.lookup1(providedBy(target), prov, name, *d)
                else:
                    del adapter_hooks[:]
                    adapter_hooks.append(lambda iface, o: rg.adapter_hook(iface, o, name))
                    try:
                        res = prov(target, *d) if False else w.specs[0].__call__(target, *d)
                    finally:
                        del adapter_hooks[:]
            tok = "default" if res is self.dflt else type(res).__name__ if not isinstance(res, list) else \
                [type(x).__name__ for x in res]
        except Exception as e:
            tok = tok_exc(e)
            e = None
        adapters = res if isinstance(res, list) else [res]
        arefs = [weakref.ref(a) for a in adapters if isinstance(a, Adapter)]
        del res, adapters, target, ob, tmp
        rg = None
        gc.collect()
        out = [tok, refs["ob"]() is None, [a() is None for a in arefs], refs["tmp"]() is None]
        if beh != "miss":
            if entry == "subscribers":
                reg.unsubscribe(required, prov, fac)
            else:
                reg.unregister(required, prov, name, fac)
        del fac
        gc.collect()
        out.append(refs["fac"]() is None)
        return self.w.canon(out)

    def icsub(self, op):
        """interfaces whose *class* is a plain subclass of InterfaceClass:
        ["icsub", what, object ref, with alternate]   what = adapt | adapt_sub | providedBy"""
        w = self.w
        what, ob, alt = op[1], w.ref(op[2]), op[3]
        v = w.val(61)

        class AdaptIC(InterfaceClass):
            def __adapt__(self, obj):
                return v

        class AdaptSubIC(AdaptIC):
            pass

        class ProvidedIC(InterfaceClass):
            def providedBy(self, obj):
                return True
        cls = {"adapt": AdaptIC, "adapt_sub": AdaptSubIC, "providedBy": ProvidedIC}[what]
        iface = cls("ICSub", (Interface,), {}, __module__="verif.icsub")
        outs = []
        for f in ((lambda: iface(ob, self.dflt)) if alt else (lambda: iface(ob)), lambda: iface.__adapt__(ob),
                  lambda: iface.providedBy(ob)):
            try:
                x = f()
                outs.append("default" if x is self.dflt else w.canon(x))
            except Exception as e:
                outs.append(tok_exc(e))
        return outs

    def make_hook(self, h):
        w = self.w
        if h[0] == "none":
            return lambda iface, ob: None
        if h[0] == "value":
            return lambda iface, ob: w.val(h[1])
        if h[0] == "raise":
            def hook(iface, ob):
                raise EXCS[h[1]]("hook")
            return hook
        if h[0] == "reg":
            return w.regs[h[1]].adapter_hook
        raise RuntimeError(h)

    def xreg(self, op):
        """["xreg", method, r, req, prov, name, with_default]
           req = ["tuple"|"list"|"gen"|"raw", [refs]]   name = None (omitted) | ["s", text] | ref"""
        w = self.w
        meth, r, req, prov, name, with_default = op[1:7]
        reg = w.regs[r]
        items = self.refs(req[1])
        if req[0] == "tuple":
            required = tuple(items)
        elif req[0] == "list":
            required = list(items)
        elif req[0] == "gen":
            required = lazy(items)
        elif req[0] == "genraise":
            required = lazy_raise(items)
        else:
            required = items[0]
        provided = w.ref(prov)
        args = [required, provided]
        if meth in ("adapter_hook",):
            args = [provided, required]
        if name is not None:
            args.append(name[1] if name[0] == "s" else w.ref(name))
            if with_default:
                args.append(self.dflt)
        elif with_default:
            args += ["", self.dflt]
        res = getattr(reg, meth)(*args)
        if res is self.dflt:
            return "default"
        if meth in ("lookupAll",):
            return sorted([[w.canon(n), w.canon(v)] for n, v in res], key=repr)
        if meth in ("names",):
            return sorted(w.canon(x) for x in res)
        return w.canon(res)


# ------------------------------------------------------------------------------- rows for Coq
#
# Each row describes, in the vocabulary of coq/Model/CTwins.v, the *input* of one twin kernel as
# probed from the live objects independently of the function under test, and the observed
# *outcome*.  Values are numbered per row by identity (0 = no value).

class Ids:
    def __init__(self):
        self.objs = []

    def of(self, x):
        for i, o in enumerate(self.objs):
            if o is x:
                return i + 1
        self.objs.append(x)
        return len(self.objs)


EXC_TAGS = {"TypeError": 1, "ValueError": 2, "KeyError": 3, "RuntimeError": 4, "SystemError": 5}


def exc_tag(e):
    return EXC_TAGS.get(type(e).__name__, 9)


def probe(f):
    """('val', v) | ('ae',) | ('exc', tag)"""
    try:
        return ("val", f())
    except AttributeError:
        return ("ae",)
    except Exception as e:
        return ("exc", exc_tag(e))


def enc_probe(p, ids):
    # [0, 0] AttributeError, [1, tag] other exception, [2, i] value number i
    if p[0] == "ae":
        return [0, 0]
    if p[0] == "exc":
        return [1, p[1]]
    return [2, ids.of(p[1])]


def is_sb(x):
    return isinstance(x, SpecificationBase) and issubclass(type(x), SpecificationBase)


def extends_probe(v):
    """how ``v.extends`` behaves: [0] present, [1] AttributeError, [2, tag] other exception"""
    p = probe(lambda: v.extends)
    return [0] if p[0] == "val" else [1] if p[0] == "ae" else [2, p[1]]


class Rows:
    @staticmethod
    def outcome(f, ids):
        try:
            r = f()
        except AttributeError:
            return [0, 0]
        except Exception as e:
            return [1, exc_tag(e)]
        return [2, ids.of(r)]

    @staticmethod
    def provided_by(it, n, ob):
        """description of ``ob`` for providedBy / getObjectSpecification (Model/CTwins.v obj_desc)"""
        if len(it.rows) > 400:
            return
        ids = Ids()
        is_super = isinstance(ob, super)
        if is_super:
            return     # delegated to implementedBy (Python code in both implementations)
        pb = probe(lambda: ob.__providedBy__)
        prov = probe(lambda: ob.__provides__)
        cls = probe(lambda: ob.__class__)
        cprov = ("ae",)
        if cls[0] == "val":
            cprov = probe(lambda: cls[1].__provides__)
        # the reads above are free of side effects; implementedBy(cls) is not (it stores the
        # specification and the descriptors on the class), so the function under test runs first and
        # implementedBy — idempotent from then on — is asked afterwards
        from zope.interface.declarations import _empty
        fresh = True      # will implementedBy(cls) have to create the class specification?
        if cls[0] == "val":
            try:
                fresh = "__implemented__" not in cls[1].__dict__
            except Exception:
                fresh = True
        out = Rows.outcome(lambda: providedBy(ob), ids)
        out_gos = Rows.outcome(lambda: getObjectSpecification(ob), ids)
        implby = ("ae",)
        if cls[0] == "val":
            implby = probe(lambda: implementedBy(cls[1]))
        if fresh and (out[0] != 2 or out_gos[0] != 2):
            # a creating implementedBy that fails half-way (e.g. the metaclass refuses the
            # __provides__ assignment after __implemented__ was stored) answers differently the
            # second time: its first outcome cannot be probed separately, no row
            return
        row = {
            "k": "pb", "op": n,
            "pb": enc_probe(pb, ids),
            "pb_sb": bool(pb[0] == "val" and is_sb(pb[1])),
            "pb_ext": extends_probe(pb[1]) if pb[0] == "val" else [1],
            "prov": enc_probe(prov, ids),
            "prov_sb": bool(prov[0] == "val" and is_sb(prov[1])),
            "cls": enc_probe(cls, ids),
            "cprov": enc_probe(cprov, ids),
            "implby": enc_probe(implby, ids),
        }
        row["empty"] = ids.of(_empty)
        row["out"] = out
        row["out_gos"] = out_gos
        it.rows.append(row)

    @staticmethod
    def implemented_by(it, n, cls):
        """description of ``cls`` for the implementedBy fast path"""
        if len(it.rows) > 400:
            return
        ids = Ids()
        if isinstance(cls, super):
            return
        d = probe(lambda: cls.__dict__)
        entry = [0, 0, False]       # 0 absent, 1 None, 2 value (id, is Implements)
        if d[0] == "val":
            try:
                v = d[1]["__implemented__"]
            except Exception:
                v = ids          # marker for absent
            if v is ids:
                entry = [0, 0, False]
            elif v is None:
                entry = [1, 0, False]
            else:
                entry = [2, ids.of(v), bool(isinstance(v, Implements) and issubclass(type(v), Implements))]
        from zope.interface.declarations import BuiltinImplementationSpecifications as B
        try:
            b = B.get(cls)
        except Exception:
            b = None
        row = {"k": "ib", "op": n, "is_type": isinstance(cls, type),
               "dict": [2] if d[0] == "val" else [0] if d[0] == "ae" else [1, d[1]], "entry": entry,
               "builtin": 0 if b is None else ids.of(b)}
        row["out"] = Rows.outcome(lambda: implementedBy(cls), ids)
        # only the fast-path rows (an existing specification is found) are judged by the model;
        # everything else is the shared Python fallback
        it.rows.append(row)

    @staticmethod
    def sb_extends(it, n, spec, other):
        if len(it.rows) > 400 or not is_sb(spec):
            return
        imp = probe(lambda: spec._implied)
        if imp[0] == "ae":
            st, member, hashable = 0, False, True
        elif imp[0] == "val" and isinstance(imp[1], dict):
            st = 2
            try:
                hash(other)
                hashable = True
            except Exception:
                hashable = False
            member = hashable and other in imp[1]
        elif imp[0] == "val" and imp[1] is None:
            st, member, hashable = 1, False, True
        else:
            return
        try:
            r = spec.isOrExtends(other)
            out = 1 if r is True else 0 if r is False else 9
        except AttributeError:
            out = 2
        except TypeError:
            out = 3
        except SystemError:
            out = 4
        except Exception:
            out = 5
        it.rows.append({"k": "ext", "op": n, "implied": st, "hashable": hashable, "member": bool(member), "out": out})

    @staticmethod
    def descr_get(it, n, ob, name):
        """attribute reads that reach OSD_descr_get / CPB_descr_get"""
        if len(it.rows) > 400:
            return
        ids = Ids()
        if name == "__providedBy__":
            # which descriptor does type(ob) / ob's metatype find?
            if isinstance(ob, type):
                d = None
                for k in ob.__mro__:
                    if "__providedBy__" in k.__dict__:
                        d = k.__dict__["__providedBy__"]
                        break
                if type(d) is not ObjectSpecificationDescriptor:
                    return
                if any("__providedBy__" in k.__dict__ for k in type(ob).__mro__):
                    return
                # accessed through the class: inst is None -> getObjectSpecification(cls)
                out = Rows.outcome(lambda: ob.__providedBy__, ids)
                gos = Rows.outcome(lambda: getObjectSpecification(ob), ids)
                it.rows.append({"k": "osd", "op": n, "inst": False, "prov": [0, 0], "fallback": gos, "out": out})
            else:
                d = None
                for k in type(ob).__mro__:
                    if "__providedBy__" in k.__dict__:
                        d = k.__dict__["__providedBy__"]
                        break
                if type(d) is not ObjectSpecificationDescriptor:
                    return
                try:
                    if "__providedBy__" in ob.__dict__:
                        return
                except AttributeError:
                    pass
                prov = probe(lambda: ob.__provides__)
                out = Rows.outcome(lambda: ob.__providedBy__, ids)
                fb = Rows.outcome(lambda: implementedBy(type(ob)), ids)
                it.rows.append({"k": "osd", "op": n, "inst": True, "prov": enc_probe(prov, ids), "fallback": fb,
                                "out": out})
        elif name == "__provides__":
            if isinstance(ob, type):
                owner, inst = ob, None
                mro = type(ob).__mro__
                if any("__provides__" in k.__dict__ for k in mro):
                    return
                look = ob.__mro__
            else:
                try:
                    if "__provides__" in ob.__dict__:
                        return
                except AttributeError:
                    pass
                owner, inst = type(ob), ob
                look = type(ob).__mro__
            d = None
            for k in look:
                if "__provides__" in k.__dict__:
                    d = k.__dict__["__provides__"]
                    break
            if not (isinstance(d, ClassProvidesBase) and issubclass(type(d), ClassProvidesBase)):
                return
            dcls = probe(lambda: d._cls)
            dimp = probe(lambda: d._implements)
            if dcls[0] != "val" or dimp[0] != "val":
                return
            out = Rows.outcome(lambda: getattr(ob, "__provides__"), ids)
            it.rows.append({"k": "cpb", "op": n, "same_cls": dcls[1] is owner, "inst": inst is not None,
                            "self": ids.of(d), "implements": ids.of(dimp[1]), "out": out})

    @staticmethod
    def cmp(it, n, ra, rb, a, b, rab, rba):
        if len(it.rows) > 400:
            return

        def desc(x):
            if x is None:
                return ["none", "", ""]
            if isinstance(x, InterfaceClass):
                kind = "iface"
            elif isinstance(x, Implements):
                kind = "impl"
            else:
                # a foreign operand is described only if it compares like a plain object
                t = type(x)
                if any(getattr(t, m) is not getattr(object, m)
                       for m in ("__eq__", "__ne__", "__lt__", "__le__", "__gt__", "__ge__")):
                    return None
                try:
                    nm, md = x.__name__, x.__module__
                except AttributeError:
                    return ["anon", "", ""]
                except Exception:
                    return None
                kind = "named"
            nm, md = x.__name__, x.__module__
            if not isinstance(nm, str) or not isinstance(md, str):
                return None if kind != "named" else ["namedx", _pyval(nm), _pyval(md)]
            return [kind, nm, md]
        da, db = desc(a), desc(b)
        if da is None or db is None:
            return
        if da[0] not in ("iface", "impl") and db[0] not in ("iface", "impl"):
            return      # no specification involved: not our code

        def code(row):
            out = []
            for x in row:
                if x in (0, 1):
                    out.append(x)
                elif x == "EXC:TypeError":
                    out.append(2)
                else:
                    out.append(3)
            return out
        ids = Ids()
        it.rows.append({"k": "cmp", "op": n, "a": da + [ids.of(a)], "b": db + [ids.of(b)],
                        "rab": code(rab), "rba": code(rba)})

    @staticmethod
    def hash(it, n, a, ha):
        if len(it.rows) > 400:
            return
        it.rows.append({"k": "hash", "op": n, "tuple": hash((a.__name__, a.__module__)), "h1": ha, "h2": hash(a)})


def _pyval(v):
    # non-string names of foreign comparands: ["i", n] int, ["s", text] str, else None -> row skipped
    if isinstance(v, str):
        return ["s", v]
    if isinstance(v, int) and not isinstance(v, bool) and 0 <= v < 1000:
        return ["i", v]
    return ["?"]


def run_case(case):
    del adapter_hooks[:]
    try:
        w = World(case["world"])
    except Exception as e:   # a world that cannot be built is reported, not a crash
        return {"tokens": ["WORLD-" + tok_exc(e)], "rows": []}
    it = Interp(w)
    try:
        toks = it.run(case["ops"])
    finally:
        del adapter_hooks[:]
    return {"tokens": toks, "rows": it.rows}


def main():
    """Cases run in forked children, 250 at a time: classes and specifications of earlier worlds
    stay reachable for a while, and the full gc.collect() of the lifetime ops would otherwise walk
    an ever growing heap.  A child killed by a signal makes the driver die the same way."""
    import json
    import os
    import gc
    payload = _boot.read_payload()
    cases = payload["cases"]
    # the payload is millions of small lists: keep them out of every later gc.collect()
    gc.collect()
    gc.freeze()
    out = []
    for start in range(0, len(cases), 250):
        chunk = cases[start:start + 250]
        rfd, wfd = os.pipe()
        pid = os.fork()
        if pid == 0:
            try:
                os.close(rfd)
                data = json.dumps([run_case(c) for c in chunk]).encode()
                with os.fdopen(wfd, "wb") as fh:
                    fh.write(data)
            finally:
                os._exit(0)
        os.close(wfd)
        with os.fdopen(rfd, "rb") as fh:
            data = fh.read()
        _pid, status = os.waitpid(pid, 0)
        if os.WIFSIGNALED(status):
            signal.signal(os.WTERMSIG(status), signal.SIG_DFL)
            os.kill(os.getpid(), os.WTERMSIG(status))
        res = json.loads(data.decode()) if data else None
        if res is None or len(res) != len(chunk):
            raise SystemExit(3)
        out.extend(res)
    _boot.write_result({"obs": out})


if __name__ == "__main__":
    main()
