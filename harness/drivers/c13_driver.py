"""C13 driver: real pickle round trips of zope.interface specifications.

For every case a module ``zi_c13_<mode>_<k>.py`` is written into a temporary directory on sys.path
(interfaces I0.., classes C0.., one function per class-level declaration operation).  The history
is executed in order in this process (gc disabled; ``gc.collect()`` only where the history says so,
so the weak ``InstanceDeclarations`` cache is deterministic).  Then every interface, class,
``implementedBy(class)``, ``class.__provides__``, ``instance.__provides__`` and instance is pickled
with every protocol 0..5 and

  * loaded again in this process ("live"),
  * loaded in a freshly started interpreter that imports the generated module again (the module
    replays its class-level operations at import) -- "xproc", done by c13_child.py.

Everything reported is ints / bools / strings: interfaces are numbered by their index in the case.
"""
import _boot
import copyreg
import gc
import importlib
import json
import os
import pickle
import pickletools
import shutil
import subprocess
import sys
import tempfile

from zope.interface import Interface, implementedBy, providedBy, directlyProvides, alsoProvides
from zope.interface import noLongerProvides, directlyProvidedBy
from zope.interface import declarations as D
from zope.interface.interface import InterfaceClass

PROTOS = (0, 1, 2, 3, 4, 5)

SPEC_OPS = {
    "PROTO", "FRAME", "STOP", "GLOBAL", "STACK_GLOBAL", "MARK", "TUPLE", "TUPLE1", "TUPLE2", "TUPLE3",
    "EMPTY_TUPLE", "REDUCE", "PUT", "BINPUT", "LONG_BINPUT", "GET", "BINGET", "LONG_BINGET", "MEMOIZE",
    "SHORT_BINUNICODE", "BINUNICODE", "UNICODE",
}
INST_OPS = SPEC_OPS | {
    "NEWOBJ", "EMPTY_DICT", "DICT", "SETITEM", "SETITEMS", "BUILD", "NONE", "INT", "BININT", "BININT1",
    "BININT2", "LONG1", "LONG",
}
ZOPE_GLOBALS = {
    ("zope.interface.declarations", "implementedBy"), ("zope.interface.declarations", "Provides"),
    ("zope.interface.declarations", "ClassProvides"), ("zope.interface.declarations", "_empty"),
    ("zope.interface._zope_interface_coptimizations", "implementedBy"),
    ("builtins", "type"), ("__builtin__", "type"),
}
INST_GLOBALS = {("copy_reg", "_reconstructor"), ("copyreg", "_reconstructor"), ("__builtin__", "object"),
                ("builtins", "object"), ("copyreg", "__newobj__"), ("copy_reg", "__newobj__")}


def parse_op(op):
    """op = [kind, target, arg, *extras]; extras: a bool = alternative spelling, a list [start, len]
    = that slice of the interface list is passed wrapped in one Declaration(...)."""
    alt, wrap = False, None
    for e in op[3:]:
        if isinstance(e, bool):
            alt = e
        elif isinstance(e, list):
            wrap = e
    return op[0], (op[1] if len(op) > 1 else None), (op[2] if len(op) > 2 else None), alt, wrap


def arg_namer(case, prefix=""):
    """argument number -> source text: interface a; len(ifaces) = Interface itself (when the case
    has "root"); from there on implementedBy(class)"""
    n = len(case["ifaces"])
    ni = n + (1 if case.get("root") else 0)

    def name(a):
        if a < n:
            return "%sI%d" % (prefix, a)
        if a < ni:
            return "Interface"
        return "implementedBy(%sC%d)" % (prefix, a - ni)
    return name


def ifs_expr(ids, wrap, name):
    """Source text of an interface argument list, with the optional Declaration(...) group."""
    parts, i = [], 0
    while i < len(ids):
        if wrap and i == wrap[0] and wrap[1] > 0:
            parts.append("Declaration(%s)" % ", ".join(name(j) for j in ids[i:i + wrap[1]]))
            i += wrap[1]
        else:
            parts.append(name(ids[i]))
            i += 1
    return ", ".join(parts)


def module_source(case):
    L = ["import os",
         "from zope.interface import Interface, classImplements, classImplementsOnly, classImplementsFirst",
         "from zope.interface import directlyProvides, implementer, implementer_only, provider, implementedBy",
         "from zope.interface import alsoProvides, noLongerProvides, directlyProvidedBy",
         "from zope.interface.declarations import Declaration",
         ""]
    name = arg_namer(case)
    builtin = case.get("builtin", {})
    idef, cdef = case.get("idef", {}), case.get("cdef", {})
    oldstyle, meta, falsy = case.get("oldstyle", {}), set(case.get("meta", [])), case.get("falsy")
    if falsy:
        # a metaclass that makes the class OBJECT falsy (its instances are ordinary)
        L.append("class Falsy(type):\n    def %s\n" % (
            "__len__(cls):\n        return 0" if falsy == "len" else "__bool__(cls):\n        return False"))

    def indent(text, n):
        return "\n".join((" " * n + ln) if ln else ln for ln in text.split("\n"))

    for i, bases in enumerate(case["ifaces"]):
        bs = ", ".join("I%d" % b for b in bases) or "Interface"
        stmt = "class I%d(%s):\n    def m%d(x):\n        'method of I%d'" % (i, bs, i, i)
        how = idef.get(str(i))
        if how == "func":     # the class statement runs inside a function; published as a module global
            L.append("def _make_I%d():\n%s\n    return I%d\n\nI%d = _make_I%d()\n" % (i, indent(stmt, 4), i, i, i))
        elif how == "nested":  # ... or in the body of another class
            L.append("class OuterI%d:\n%s\n\nI%d = OuterI%d.I%d\n" % (i, indent(stmt, 4), i, i, i))
        else:
            L.append(stmt + "\n")
    for c, bases in enumerate(case["classes"]):
        if str(c) in builtin:
            L.append("C%d = %s\n" % (c, builtin[str(c)]))
            continue
        hdr = ["C%d" % b for b in bases] + (["metaclass=Falsy"] if (falsy and c in meta) else [])
        body = ""
        if str(c) in oldstyle:
            xs = oldstyle[str(c)]
            body = "    __implemented__ = %s\n" % ("I%d" % xs[0] if len(xs) == 1 else "(%s)" % ", ".join("I%d" % i for i in xs))
        stmt = "class C%d(%s):\n%s    def meth%d(self):\n        return %d" % (c, ", ".join(hdr), body, c, c)
        if cdef.get(str(c)) == "nested":
            L.append("class Outer%d:\n%s\n\nC%d = Outer%d.C%d\n" % (c, indent(stmt, 4), c, c, c))
        else:
            L.append(stmt + "\n")
    names = []
    for k, op in enumerate(case["ops"]):
        kind, tgt, arg, alt, wrap = parse_op(op)
        body = None
        if kind == "impl":
            ifs = ifs_expr(arg, wrap, name)
            body = ("implementer(%s)(C%d)" % (ifs, tgt)) if alt else ("classImplements(C%d, %s)" % (tgt, ifs))
        elif kind == "only":
            ifs = ifs_expr(arg, wrap, name)
            body = ("implementer_only(%s)(C%d)" % (ifs, tgt)) if alt else ("classImplementsOnly(C%d, %s)" % (tgt, ifs))
        elif kind == "first":
            body = "classImplementsFirst(C%d, %s)" % (tgt, name(arg))
        elif kind == "cprov":
            ifs = ifs_expr(arg, wrap, name)
            body = ("provider(%s)(C%d)" % (ifs, tgt)) if alt else ("directlyProvides(C%d, %s)" % (tgt, ifs))
        elif kind == "cap":
            ifs = ifs_expr(arg, wrap, name)
            body = ("directlyProvides(C%d, directlyProvidedBy(C%d), %s)" % (tgt, tgt, ifs)) if alt \
                else ("alsoProvides(C%d, %s)" % (tgt, ifs))
        elif kind == "cnl":
            body = "try:\n        noLongerProvides(C%d, I%d)\n    except ValueError:\n        pass" % (tgt, arg)
        elif kind == "iby":
            body = "implementedBy(C%d)" % tgt
        if body is not None:
            L.append("def _op_%d():\n    %s\n" % (k, body))
            names.append("_op_%d" % k)
    L.append("_CLASS_OPS = [%s]" % ", ".join(names))
    L.append("if os.environ.get('ZI_C13_CHILD') == '1':\n    for _f in _CLASS_OPS:\n        _f()\n")
    return "\n".join(L)


class Numbering:
    def __init__(self, mod, case):
        self.ifaces = [getattr(mod, "I%d" % i) for i in range(len(case["ifaces"]))]
        if case.get("root"):
            self.ifaces.append(Interface)       # Interface itself is the last interface of the world
        self.classes = [getattr(mod, "C%d" % c) for c in range(len(case["classes"]))]
        self.by_id = {id(x): n for n, x in enumerate(self.ifaces)}

    def num(self, x):
        if id(x) in self.by_id:
            return self.by_id[id(x)]
        return 9 if x is Interface else 10

    def lst(self, it):
        return [self.num(x) for x in it]


def canon_arg(x):
    if x is None:
        return ["none"]
    if isinstance(x, bool):
        return ["other", "bool"]
    if isinstance(x, int):
        return ["int", x]
    if isinstance(x, (InterfaceClass, type)):
        return ["g", getattr(x, "__module__", "?"), getattr(x, "__qualname__", None) or x.__name__]
    if hasattr(x, "__reduce__") and isinstance(x, D.Declaration):
        return canon_reduce(x, x.__reduce__())
    return ["other", type(x).__name__]


def canon_reduce(x, rv):
    """Canonical form of a __reduce__ value: ['name', module, name] | ['call', fn, [args]]."""
    if isinstance(rv, str):
        return ["name", getattr(x, "__module__", "?"), rv]
    fn = rv[0]
    if fn is D.implementedBy:
        name = "implementedBy"
    elif fn is D.Provides:
        name = "Provides"
    elif fn is D.ClassProvides:
        name = "ClassProvides"
    elif fn is copyreg.__newobj__:
        name = "newobj"
    else:
        return ["name", getattr(fn, "__module__", "?"), getattr(fn, "__name__", "?")]
    args = [canon_arg(a) for a in rv[1]]
    if name == "newobj":
        state = rv[2] if len(rv) > 2 and isinstance(rv[2], dict) else {}
        args.append(canon_arg(state.get("__provides__")))
        for k in sorted(k for k in state if k != "__provides__"):
            args.append(canon_arg(state[k]))
    return ["call", name, args]


def scan(payload, allowed_globals, allowed_strings, inst):
    """Names of everything in the payload that is not a by-name reference."""
    bad = []
    okops = INST_OPS if inst else SPEC_OPS
    okglob = allowed_globals | ZOPE_GLOBALS | (INST_GLOBALS if inst else set())
    okstr = set(allowed_strings)
    for m, n in okglob:
        okstr.add(m)
        okstr.add(n)
    try:
        for opcode, arg, _pos in pickletools.genops(payload):
            if opcode.name not in okops:
                bad.append("op:" + opcode.name)
            elif opcode.name == "GLOBAL":
                if tuple(arg.split(" ", 1)) not in okglob:
                    bad.append("global:" + arg)
            elif opcode.name in ("SHORT_BINUNICODE", "BINUNICODE", "UNICODE"):
                if arg not in okstr:
                    bad.append("str:" + arg)
    except Exception as e:  # malformed payload
        bad.append("scan:" + type(e).__name__)
    return bad


def lists_of(x, N, is_inst):
    spec = providedBy(x) if is_inst else x
    if isinstance(spec, InterfaceClass):
        return [N.num(spec)], N.lst(spec.__iro__)
    return N.lst(spec), N.lst(spec.flattened())


def safe(f, default=False):
    try:
        return bool(f())
    except Exception:
        return default


def forget_builtins(case):
    """Declarations on built-in types are process-global (BuiltinImplementationSpecifications):
    drop them before and after every case that uses such a type."""
    import builtins
    for name in case.get("builtin", {}).values():
        D.BuiltinImplementationSpecifications.pop(getattr(builtins, name), None)


def run_case(k, case, tmpdir, mode):
    forget_builtins(case)
    try:
        return run_case_(k, case, tmpdir, mode)
    finally:
        forget_builtins(case)


def run_case_(k, case, tmpdir, mode):
    modname = "zi_c13_%d" % k
    with open(os.path.join(tmpdir, modname + ".py"), "w") as fh:
        fh.write(module_source(case))
    importlib.invalidate_caches()
    mod = importlib.import_module(modname)
    N = Numbering(mod, case)
    insts = []
    for cls, attrs in case["insts"]:
        o = N.classes[cls]()
        for j, v in enumerate(attrs):
            setattr(o, "a%d" % j, v)
        insts.append(o)
    def arg_obj(a):
        return N.ifaces[a] if a < len(N.ifaces) else implementedBy(N.classes[a - len(N.ifaces)])

    def args_of(ids, wrap):
        out, i = [], 0
        while i < len(ids):
            if wrap and i == wrap[0] and wrap[1] > 0:
                out.append(D.Declaration(*[arg_obj(j) for j in ids[i:i + wrap[1]]]))
                i += wrap[1]
            else:
                out.append(arg_obj(ids[i]))
                i += 1
        return out

    for kk, op in enumerate(case["ops"]):
        kind, tgt, arg, alt, wrap = parse_op(op)
        if kind in ("impl", "only", "first", "cprov", "cap", "cnl", "iby"):
            getattr(mod, "_op_%d" % kk)()
        elif kind == "dp":
            directlyProvides(insts[tgt], *args_of(arg, wrap))
        elif kind == "ap":
            if alt:
                directlyProvides(insts[tgt], directlyProvidedBy(insts[tgt]), *args_of(arg, wrap))
            else:
                alsoProvides(insts[tgt], *args_of(arg, wrap))
        elif kind == "nl":
            try:
                noLongerProvides(insts[tgt], N.ifaces[arg])
            except ValueError:
                pass
        elif kind == "gc":
            gc.collect()
        else:
            raise ValueError(kind)

    items = []
    for i, x in enumerate(N.ifaces):
        items.append(("iface", i, x))
    for c, x in enumerate(N.classes):
        items.append(("class", c, x))
    for c, x in enumerate(N.classes):
        items.append(("impl", c, implementedBy(x)))
    for c, x in enumerate(N.classes):
        if "__provides__" in x.__dict__:
            items.append(("cprov", c, x.__dict__["__provides__"]))
    for o, x in enumerate(insts):
        if "__provides__" in x.__dict__:
            items.append(("prov", o, x.__dict__["__provides__"]))
    for o, x in enumerate(insts):
        items.append(("inst", o, x))

    allowed_globals = {(modname, "I%d" % i) for i in range(len(case["ifaces"]))} | {("zope.interface", "Interface")}
    allowed_strings = []
    for x in N.classes:
        allowed_globals.add((x.__module__, x.__qualname__))
        if type(x) is not type:
            allowed_globals.add((type(x).__module__, type(x).__qualname__))
        if "." in x.__qualname__:
            # protocols < 4 reach a nested class as getattr(Outer, 'C'): still nothing but names
            outer, last = x.__qualname__.rsplit(".", 1)
            allowed_globals.update({(x.__module__, outer), ("builtins", "getattr"), ("__builtin__", "getattr")})
            allowed_strings.append(last)
        if x.__module__ == "builtins":
            # protocols 0..2 write the Python 2 spelling of the same name (fix_imports)
            import _compat_pickle
            allowed_globals.add(_compat_pickle.REVERSE_NAME_MAPPING.get(
                (x.__module__, x.__qualname__), ("__builtin__", x.__qualname__)))
    out_items, job_items = [], []
    for kind, ref, x in items:
        is_inst = kind == "inst"
        rec = {"kind": kind, "ref": ref}
        try:
            if kind == "class":
                rec["reduce"] = ["name", x.__module__, x.__qualname__]
            elif is_inst:
                rec["reduce"] = canon_reduce(x, x.__reduce_ex__(2))
            else:
                rec["reduce"] = canon_reduce(x, x.__reduce__())
        except Exception as e:
            rec["reduce"] = ["name", "exc", type(e).__name__]
        if kind == "class":
            before, fbefore = [], []
        else:
            before, fbefore = lists_of(x, N, is_inst)
        rec["before"], rec["fbefore"] = before, fbefore
        attrs = dict((a, v) for a, v in x.__dict__.items() if a != "__provides__") if is_inst else {}
        live, pays = [], {}
        for proto in PROTOS:
            ob = {"proto": proto, "ok": False, "same": False, "eq": False, "hash": False, "after": [],
                  "fafter": [], "struct": True, "badops": 0, "bad": [], "exc": ""}
            try:
                pay = pickle.dumps(x, proto)
                pays[str(proto)] = pay.hex()
                y = pickle.loads(pay)
                ob["ok"] = True
                ob["same"] = y is x
                ob["eq"] = safe(lambda: y == x)
                ob["hash"] = safe(lambda: hash(y) == hash(x))
                if kind != "class":
                    ob["after"], ob["fafter"] = lists_of(y, N, is_inst)
                if is_inst:
                    yattrs = dict((a, v) for a, v in y.__dict__.items() if a != "__provides__")
                    ob["struct"] = type(y) is type(x) and yattrs == attrs and \
                        (("__provides__" in y.__dict__) == ("__provides__" in x.__dict__))
                    # for an instance "same" means: it carries the identical declaration object (or none)
                    ob["same"] = y.__dict__.get("__provides__") is x.__dict__.get("__provides__")
                bad = scan(pay, allowed_globals,
                           allowed_strings + (list(attrs) + ["__provides__"] if is_inst else []), is_inst)
                ob["badops"], ob["bad"] = len(bad), bad[:6]
            except Exception as e:
                ob["exc"] = type(e).__name__
            live.append(ob)
        rec["live"] = live
        out_items.append(rec)
        job_items.append({"kind": kind, "ref": ref, "pays": pays,
                          "cls": N.classes.index(type(x)) if is_inst else -1,
                          "attrs": attrs, "has_provides": is_inst and "__provides__" in x.__dict__})
    names = {"module": modname,
             "inames": [[x.__module__, x.__name__] for x in N.ifaces],
             "cnames": [[x.__module__, x.__qualname__] for x in N.classes],
             "metas": {str(c): [type(x).__module__, type(x).__qualname__]
                       for c, x in enumerate(N.classes) if type(x) is not type}}
    job = {"module": modname, "nif": len(case["ifaces"]), "root": bool(case.get("root")),
           "ncl": len(N.classes), "items": job_items,
           "builtin": list(case.get("builtin", {}).values())}
    return {"names": names, "items": out_items}, job


def main():
    payload = _boot.read_payload()
    mode = os.environ.get("ZI_MODE", "c")
    tmpdir = tempfile.mkdtemp(prefix="zi_c13_mod_")
    sys.path.insert(0, tmpdir)
    gc.disable()
    out, jobs = [], []
    try:
        for k, case in enumerate(payload["cases"]):
            try:
                res, job = run_case(k, case, tmpdir, mode)
            except Exception as e:  # the case itself could not be built
                res, job = {"exc": type(e).__name__ + ": " + str(e)[:200]}, None
            out.append(res)
            jobs.append(job)
        env = dict(os.environ)
        env["ZI_C13_CHILD"] = "1"
        p = subprocess.run([sys.executable, os.path.join(os.path.dirname(os.path.abspath(__file__)), "c13_child.py")],
                           input=json.dumps({"tmpdir": tmpdir, "jobs": jobs}), capture_output=True, text=True,
                           env=env, timeout=800)
        if p.returncode != 0:
            raise RuntimeError("c13_child failed: " + p.stderr[-3000:])
        child = json.loads(p.stdout)["res"]
        for res, cres in zip(out, child):
            if cres is None or "items" not in res:
                continue
            if "exc" in cres:
                res["child_exc"] = cres["exc"]
                continue
            for rec, xrec in zip(res["items"], cres["items"]):
                rec["xproc"] = xrec
    finally:
        shutil.rmtree(tmpdir, ignore_errors=True)
    _boot.write_result({"obs": out})


main()
