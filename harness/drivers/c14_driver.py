"""C14 driver: call an interface on an instrumented object and report the outcome and the log
of external steps (read of __conform__, call of __conform__, the provided-check, each hook,
each custom __adapt__), for `I(obj[, alternate])` and for `I.__adapt__(obj)`.

Log entries: ["g"] obj.__conform__ read, ["c"] conform(I) called, ["p"] obj.__providedBy__ read
(the provided-check), ["h", i] adapter_hooks[i] called, ["a", level] custom __adapt__ of chain
level called, ["P", level] providedBy override of chain level called.  Outcomes: ["val", v] | ["obj"] | ["alt"] | ["none"] | ["exc", kind, tag] | ["cna"]
(TypeError('Could not adapt', obj, I)) | ["unknown", text].
"""
import functools
import operator

import _boot
from zope.interface import Interface, implementer, directlyProvides, alsoProvides
from zope.interface.interface import adapter_hooks, interfacemethod
from zope.interface.adapter import AdapterRegistry

import zope.interface.interface as _zii

assert adapter_hooks is _zii.adapter_hooks
if _boot.mode == "c":
    from zope.interface import _zope_interface_coptimizations as _c
    assert adapter_hooks is _c.adapter_hooks

OTHER = [ValueError, KeyError, RuntimeError, ZeroDivisionError]
WATCH = {"__conform__": ["g"], "__providedBy__": ["p"]}


class Val:
    def __init__(self, v):
        self.v = v


class FalsyBool:
    def __bool__(self):
        return False


class LenZero:
    def __len__(self):
        return 0


class EqTrue:
    """compares equal to everything (like unittest.mock.ANY); __ne__ is the default inversion"""
    __hash__ = object.__hash__

    def __eq__(self, other):
        return True


class EqTrueNeTrue:
    __hash__ = object.__hash__

    def __eq__(self, other):
        return True

    def __ne__(self, other):
        return True


class EqFalse:
    """equal to nothing, not even itself"""
    __hash__ = object.__hash__

    def __eq__(self, other):
        return False

    def __ne__(self, other):
        return False


class EqRaises:
    """identity, not equality, must decide: comparing raises"""
    __hash__ = object.__hash__

    def __eq__(self, other):
        raise RuntimeError("__eq__ called")

    def __ne__(self, other):
        raise RuntimeError("__ne__ called")


HOSTILE = {"eqtrue": EqTrue, "eqtruene": EqTrueNeTrue, "eqfalse": EqFalse, "eqraise": EqRaises}


# What stands for "a value" (a __conform__ / hook / custom __adapt__ / factory result).  The protocol
# only distinguishes None from not-None, so falsy objects and tuples of every shape are adapters
# like any other.  The three singletons ((), 0, '') are each used at most once per case: the k-th
# value created in a case gets flavour (shift + k) mod len(FLAVOURS).
FLAVOURS = [
    lambda v: (),
    lambda v: 0,
    lambda v: "",
    lambda v: [],
    lambda v: FalsyBool(),
    lambda v: LenZero(),
    lambda v: (Val(v), Val(v)),
    lambda v: (Val(v),),
    lambda v: ((Val(v), Val(v)),),
    lambda v: float("0.0"),
    lambda v: {},
    lambda v: EqTrue(),
    lambda v: EqTrueNeTrue(),
    lambda v: EqFalse(),
    lambda v: EqRaises(),
]


def make_alt(code):
    """alternate: 0 None, 1 an ordinary object, 2 a falsy list, 3 a pair, 4 a falsy float,
    5-8 objects with hostile __eq__ / __ne__, 9 unittest.mock.ANY"""
    if code == 0:
        return None
    if code == 2:
        return []
    if code == 3:
        return (Val(-2), Val(-3))
    if code == 4:
        return float("0.0")
    if code == 5:
        return EqTrue()
    if code == 6:
        return EqTrueNeTrue()
    if code == 7:
        return EqFalse()
    if code == 8:
        return EqRaises()
    if code == 9:
        import unittest.mock
        return unittest.mock.ANY
    return Val(-1)


def make_exc(kind, tag):
    if kind == "attr":
        return AttributeError("t%d" % tag)
    if kind == "type":
        return TypeError("t%d" % tag)
    return OTHER[tag % 4]("t%d" % tag)


class Ctx:
    def __init__(self):
        self.log = []
        self.ok = True
        self.obj = None
        self.I = None
        self.V = {}
        self.E = {}
        self.flavour = None      # None: ordinary objects; n: falsy / tuple values, see FLAVOURS
        # nested adaptation J(other, None) started from inside a hook / factory
        self.depth = 0
        self.J = None
        self.other = None
        self.nlog = []
        self.nres = []

    def val(self, v):
        if v not in self.V:
            if self.flavour is None:
                self.V[v] = Val(v)
            else:
                self.V[v] = FLAVOURS[(self.flavour + len(self.V)) % len(FLAVOURS)](v)
        return self.V[v]

    def is_val(self, r):
        return any(r is x for x in self.V.values())

    def exc(self, kind, tag):
        if (kind, tag) not in self.E:
            self.E[(kind, tag)] = make_exc(kind, tag)
        return self.E[(kind, tag)]


def make_level(base, i, lv, ctx):
    """One chain level ([base] may be a tuple of base interfaces).  plain = False: ``class I_i(base)`` with @interfacemethod definitions;
    plain = True: ``class IC_i(type(base))`` (a plain subclass of the interface class so far)
    defining the same methods as ordinary methods, then ``IC_i('I_i', (base,), {})``."""
    ad = lv["adapt"]
    pv = lv.get("prov")
    other = lv["other"]
    bases = base if isinstance(base, tuple) else (base,)

    def enter(self, obj):
        ctx.log.append(["a", i])
        if obj is not ctx.obj or self is not ctx.I:
            ctx.ok = False

    def enter_prov(self, obj):
        ctx.log.append(["P", i])
        if obj is not ctx.obj or self is not ctx.I:
            ctx.ok = False

    def adapt_plain(self, obj):
        enter(self, obj)
        if ad[0] == "none":
            return None
        if ad[0] == "value":
            return ctx.val(ad[1])
        raise ctx.exc(ad[1], ad[2])

    def prov_plain(self, obj):
        enter_prov(self, obj)
        if pv[0] == "true":
            return True
        if pv[0] == "false":
            return False
        raise ctx.exc(pv[1], pv[2])

    ad_del = ad is not None and ad[0] == "delegate"
    pv_del = pv is not None and pv[0] == "delegate"

    if lv.get("plain"):
        holder = []     # the class, for the explicit super(IC, self) of the delegating methods
        ns = {}
        if ad_del:
            def __adapt__(self, obj):
                enter(self, obj)
                return super(holder[0], self).__adapt__(obj)
            ns["__adapt__"] = __adapt__
        elif ad is not None:
            ns["__adapt__"] = adapt_plain
        if pv_del:
            def providedBy(self, obj):
                enter_prov(self, obj)
                return super(holder[0], self).providedBy(obj)
            ns["providedBy"] = providedBy
        elif pv is not None:
            ns["providedBy"] = prov_plain
        if other:
            ns["extra_method"] = lambda self: i
        IC = type("IC%d" % i, (type(bases[0]),), ns)
        holder.append(IC)
        return IC("I%d" % i, bases, {})

    # class statements: a body that mentions super() gets a __classcell__, which InterfaceClass
    # only accepts together with interfacemethods
    if ad_del and pv_del:
        class IX(*bases):
            @interfacemethod
            def __adapt__(self, obj):
                enter(self, obj)
                return super().__adapt__(obj)

            @interfacemethod
            def providedBy(self, obj):
                enter_prov(self, obj)
                return super().providedBy(obj)
            if other:
                @interfacemethod
                def extra_method(self):
                    return i
    elif ad_del:
        class IX(*bases):
            @interfacemethod
            def __adapt__(self, obj):
                enter(self, obj)
                return super().__adapt__(obj)
            if pv is not None:
                @interfacemethod
                def providedBy(self, obj):
                    return prov_plain(self, obj)
            if other:
                @interfacemethod
                def extra_method(self):
                    return i
    elif pv_del:
        class IX(*bases):
            @interfacemethod
            def providedBy(self, obj):
                enter_prov(self, obj)
                return super().providedBy(obj)
            if ad is not None:
                @interfacemethod
                def __adapt__(self, obj):
                    return adapt_plain(self, obj)
            if other:
                @interfacemethod
                def extra_method(self):
                    return i
    else:
        class IX(*bases):
            if ad is not None:
                @interfacemethod
                def __adapt__(self, obj):
                    return adapt_plain(self, obj)
            if pv is not None:
                @interfacemethod
                def providedBy(self, obj):
                    return prov_plain(self, obj)
            if other:
                @interfacemethod
                def extra_method(self):
                    return i

    return IX


class MetaclassConflict(Exception):
    pass


def build_dag(nodes, ctx):
    """A DAG of interfaces, nodes in creation order: {"bases": [indices] ([] = Interface),
    "how": "class" | "call_ic" | "call_type", "adapt", "prov", "other"}.  Returns the last one."""
    from zope.interface.interface import InterfaceClass
    ifaces = []
    for i, nd in enumerate(nodes):
        bases = tuple(ifaces[b] for b in nd["bases"]) or (Interface,)
        if nd["how"] == "call_ic":
            it = InterfaceClass("I%d" % i, bases, {})
        elif nd["how"] == "call_type":
            it = type(bases[0])("I%d" % i, bases, {})
        else:
            try:
                it = make_level(bases, i, nd, ctx)
            except TypeError as e:
                if "metaclass conflict" in str(e):
                    raise MetaclassConflict(str(e))
                raise
        ifaces.append(it)
    return ifaces[-1]


def build_iface(chain, ctx):
    base = Interface
    for i, lv in enumerate(chain):
        base = make_level(base, i, lv, ctx)
    if not chain:
        class I0(Interface):
            pass
        base = I0
    return base


class CallLogger:
    """conform = functools.partial(operator.add, CallLogger(ctx)): conform(I) runs __add__ (a Python
    frame that returns normally) and then fails inside the interpreter with a TypeError whose
    traceback has a single entry: the 'bare TypeError at call depth 0'."""

    def __init__(self, ctx):
        self.ctx = ctx

    def __add__(self, other):
        self.ctx.log.append(["c"])
        if other is not self.ctx.I:
            self.ctx.ok = False
        return NotImplemented


def build_obj(case, I, ctx):
    conform = case["conform"]
    kind = conform[0]
    log = ctx.log

    if case.get("objkind") == "classobj":
        # the object is a class whose *instances* conform: I(cls) calls the unbound method
        class Meta(type):
            def __getattribute__(cls, n):
                if n in WATCH:
                    log.append(WATCH[n])
                return type.__getattribute__(cls, n)

        class Obj(metaclass=Meta):
            def __conform__(self, iface):
                log.append(["c"])
                return ctx.val(99)

        if case["provides"]:
            directlyProvides(Obj, I)
        return Obj

    # HOW __conform__ is attached (the property does not depend on it):
    #   method       a normal method on the class (bound method: has __self__)
    #   static       staticmethod on the class (plain function, no __self__)
    #   classmethod  classmethod on the class (__self__ is the class)
    #   inst_func / inst_lambda / inst_partial / inst_callable
    #                a function / lambda / functools.partial / callable object stored in the
    #                INSTANCE __dict__, nothing on the class
    #   getattr      supplied by the class's __getattr__
    #   slots        stored in a slot of a class with __slots__ (no instance __dict__)
    # watch = False: the class keeps the generic attribute lookup (no __getattribute__ override),
    # so the reads of __conform__ / __providedBy__ are not logged.
    attach = case.get("attach", "method")
    watch = case.get("watch", True)
    arity = kind == "te0" and (attach != "method" or case.get("te0how") == "arity")

    def behave(iface):
        # body of a __conform__ that is really entered
        log.append(["c"])
        if iface is not ctx.I:
            ctx.ok = False
        if kind == "retnone":
            return None
        if kind == "retvalue":
            return ctx.val(conform[1])
        raise ctx.exc(conform[1], conform[2])

    def never():
        # body of a __conform__ whose call fails before it is entered (wrong arity)
        log.append(["c"])
        ctx.ok = False
        return ctx.val(98)

    ns = {}
    if watch:
        def __getattribute__(self, n):
            if n in WATCH:
                log.append(WATCH[n])
            return object.__getattribute__(self, n)
        ns["__getattribute__"] = __getattribute__
    on_instance = None
    if attach == "slots":
        ns["__slots__"] = ("__conform__",)
    if kind == "getraise":
        e = ctx.exc(conform[1], conform[2])

        def getter(self):
            raise e
        ns.pop("__slots__", None)
        ns["__conform__"] = property(getter)
    elif kind == "getnone":
        if attach == "slots":
            on_instance = (None,)
        elif attach.startswith("inst_"):
            on_instance = (None,)
        else:
            ns["__conform__"] = None
    elif kind == "te0" and not arity:
        ns["__conform__"] = functools.partial(operator.add, CallLogger(ctx))
    elif kind in ("retnone", "retvalue", "raise", "te0"):
        if attach == "method":
            if arity:
                def __conform__(self):
                    return never()
            else:
                def __conform__(self, iface):
                    if self is not ctx.obj:
                        ctx.ok = False
                    return behave(iface)
            ns["__conform__"] = __conform__
        elif attach == "static":
            if arity:
                def f():
                    return never()
            else:
                def f(iface):
                    return behave(iface)
            ns["__conform__"] = staticmethod(f)
        elif attach == "classmethod":
            if arity:
                def f(klass):
                    return never()
            else:
                def f(klass, iface):
                    return behave(iface)
            ns["__conform__"] = classmethod(f)
        elif attach == "getattr":
            if arity:
                def f():
                    return never()
            else:
                def f(iface):
                    return behave(iface)

            def __getattr__(self, n):
                if n == "__conform__":
                    return f
                raise AttributeError(n)
            ns["__getattr__"] = __getattr__
        elif attach in ("inst_func", "slots"):
            if arity:
                def f():
                    return never()
            else:
                def f(iface):
                    return behave(iface)
            on_instance = (f,)
        elif attach == "inst_lambda":
            on_instance = ((lambda: never()) if arity else (lambda iface: behave(iface)),)
        elif attach == "inst_partial":
            if arity:
                on_instance = (functools.partial(lambda tag: never(), "tag"),)
            else:
                on_instance = (functools.partial(lambda tag, iface: behave(iface), "tag"),)
        else:
            assert attach == "inst_callable", attach
            if arity:
                class Conf:
                    def __call__(self):
                        return never()
            else:
                class Conf:
                    def __call__(self, iface):
                        return behave(iface)
            on_instance = (Conf(),)
    else:
        assert kind == "absent", kind
    # the adapted object may itself be falsy or a tuple (empty, singleton, pair, nested)
    of = case.get("objflavour", "plain")
    base, init = object, ()
    if of in ("tuple0", "tuple1", "tuple2", "nested"):
        base = tuple
        init = ({"tuple0": (), "tuple1": (1,), "tuple2": (1, 2), "nested": ((3, 4),)}[of],)
    elif of == "falsy":
        ns["__bool__"] = lambda self: False
    elif of == "len0":
        ns["__len__"] = lambda self: 0
    elif of in HOSTILE:
        for nm in ("__eq__", "__ne__", "__hash__"):
            if nm in HOSTILE[of].__dict__:
                ns[nm] = HOSTILE[of].__dict__[nm]
    cls = type("Obj", (base,), ns)
    how = case.get("how", "implementer")
    if "__slots__" in ns and how in ("directly", "also"):
        how = "implementer"      # no instance __dict__ to hold __provides__
    if case["provides"]:
        if how == "implementer":
            implementer(I)(cls)
        elif how == "sub":
            class ISub(I):
                pass
            implementer(ISub)(cls)
    ob = cls(*init)
    if on_instance is not None:
        object.__setattr__(ob, "__conform__", on_instance[0])
    if case["provides"]:
        if how == "directly":
            directlyProvides(ob, I)
        elif how == "also":
            alsoProvides(ob, I)
    return ob


def make_hook(i, h, ctx, nested=None):
    """adapter_hooks[i].  At depth 0 it logs ["h", i], checks that it is called as hook(I, obj),
    optionally (nested["at"] == i) adapts ANOTHER object to ANOTHER interface first -- J(other, None),
    which runs every hook again at depth 1 -- and then answers.  At depth 1 it logs into the nested
    log, checks that it is called as hook(J, other) and answers nested["nhooks"][i]."""
    def hook(iface, ob):
        if ctx.depth > 0:
            ctx.nlog.append(["h", i])
            if iface is not ctx.J or ob is not ctx.other:
                ctx.ok = False
            nh = nested["nhooks"][i]
            return ctx.val(nh[1]) if nh[0] == "value" else None
        ctx.log.append(["h", i])
        if iface is not ctx.I or ob is not ctx.obj:
            ctx.ok = False
        if nested is not None and nested["at"] == i:
            ctx.depth += 1
            try:
                r = ctx.J(ctx.other, None)
            finally:
                ctx.depth -= 1
            ctx.nres.append(r)
            if nested.get("ret"):
                return r if ctx.is_val(r) else None
        if h[0] == "none":
            return None
        if h[0] == "value":
            return ctx.val(h[1])
        raise ctx.exc(h[1], h[2])
    return hook


def build_nested(nested, ctx):
    """The other interface J and the other object of a nested adaptation."""
    class J(Interface):
        pass

    nlog = ctx.nlog
    conform = nested["conform"]

    class Other:
        def __getattribute__(self, n):
            if n in WATCH:
                nlog.append(WATCH[n])
            return object.__getattribute__(self, n)
        if conform[0] != "absent":
            def __conform__(self, iface):
                nlog.append(["c"])
                if iface is not ctx.J:
                    ctx.ok = False
                return ctx.val(conform[1]) if conform[0] == "retvalue" else None

    if nested["provides"]:
        implementer(J)(Other)
    ctx.J = J
    ctx.other = Other()


def nested_obs(ctx):
    if not ctx.nres:
        return None
    r = ctx.nres[0]
    if r is ctx.other:
        out = ["obj"]
    elif ctx.is_val(r):
        out = ["val", [v for v, x in ctx.V.items() if x is r][0]]
    elif r is None:
        out = ["alt"]
    else:
        out = ["unknown", type(r).__name__]
    return {"log": list(ctx.nlog), "out": out}


def outcome(f, ctx, alt_given, alt):
    try:
        r = f()
    except BaseException as e:  # noqa
        for (k, t), ob in ctx.E.items():
            if e is ob:
                return ["exc", k, t]
        if (type(e) is TypeError and len(e.args) == 3 and e.args[0] == "Could not adapt"
                and e.args[1] is ctx.obj and e.args[2] is ctx.I):
            return ["cna"]
        return ["unknown", type(e).__name__]
    if r is ctx.obj:
        return ["obj"]
    for v, ob in ctx.V.items():
        if r is ob:
            return ["val", v]
    if alt_given and r is alt:
        return ["alt"]
    if r is None:
        return ["none"]
    return ["unknown", "result:" + type(r).__name__]


def run_instrumented(case):
    ctx = Ctx()
    ctx.flavour = case.get("flavour")
    if case.get("dag") is not None:
        try:
            I = build_dag(case["dag"], ctx)
        except MetaclassConflict:
            return {"conflict": True, "log": [], "out": ["unknown", "metaclass conflict"], "alog": None, "aout": None,
                    "ok": True, "nested": None}
    else:
        I = build_iface(case["chain"], ctx)
    ctx.I = I
    ob = build_obj(case, I, ctx)
    ctx.obj = ob
    nested = case.get("nested")
    if nested is not None:
        build_nested(nested, ctx)
    hooks = [make_hook(i, h, ctx, nested) for i, h in enumerate(case["hooks"])]
    alt_given = case["alt"] is not None
    alt = make_alt(case["alt"]) if alt_given else None
    saved = list(adapter_hooks)
    adapter_hooks[:] = hooks
    try:
        del ctx.log[:]
        aout = outcome(lambda: I.__adapt__(ob), ctx, False, None)
        alog = list(ctx.log)
        del ctx.log[:]
        del ctx.nlog[:]
        del ctx.nres[:]
        # every call shape: obj / alternate positional or keyword, in either keyword order
        shape = case.get("shape") or ("pk" if case.get("kw") else "pp")
        if not alt_given:
            call = (lambda: I(obj=ob)) if shape in ("kk", "kk_rev", "k") else (lambda: I(ob))
        elif shape == "pk":
            call = lambda: I(ob, alternate=alt)
        elif shape == "kk":
            call = lambda: I(obj=ob, alternate=alt)
        elif shape == "kk_rev":
            call = lambda: I(alternate=alt, obj=ob)
        else:
            call = lambda: I(ob, alt)
        out = outcome(call, ctx, alt_given, alt)
        log = list(ctx.log)
    finally:
        adapter_hooks[:] = saved
    return {"log": log, "out": out, "alog": alog, "aout": aout, "ok": ctx.ok, "nested": nested_obs(ctx)}


def run_registry(case):
    ctx = Ctx()
    ctx.flavour = case.get("flavour")

    class IReq(Interface):
        pass

    class ISubReq(IReq):
        pass

    class I(Interface):
        pass

    ctx.I = I
    log = ctx.log

    class Obj:
        def __getattribute__(self, n):
            if n == "__conform__":
                log.append(["g"])
            return object.__getattribute__(self, n)

    decl = []
    if case["req"] == "IReq":
        decl.append(IReq)
    elif case["req"] == "ISubReq":
        decl.append(ISubReq)
    if case["provides"]:
        decl.append(I)
    if decl:
        implementer(*decl)(Obj)
    ob = Obj()
    ctx.obj = ob
    product = None if case["factory_none"] else ctx.val(1)
    calls = []

    nested = case.get("nested")
    if nested:
        build_nested({"conform": ["absent"], "provides": False}, ctx)

    def factory(o):
        calls.append(o is ob)
        if nested:
            # an adapter factory that looks at another object first (nobody adapts it)
            ctx.depth += 1
            try:
                ctx.J(ctx.other, None)
            finally:
                ctx.depth -= 1
        return product

    def checker(iface, o):
        # a second hook after the registry's: must be called as hook(I, obj) / hook(J, other)
        if ctx.depth > 0:
            if iface is not ctx.J or o is not ctx.other:
                ctx.ok = False
            return None
        if iface is not I or o is not ob:
            ctx.ok = False
        return ctx.val(2)

    reg = AdapterRegistry()
    r = case["reg"]
    if r == "IReq":
        reg.register([IReq], I, "", factory)
    elif r == "Interface":
        reg.register([Interface], I, "", factory)
    elif r == "None":
        reg.register([None], I, "", factory)
    elif r == "named":
        reg.register([IReq], I, "other-name", factory)
    alt_given = case["alt"] is not None
    alt = make_alt(case["alt"]) if alt_given else None
    saved = list(adapter_hooks)
    adapter_hooks[:] = [reg.adapter_hook, checker] if nested else [reg.adapter_hook]
    try:
        q = reg.queryAdapter(ob, I)
        qv = None if q is None else (1 if q is product else -7)
        del log[:]
        del ctx.nlog[:]
        if alt_given:
            out = outcome(lambda: I(ob, alt), ctx, True, alt)
        else:
            out = outcome(lambda: I(ob), ctx, False, None)
        lg = list(log)
        ok = all(calls) and ctx.ok
        if alt_given and not case["provides"] and not nested:
            # the statement's last sentence, literally
            try:
                direct = I(ob, alt)
            except BaseException:  # noqa
                direct = calls  # cannot be identical to anything queryAdapter returns
            if direct is not reg.queryAdapter(ob, I, default=alt):
                ok = False
    finally:
        adapter_hooks[:] = saved
    return {"log": lg, "out": out, "alog": None, "aout": None, "ok": ok, "q": qv}


def main():
    payload = _boot.read_payload()
    res = []
    for case in payload["cases"]:
        try:
            if case.get("kind") == "registry":
                res.append(run_registry(case))
            else:
                res.append(run_instrumented(case))
        except BaseException as e:  # noqa: report as data, never crash
            res.append({"log": [], "out": ["unknown", "driver:" + type(e).__name__ + ":" + str(e)[:200]],
                        "alog": None, "aout": None, "ok": False})
    assert adapter_hooks == [], "adapter_hooks not restored"
    _boot.write_result({"obs": res})


main()
