"""setup_cmd: regenerate translated kernels from /repo, then build every .vo (full build)."""
import importlib
import os
import pkgutil
import sys

from . import common as C
from . import props


def main():
    errs = []
    for m in pkgutil.iter_modules(props.__path__):
        P = importlib.import_module("harness.props." + m.name)
        if hasattr(P, "ID") and hasattr(P, "regenerate"):
            try:
                run = C.Run(P.ID, "quick", 0)
                e = P.regenerate(run) or []
                errs += ["%s translator: %s" % (P.ID, x) for x in e]
            except Exception as ex:  # noqa
                errs.append("%s translator aborted: %r" % (P.ID, ex))
    hits = C.scan_forbidden()
    errs += ["forbidden: " + h for h in hits]
    ok, out = C.coq_make(["-k", "all"] if False else [])
    if not ok:
        errs.append("make failed:\n" + out[-4000:])
    for e in errs:
        print("SETUP-ERROR:", e)
    print("setup: %d Coq sources, %s" % (len(C.coq_sources()), "ok" if not errs else "FAILED"))
    sys.exit(1 if errs else 0)


if __name__ == "__main__":
    main()
