"""Shared machinery for every property check.

Pipeline of one check run (see DESIGN.md sections 3 and 4):

  1. build a scratch copy of /repo's *current working tree* (Python sources + the C
     extension compiled with gcc), never importing the in-tree .so;
  2. (re)generate translated kernels into coq/Gen, build the Coq targets this property needs
     with a full .vo ``make`` under a lock, scan the sources for forbidden tokens, compile the
     property file itself with ``coqc`` and collect its ``Print Assumptions`` output;
  3. run corpus + generated cases on the implementation (C mode and PURE_PYTHON mode);
  4. write the same cases *with the implementation's observations* into cases_*.v files and let
     Coq evaluate, with vm_compute, ``check_model`` (model output = observation) and
     ``check_spec`` (observation satisfies the abstract Spec the theorems are about);
  5. verdict, replay files, evidence/<id>.json.
"""
import concurrent.futures
import fcntl
import hashlib
import json
import os
import random
import re
import shutil
import subprocess
import sys
import tempfile
import time

VERIF = os.path.dirname(os.path.dirname(os.path.abspath(__file__)))
REPO = os.environ.get("VERIF_REPO", "/repo")
PY = os.environ.get("VERIF_PYTHON", "/venv/bin/python")
COQ = os.path.join(VERIF, "coq")
DRIVERS = os.path.join(VERIF, "harness", "drivers")
REPLAYS = os.path.join(VERIF, "replays")
EVIDENCE = os.environ.get("VERIF_EVIDENCE_DIR") or os.path.join(VERIF, "evidence")   # overridden only by bin/tryseed
CORPUS = os.path.join(VERIF, "corpus")
KNOWN = os.path.join(VERIF, "known_findings.txt")
NCPU = os.cpu_count() or 4

FORBIDDEN = re.compile(
    r"\b(Admitted|admit|Axiom|Axioms|Parameter|Parameters|Conjecture|Conjectures|Admit\s+Obligations|"
    r"bypass_check|native_compute)\b|Unset\s+Guard|Unset\s+Positivity|Unset\s+Universe|"
    r"type-in-type|impredicative-set|Guard\s+Checking|Positivity\s+Checking|Universe\s+Checking"
)
# Variable / Hypothesis are only legal inside a Section; checked separately.
SECTION_ONLY = re.compile(r"^\s*(Variable|Variables|Hypothesis|Hypotheses|Context)\b")


class HarnessError(Exception):
    """The machinery itself failed (not a verdict about the property)."""


def log(*a):
    print(*a, file=sys.stderr, flush=True)


# --------------------------------------------------------------------------- implementation

class Impl:
    """Scratch build of /repo's working tree."""

    def __init__(self):
        self.dir = tempfile.mkdtemp(prefix="zi_verif_impl_")
        self.c_ok = False
        self.c_error = ""
        src = os.path.join(REPO, "src", "zope")
        shutil.copytree(
            src,
            os.path.join(self.dir, "zope"),
            ignore=shutil.ignore_patterns("*.so", "__pycache__", "*.pyc", "*.o"),
        )
        self._build_c()

    def _build_c(self):
        inc = subprocess.run(
            [PY, "-c", "import sysconfig;print(sysconfig.get_paths()['include']);print(sysconfig.get_config_var('EXT_SUFFIX'))"],
            capture_output=True, text=True, check=True,
        ).stdout.split()
        include, suffix = inc[0], inc[1]
        pkg = os.path.join(self.dir, "zope", "interface")
        out = os.path.join(pkg, "_zope_interface_coptimizations" + suffix)
        cmd = ["gcc", "-shared", "-fPIC", "-O1", "-g", "-I" + include,
               os.path.join(pkg, "_zope_interface_coptimizations.c"), "-o", out]
        extra = os.environ.get("VERIF_CFLAGS")
        if extra:
            cmd[1:1] = extra.split()
        r = subprocess.run(cmd, capture_output=True, text=True)
        self.c_ok = r.returncode == 0
        self.c_error = r.stderr[-4000:]

    def run(self, driver, payload, mode, env=None, timeout=600, raw=False):
        """Run harness/drivers/<driver> on JSON payload; return parsed JSON result.

        Returns ("ok", result) or ("crash", info) — a crash of the interpreter (signal) is
        information some properties (C11) care about."""
        e = dict(os.environ)
        e.update({
            "ZI_SCRATCH": self.dir, "ZI_MODE": mode, "PYTHONHASHSEED": e.get("VERIF_HASHSEED", "0"),
            "PYTHONPATH": DRIVERS, "PYTHONDONTWRITEBYTECODE": "1",
        })
        e.pop("PURE_PYTHON", None)
        if env:
            e.update(env)
        p = subprocess.run([PY, os.path.join(DRIVERS, driver)], input=json.dumps(payload),
                           capture_output=True, text=True, env=e, timeout=timeout)
        if p.returncode != 0:
            return ("crash", {"returncode": p.returncode, "stderr": p.stderr[-6000:], "stdout": p.stdout[-2000:]})
        if raw:
            return ("ok", p.stdout)
        try:
            return ("ok", json.loads(p.stdout))
        except ValueError:
            return ("crash", {"returncode": 0, "stderr": p.stderr[-3000:], "stdout": p.stdout[-3000:]})

    def cleanup(self):
        shutil.rmtree(self.dir, ignore_errors=True)


# --------------------------------------------------------------------------- Coq build

def coq_sources():
    out = []
    for sub in ("Lib", "Model", "Spec", "Proofs", "Properties", "Tie", "Gen"):
        d = os.path.join(COQ, sub)
        if not os.path.isdir(d):
            continue
        for root, _dirs, files in os.walk(d):
            for f in sorted(files):
                if f.endswith(".v"):
                    out.append(os.path.relpath(os.path.join(root, f), COQ))
    return sorted(out)


def scan_forbidden(files=None):
    """Fail closed on anything that would declare an axiom or weaken the kernel."""
    hits = []
    for rel in files or coq_sources():
        depth = 0
        with open(os.path.join(COQ, rel)) as fh:
            text = fh.read()
        # strip comments (non-nested is enough for our sources; nested handled by loop)
        prev = None
        while prev != text:
            prev = text
            text = re.sub(r"\(\*[^*(]*(?:\*(?!\))[^*(]*|\((?!\*)[^*(]*)*\*\)", " ", text)
        for n, line in enumerate(text.split("\n"), 1):
            if re.match(r"^\s*Section\b", line):
                depth += 1
            if re.match(r"^\s*End\b", line) and depth > 0:
                depth -= 1
            if FORBIDDEN.search(line):
                hits.append("%s:%d: %s" % (rel, n, line.strip()))
            if depth == 0 and SECTION_ONLY.match(line):
                hits.append("%s:%d: (outside section) %s" % (rel, n, line.strip()))
    return hits


_REQ = re.compile(r"From\s+ZI\s+Require\s+(?:Import|Export)?\s*([^.]*(?:\.[A-Za-z_][\w']*[^.]*)*)\.\s", re.S)


def coq_closure(targets):
    """Source files (relative to coq/) the given .vo targets depend on, by following
    ``From ZI Require`` lines.  Used to scan only what a property actually relies on."""
    todo = [t[:-1] if t.endswith(".vo") else t for t in targets]
    seen = []
    while todo:
        f = todo.pop()
        if f in seen or not os.path.exists(os.path.join(COQ, f)):
            continue
        seen.append(f)
        text = open(os.path.join(COQ, f)).read()
        for m in re.finditer(r"From\s+ZI\s+Require\s+(?:Import\s+|Export\s+)?(.*?)\.(?=\s)", text, re.S):
            for mod in m.group(1).split():
                todo.append(mod.replace(".", "/") + ".v")
    return sorted(seen)


class CoqLock:
    def __enter__(self):
        os.makedirs(COQ, exist_ok=True)
        self.fh = open(os.path.join(COQ, ".lock"), "w")
        fcntl.flock(self.fh, fcntl.LOCK_EX)
        return self

    def __exit__(self, *a):
        fcntl.flock(self.fh, fcntl.LOCK_UN)
        self.fh.close()


def _ensure_makefile():
    srcs = coq_sources()
    proj = "-Q . ZI\n-arg -w -arg -notation-overridden,-deprecated-hint-without-locality,-deprecated-instance-without-locality\n" + "\n".join(srcs) + "\n"
    pj = os.path.join(COQ, "_CoqProject")
    old = open(pj).read() if os.path.exists(pj) else None
    if old != proj or not os.path.exists(os.path.join(COQ, "Makefile.coq")):
        with open(pj, "w") as fh:
            fh.write(proj)
        subprocess.run(["coq_makefile", "-f", "_CoqProject", "-o", "Makefile.coq"], cwd=COQ, check=True,
                       capture_output=True)


def coq_make(targets, timeout=3000):
    """Full .vo build of the given targets (paths relative to coq/, '.vo').  Returns
    (ok, output)."""
    with CoqLock():
        _ensure_makefile()
        # -k: keep going, so that a Tie target (the Spec oracle) is still built when a proof
        # over a regenerated kernel fails; the failure is still reported through the exit status
        cmd = ["timeout", str(timeout), "make", "-k", "-f", "Makefile.coq", "-j%d" % NCPU] + [t for t in targets if t != "-k"]
        p = subprocess.run(cmd, cwd=COQ, capture_output=True, text=True)
        return p.returncode == 0, (p.stdout[-6000:] + "\n" + p.stderr[-6000:])


def coqc_file(path, timeout=1200, cwd=None):
    p = subprocess.run(["timeout", str(timeout), "coqc", "-Q", COQ, "ZI", "-w",
                        "-notation-overridden,-deprecated-hint-without-locality,-abstract-large-number", path],
                       capture_output=True, text=True, cwd=cwd or os.path.dirname(path))
    return p.returncode, p.stdout, p.stderr


def write_if_changed(path, text):
    old = open(path).read() if os.path.exists(path) else None
    if old != text:
        os.makedirs(os.path.dirname(path), exist_ok=True)
        with open(path, "w") as fh:
            fh.write(text)
        return True
    return False


def parse_assumptions(stdout, theorems):
    """Split coqc output of a Properties file into {theorem: assumptions-text}.  The file
    prints, after each theorem, ``Print Assumptions thm.``; Coq answers either
    'Closed under the global context' or 'Axioms:' followed by the list."""
    chunks = re.split(r"(?m)^(?=Closed under the global context|Axioms:)", stdout)
    chunks = [c.strip() for c in chunks if c.strip().startswith(("Closed under", "Axioms:"))]
    res = {}
    for i, t in enumerate(theorems):
        res[t] = chunks[i] if i < len(chunks) else "MISSING"
    return res, len(chunks)


# --------------------------------------------------------------------------- Coq evaluation of cases

_RES = re.compile(r"=\s*(\[[^\]]*\])\s*:\s*list nat", re.S)

CASES_HEADER = """From Coq Require Import List ZArith NArith Bool.
Import ListNotations.
From ZI Require Import %(tie)s.
Set Printing Width 1000000.
Set Printing Depth 1000000.
Local Open Scope nat_scope.
Definition cases : list %(tie)s.case_t := [
%(body)s
].
Definition bad_idx (f : %(tie)s.case_t -> bool) : list nat :=
  map fst (filter (fun p => negb (f (snd p))) (combine (seq 0 (List.length cases)) cases)).
Eval vm_compute in (bad_idx %(tie)s.check_model).
Eval vm_compute in (bad_idx %(tie)s.check_spec).
"""


def coq_eval_cases(tie, terms, shard=300, timeout=1500, workdir=None, extra_evals=None):
    """terms: list of Coq terms of type <tie>.case_t.  Returns (bad_model, bad_spec,
    errors) as global indices."""
    own = workdir is None
    workdir = workdir or tempfile.mkdtemp(prefix="zvc%d_" % os.getpid())
    shards = [terms[i:i + shard] for i in range(0, len(terms), shard)]
    files = []
    for k, sh in enumerate(shards):
        path = os.path.join(workdir, "cases_%s_%d.v" % (tie.replace(".", "_"), k))
        with open(path, "w") as fh:
            fh.write(CASES_HEADER % {"tie": tie, "body": ";\n".join(sh)})
        files.append(path)

    def one(path):
        return coqc_file(path, timeout=timeout, cwd=workdir)

    bad_model, bad_spec, errors = [], [], []
    with concurrent.futures.ThreadPoolExecutor(max_workers=NCPU) as ex:
        results = list(ex.map(one, files))
    for k, (rc, out, err) in enumerate(results):
        if rc != 0 and ("Killed" in err or rc in (-9, 137, 124) or "Cannot allocate" in err or "Out of memory" in err):
            # a shard killed under memory pressure from concurrent runs: retry it alone, once
            rc, out, err = one(files[k])
        found = _RES.findall(out)
        if rc != 0 or len(found) != 2:
            errors.append({"shard": k, "rc": rc, "stderr": err[-3000:], "stdout": out[-1000:], "file": files[k]})
            continue
        for lst, acc in ((found[0], bad_model), (found[1], bad_spec)):
            inner = lst.strip()[1:-1].strip()
            if inner:
                acc.extend(k * shard + int(x) for x in inner.replace("%nat", "").split(";"))
    if own and not os.environ.get("VERIF_KEEP"):
        shutil.rmtree(workdir, ignore_errors=True)
    return sorted(bad_model), sorted(bad_spec), errors[:2]


def coq_eval_expr(tie, case_term, expr, timeout=300):
    """Evaluate ``expr`` (a Coq expression mentioning ``c``) on one case and return Coq's printed answer."""
    d = tempfile.mkdtemp(prefix="zvo%d_" % os.getpid())
    path = os.path.join(d, "one.v")
    with open(path, "w") as fh:
        fh.write("From Coq Require Import List ZArith NArith Bool.\nImport ListNotations.\n"
                 "From ZI Require Import %s.\nSet Printing Width 200.\nSet Printing Depth 100000.\nLocal Open Scope nat_scope.\n"
                 "Definition c : %s.case_t := %s.\nEval vm_compute in (%s).\n" % (tie, tie, case_term, expr))
    rc, out, err = coqc_file(path, timeout=timeout, cwd=d)
    shutil.rmtree(d, ignore_errors=True)
    return out.strip() if rc == 0 else "coqc failed: " + err[-1500:]


# --------------------------------------------------------------------------- Coq term helpers

def cnat(n):
    return "%d" % n


def cN(n):
    return "%d%%N" % n


def cZ(n):
    return "(%d)%%Z" % n


def cbool(b):
    return "true" if b else "false"


def clist(items):
    return "[" + "; ".join(items) + "]"


def copt(x, f=lambda v: v):
    return "None" if x is None else "(Some %s)" % f(x)


def cstr_codes(s):
    """Python str -> Coq ``list N`` of code points (the model's string type)."""
    return "[" + "; ".join("%d%%N" % ord(ch) for ch in s) + "]"


def cpair(a, b):
    return "(%s, %s)" % (a, b)


# --------------------------------------------------------------------------- known findings

def load_known(prop):
    """known_findings.txt lines:
         finding: property=Cxx key=<signature> <free text>
         fixed: property=Cxx <commit> <free text>
    Only 'finding:' lines suppress, and only the exact signature."""
    res = {}
    if os.path.exists(KNOWN):
        for line in open(KNOWN):
            line = line.strip()
            m = re.match(r"finding:\s+property=(\S+)\s+key=(\S+)\s+(.*)", line)
            if m and m.group(1) == prop:
                res[m.group(2)] = m.group(3)
    return res


# --------------------------------------------------------------------------- evidence / verdict

class Run:
    def __init__(self, prop_id, tier, seed):
        self.prop = prop_id
        self.tier = tier
        self.seed = seed
        self.t0 = time.time()
        self.violations = []      # dicts: kind, what, replay, no_input
        self.known_hits = []
        self.coverage = {}
        self.assumptions = []
        os.makedirs(REPLAYS, exist_ok=True)
        os.makedirs(EVIDENCE, exist_ok=True)

    def rng(self, salt=""):
        h = hashlib.sha256(("%s/%s/%s" % (self.prop, self.seed, salt)).encode()).digest()
        return random.Random(int.from_bytes(h[:8], "big"))

    def replay_path(self, tag):
        return os.path.join(REPLAYS, "%s_%s_%s_%s.json" % (self.prop, self.tier, self.seed, tag))

    def add_violation(self, what, replay_obj, tag, no_input=False, key=None, known=None):
        if key is not None and known and key in known:
            msg = "KNOWN-FINDING: property=%s %s [%s]" % (self.prop, known[key], key)
            if msg not in self.known_hits:
                self.known_hits.append(msg)
            return
        path = self.replay_path(tag)
        same_kind = [v for v in self.violations if v["no_input"] == no_input]
        if len(same_kind) >= 12:   # cap the number of replay files per run and kind
            self.violations.append({"what": what, "replay": same_kind[-1]["replay"], "no_input": no_input})
            return
        with open(path, "w") as fh:
            json.dump(replay_obj, fh, indent=1, sort_keys=True, default=str)
        self.violations.append({"what": what, "replay": path, "no_input": no_input})

    def finish(self, level="proof"):
        ev = {
            "property_id": self.prop, "tier": self.tier, "seed": self.seed, "level": level,
            "coverage": self.coverage, "assumptions": self.assumptions,
            "wall_s": round(time.time() - self.t0, 2), "violations": len(self.violations),
        }
        with open(os.path.join(EVIDENCE, self.prop + ".json"), "w") as fh:
            json.dump(ev, fh, indent=1, sort_keys=True, default=str)
        for k in self.known_hits:
            print(k)
        # concrete inputs first
        self.violations.sort(key=lambda v: v["no_input"])
        for v in self.violations[:20]:
            log("  violation:", v["what"])
        for v in [v for v in self.violations[20:] if v["no_input"]][:10]:
            log("  violation:", v["what"])
        if self.violations:
            v = self.violations[0]
            print("VIOLATION property=%s replay=%s%s" % (self.prop, v["replay"], " no-failing-input-found" if v["no_input"] else ""))
            return 1
        print("OK property=%s tier=%s seed=%s wall=%.1fs" % (self.prop, self.tier, self.seed, time.time() - self.t0))
        return 0


def load_corpus(prop):
    d = os.path.join(CORPUS, prop)
    out = []
    if os.path.isdir(d):
        for f in sorted(os.listdir(d)):
            if f.endswith(".json"):
                with open(os.path.join(d, f)) as fh:
                    obj = json.load(fh)
                if isinstance(obj, dict) and "cases" in obj:
                    out.extend(obj["cases"])
                elif isinstance(obj, list):
                    out.extend(obj)
                else:
                    out.append(obj)
    return out
