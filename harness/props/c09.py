"""C09 — registration bookkeeping reflects exactly the net effect of the history
(DESIGN.md section 5, C09).  Histories target the bookkeeping: overwrites, repeated identical
registrations, register(None), unregister with identical / equal-but-distinct / absent values,
removal of the last entry of a nested container while sibling keys remain, rebuild() in the middle
(with the same lookups before and after), and a replay of allRegistrations()/allSubscriptions()
into a second registry."""
from .. import common as C
from . import regcommon as RC

ID = "C09"
COQ_TARGETS = ["Tie/C09.vo", "Properties/C09.vo"]
PROPERTY_FILE = "Properties/C09.v"
TIE = "Tie.C09"
DRIVER = "c09_driver.py"
SHARD = 40
THEOREMS = [
    "C09_registered_is_last", "C09_ledger_last_write_wins", "C09_register_None_is_unregister",
    "C09_unregister_value_identity", "C09_reregister_same_noop",
    "C09_allRegistrations_exact", "C09_allSubscriptions_exact", "C09_subscribed_exact",
    "C09_provided_count_ge_live", "C09_extendors_exact",
    "C09_replay_preserves", "C09_rebuild_preserves",
    "C09_unambiguous_lookup_coincides", "C09_unambiguous_subscriptions_coincide",
    "C09_rebuild_answers_unambiguous_lookups", "C09_replay_answers_unambiguous_lookups",
    "C09_regsys_step_storage",
    "C09_trie_invariant", "C09_trie_step_refines", "C09_trie_rebuild_is_replay", "C09_trie_find_leaf_agrees",
    "C09_trie_walkers_equal_flat", "C09_trie_allRegistrations_exact", "C09_trie_refines_flat",
    "C09_trie_lockstep_is_brun_without_rebuild",
    "C09_trie_subscriber_leaf_key", "C09_trie_enumeration_is_permutation", "C09_trie_nested_rebuild_preserves",
    "C09_trie_answers_ledger", "C09_trie_unambiguous_as_flat", "C09_rebuild_order_irrelevant_for_unambiguous",
    "C09_regsys_reachable_inv",
]
RULE = ("1-2 base-less registries (both flavours) over a generated interface/class world; keys come in "
        "families sharing a required prefix and differing in provided / name / last required; values 1..6 "
        "with equal-but-distinct twins (1,2) (3,4) (5,6), values 3 and 6 FALSY (__bool__); every cached lookup "
        "entry point is warmed through a key before it is overwritten (mid-history and before the replay "
        "stream); a case is non-trivial when it contains an overwrite "
        "or a twin/identical re-registration or a removal with a surviving sibling or a rebuild; distinct = "
        "distinct (first 14 op kinds, #rebuilds, #live at end) signature")
TRUSTED_BASE = ["shared registry model Model/Adapter.v + Model/Lookup.v + Model/RegSys.v (validated by bin/check REG and by "
                "this correspondence); its flat-map abstraction of the nested dictionaries is PROVED (Model/Trie.v "
                "refines it: C09_trie_refines_flat, C09_trie_walkers_equal_flat) and Model/Trie.v is compared with the "
                "implementation's private layout (_adapters, _subscribers, _provided) after every mutation",
                "the correspondence reads the private attributes _adapters / _subscribers / _provided (layout tie only; "
                "the Spec oracle uses public API results)"]
ASSUMPTIONS = ["the specification graph is static during a history",
               "an object's identity determines the object (identity_ok): no two values share an id"]

NAMES = [0, 0, 1, 2]


def _twin(v):
    vid = v[0]
    t = vid + 1 if vid % 2 == 1 else vid - 1
    return [t, (t + 1) // 2]


def _value(rng):
    vid = rng.randrange(1, 7)
    return [vid, (vid + 1) // 2]


def _conv(x):
    return 0 if x is None else x


class Gen:
    def __init__(self, rng, tier):
        self.rng = rng
        self.world, self.ifaces, self.classes = RC.gen_world(
            rng, n_ifaces=rng.choice([3, 4, 5]), n_classes=rng.choice([0, 0, 2]), n_objects=0)
        self.rel = RC.Rel(self.world)
        self.key_pool = list(self.ifaces) + list(self.classes) + [0, None]
        self.look_pool = list(self.ifaces) + list(self.classes)
        self.fl = rng.choice(["push", "verifying"])
        self.n_regs = rng.choice([1, 1, 2])
        self.ops = [["newreg", self.fl, []] for _ in range(self.n_regs)]
        self.akeys = []          # (req, p, name)
        self.skeys = []          # (req, p-or-None)
        self.cur = {}            # (r, key) -> last value registered (rough, for choosing values)
        self.subvals = {}        # (r, skey) -> values subscribed (rough)
        self.tags = set()

    # ---- keys
    def fresh_req(self):
        ar = self.rng.choice([0, 1, 1, 1, 2, 2, 3])
        return [self.rng.choice(self.key_pool) for _ in range(ar)]

    def akey(self, derived=0.7):
        rng = self.rng
        if self.akeys and rng.random() < derived:
            req, p, n = rng.choice(self.akeys)
            req = list(req)
            c = rng.random()
            if c < 0.3 or not req and c < 0.6:
                p = rng.choice(self.ifaces)
            elif c < 0.55 or not req:
                n = rng.choice([0, 1, 2])
            elif c < 0.85:
                req[-1] = rng.choice(self.key_pool)
            else:
                req[0] = rng.choice(self.key_pool)
            k = (req, p, n)
        else:
            k = (self.fresh_req(), rng.choice(self.ifaces), rng.choice(NAMES))
        return k

    def skey(self, derived=0.7):
        rng = self.rng
        if self.skeys and rng.random() < derived:
            req, p = rng.choice(self.skeys)
            req = list(req)
            c = rng.random()
            if c < 0.4 or not req:
                p = rng.choice(self.ifaces + [None])
            elif c < 0.8:
                req[-1] = rng.choice(self.key_pool)
            else:
                req[0] = rng.choice(self.key_pool)
            return (req, p)
        return (self.fresh_req(), rng.choice(self.ifaces + [None]))

    @staticmethod
    def canon(k):
        return (tuple(_conv(x) for x in k[0]),) + tuple(k[1:])

    # ---- mutators
    def register(self, r, k, v):
        if not any(self.canon(k) == self.canon(x) for x in self.akeys):
            self.akeys.append(k)
        old = self.cur.get((r, self.canon(k)))
        if v is not None and old is not None:
            self.tags.add("identical" if old == v else "twin" if old[1] == v[1] else "overwrite")
        self.ops.append(["register", r, list(k[0]), k[1], k[2], v])
        if v is None:
            self.cur.pop((r, self.canon(k)), None)
        else:
            self.cur[(r, self.canon(k))] = v

    def unregister(self, r, k, v):
        self.ops.append(["unregister", r, list(k[0]), k[1], k[2], v])
        old = self.cur.get((r, self.canon(k)))
        if old is not None and (v is None or v == old):
            del self.cur[(r, self.canon(k))]
            pre = self.canon(k)[0]
            if any(rr == r and kk[0][:len(pre) - 1] == pre[:len(pre) - 1] and len(kk[0]) == len(pre)
                   for (rr, kk) in self.cur):
                self.tags.add("sibling")

    def subscribe(self, r, k, v):
        if not any(self.canon(k) == self.canon(x) for x in self.skeys):
            self.skeys.append(k)
        self.subvals.setdefault((r, self.canon(k)), []).append(v)
        self.ops.append(["subscribe", r, list(k[0]), k[1], v])

    def unsubscribe(self, r, k, v):
        self.ops.append(["unsubscribe", r, list(k[0]), k[1], v])

    # ---- queries
    def look_req(self, req):
        out = []
        for x in req:
            cand = [d for d in self.rel.descendants(_conv(x)) if d in self.look_pool] or self.look_pool
            out.append(self.rng.choice(cand))
        return out

    def q_lookup(self, r, key=None):
        rng = self.rng
        if key is not None or (self.akeys and rng.random() < 0.9):
            req0, p0, n0 = key if key is not None else rng.choice(self.akeys)
            exact = [_conv(x) for x in req0]
            if key is not None and rng.random() < 0.5 and all(x in self.look_pool for x in exact):
                req = exact
            else:
                req = self.look_req(req0)
            up = [x for x in self.rel.ancestors(p0) if x in self.ifaces or x == 0]
            p = p0 if rng.random() < (0.7 if key is not None else 0.45) else rng.choice(up)
            n = n0
        else:
            req = [rng.choice(self.look_pool) for _ in range(rng.choice([0, 1, 2]))]
            p, n = rng.choice(self.ifaces + [0]), rng.choice(NAMES)
        c = rng.random()
        if c < 0.7:
            return ["lookup", r, req, p, n]
        if c < 0.85:
            return ["lookupAll", r, req, p]
        if c < 0.92 and len(req) == 1:
            return ["lookup1", r, req[0], p, n]
        return ["names", r, req, p]

    def through(self, r, key):
        """every cached lookup entry point, resolving through [key]"""
        q = self.q_lookup(r, key)
        while q[0] != "lookup":
            q = self.q_lookup(r, key)
        _k, _r, req, p, n = q
        out = [q, ["lookupAll", r, req, p], ["names", r, req, p]]
        if len(req) == 1:
            out.append(["lookup1", r, req[0], p, n])
        out.append(["subscriptions", r, req, p])
        return out

    def other_value(self, old):
        v = _twin(old) if self.rng.random() < 0.4 else _value(self.rng)
        while v == old:
            v = _value(self.rng)
        return v

    def q_subs(self, r):
        rng = self.rng
        if self.skeys and rng.random() < 0.9:
            req0, p0 = rng.choice(self.skeys)
            req = self.look_req(req0)
            if p0 is None:
                p = None
            else:
                up = [x for x in self.rel.ancestors(p0) if x in self.ifaces or x == 0]
                p = p0 if rng.random() < 0.45 else rng.choice(up)
        else:
            req = [rng.choice(self.look_pool) for _ in range(rng.choice([0, 1, 2]))]
            p = rng.choice(self.ifaces + [0, None])
        return ["subscriptions", r, req, p]

    def q_book(self, r):
        rng = self.rng
        c = rng.random()
        if c < 0.4 and self.akeys:
            k = rng.choice(self.akeys)
            return ["registered", r, list(k[0]), k[1], k[2]]
        if c < 0.6 and self.skeys:
            k = rng.choice(self.skeys)
            vs = self.subvals.get((r, self.canon(k)), [])
            v = rng.choice(vs) if vs and rng.random() < 0.6 else _value(rng)
            if rng.random() < 0.3:
                v = _twin(v)
            return ["subscribed", r, list(k[0]), k[1], v]
        if c < 0.8:
            return ["allRegistrations", r]
        return ["allSubscriptions", r]

    def query(self, r):
        c = self.rng.random()
        if c < 0.4:
            return self.q_book(r)
        if c < 0.8:
            return self.q_lookup(r)
        return self.q_subs(r)

    # ---- one step of the history
    def step(self):
        rng = self.rng
        r = rng.randrange(self.n_regs)
        c = rng.random()
        used = [k for k in self.akeys]
        if c < 0.22:
            self.register(r, self.akey(), _value(rng))
        elif c < 0.36 and used:
            k = rng.choice(used)
            old = self.cur.get((r, self.canon(k)))
            d = rng.random()
            if old is not None and d < 0.35:
                v = list(old)
            elif old is not None and d < 0.7:
                v = _twin(old)
            else:
                v = _value(rng)
            self.register(r, k, v)
        elif c < 0.39 and used:
            self.register(r, rng.choice(used), None)
        elif c < 0.52 and used:
            k = rng.choice(used)
            old = self.cur.get((r, self.canon(k)))
            d = rng.random()
            if d < 0.3:
                v = None
            elif old is not None and d < 0.55:
                v = list(old)
            elif old is not None and d < 0.85:
                v = _twin(old)
            else:
                v = _value(rng)
            self.unregister(r, k, v)
        elif c < 0.54:
            self.unregister(r, self.akey(derived=0.5), None if rng.random() < 0.5 else _value(rng))
        elif c < 0.60 and used:
            # sibling scenario: a sibling of a live key is added, then the key itself removed
            live = [k for k in used if (r, self.canon(k)) in self.cur]
            if live:
                k = rng.choice(live)
                req = list(k[0])
                d = rng.random()
                if d < 0.35:
                    sib = (req, rng.choice(self.ifaces), k[2])
                elif d < 0.65 or not req:
                    sib = (req, k[1], rng.choice([0, 1, 2]))
                else:
                    req[-1] = rng.choice(self.key_pool)
                    sib = (req, k[1], k[2])
                self.register(r, sib, _value(rng))
                self.unregister(r, k, None if rng.random() < 0.6 else list(self.cur.get((r, self.canon(k)), _value(rng))))
                self.ops.append(["registered", r, list(sib[0]), sib[1], sib[2]])
                self.ops.append(["registered", r, list(k[0]), k[1], k[2]])
        elif c < 0.70:
            k = self.skey()
            vs = self.subvals.get((r, self.canon(k)), [])
            d = rng.random()
            if vs and d < 0.25:
                v = list(rng.choice(vs))
            elif vs and d < 0.45:
                v = _twin(rng.choice(vs))
            else:
                v = _value(rng)
            self.subscribe(r, k, v)
        elif c < 0.78 and self.skeys:
            k = rng.choice(self.skeys)
            vs = self.subvals.get((r, self.canon(k)), [])
            d = rng.random()
            if d < 0.25:
                v = None
            elif vs and d < 0.6:
                v = list(rng.choice(vs))
            elif vs and d < 0.8:
                v = _twin(rng.choice(vs))
            else:
                v = _value(rng)
            self.unsubscribe(r, k, v)
        elif c < 0.79:
            self.unsubscribe(r, self.skey(derived=0.4), None)
        elif c < 0.84:
            batch = [self.q_lookup(r) for _ in range(rng.choice([2, 3, 4]))] + \
                    [self.q_subs(r) for _ in range(rng.choice([1, 2]))] + [self.q_book(r)]
            self.ops.extend(batch)
            self.ops.append(["rebuild", r])
            self.ops.extend([list(q) for q in batch])
            self.tags.add("rebuild")
        elif c < 0.87 and len(self.ifaces) >= 2:
            # ambiguity scenario: two required keys, provided interfaces interleaved so that the
            # nested-dictionary enumeration order differs from the registration order
            pool = [x for x in self.key_pool if x is not None]
            r1, r2 = rng.sample(pool, 2) if len(pool) >= 2 else (pool[0], pool[0])
            ps = list(self.ifaces)
            rng.shuffle(ps)
            p1, p2, p3 = (ps + ps)[:3]
            n = rng.choice([0, 0, 1])
            for (rq, pp) in ((r1, p1), (r2, p2), (r1, p3), (r2, p3)):
                self.register(r, ([rq], pp, n), _value(rng))
            self.subscribe(r, ([r2], p2), _value(rng))
            self.subscribe(r, ([r1], p3), _value(rng))
            self.subscribe(r, ([r2], p3), _value(rng))
            for rq in (r1, r2):
                self.ops.append(["lookup", r, self.look_req([rq]), 0, n])
                self.ops.append(["subscriptions", r, self.look_req([rq]), 0])
            self.tags.add("ambiguous")
        elif c < 0.91 and used:
            # warm every cache through a live key, overwrite that key with another object, ask again,
            # then (often) rebuild and ask once more: no other mutation in between
            live = [k for k in used if (r, self.canon(k)) in self.cur]
            if live:
                k = rng.choice(live)
                batch = self.through(r, k)
                self.ops.extend(batch)
                self.register(r, k, self.other_value(self.cur[(r, self.canon(k))]))
                self.ops.extend([list(q) for q in batch])
                if rng.random() < 0.6:
                    self.ops.append(["rebuild", r])
                    self.ops.extend([list(q) for q in batch])
                    self.tags.add("rebuild")
                self.tags.add("warm-overwrite")
        else:
            self.ops.append(self.query(r))

    def finish(self):
        rng = self.rng
        r0 = rng.randrange(self.n_regs)
        qs = []
        for k in self.akeys:
            qs.append(["registered", r0, list(k[0]), k[1], k[2]])
        for k in self.skeys:
            vs = self.subvals.get((r0, self.canon(k)), [])
            seen = []
            for v in vs[:3] + [_value(rng)]:
                for cand in (v, _twin(v)):
                    if cand not in seen:
                        seen.append(cand)
            for v in seen[:4]:
                qs.append(["subscribed", r0, list(k[0]), k[1], v])
        qs.append(["allRegistrations", r0])
        qs.append(["allSubscriptions", r0])
        live = [k for k in self.akeys if (r0, self.canon(k)) in self.cur]
        rng.shuffle(live)
        over = live[:rng.choice([1, 1, 2, 3])] if rng.random() < 0.65 else []
        looks = []
        for k in over:
            looks.extend(self.through(r0, k))
        while len(looks) < 8:
            looks.append(self.q_lookup(r0))
        for _ in range(4):
            looks.append(self.q_subs(r0))
        if over:
            # warm the caches with exactly the final lookups, overwrite, and go straight to the
            # replay stream (no other mutation in between)
            self.ops.extend([list(q) for q in looks])
            for k in over:
                self.register(r0, k, self.other_value(self.cur[(r0, self.canon(k))]))
            self.tags.add("warm-overwrite")
        qs.extend(looks)
        case = dict(self.world)
        case["ops"] = self.ops
        case["replay"] = {"reg": r0, "queries": qs}
        case["tags"] = sorted(self.tags)
        return case


def gen_case(rng, tier, n_ops):
    g = Gen(rng, tier)
    for _ in range(n_ops):
        g.step()
    return g.finish()


def generate(run, tier):
    rng = run.rng("gen")
    cases = []
    for _ in range(160 if tier == "quick" else 2500):
        cases.append(gen_case(rng, tier, rng.choice([6, 12, 20, 30])))
    return cases


# --------------------------------------------------------------------------- Coq emission

def _c_akv(e):
    return "((%s, %d, %d), %s)" % (RC.c_lnat(e[0]), e[1], e[2], RC.c_value(e[3]))


def _c_skv(e):
    return "((%s, %s), %s)" % (RC.c_lnat(e[0]), RC.c_ospec(e[1]), RC.c_value(e[2]))


def _c_order(o):
    return "([%s], [%s])" % ("; ".join(_c_akv(e) for e in o["regs"]), "; ".join(_c_skv(e) for e in o["subs"]))


def _c_trie(x):
    if "v" in x:
        return "Leaf %s" % RC.c_value(x["v"])
    if "l" in x:
        return "Leaf [%s]" % "; ".join(RC.c_value(v) for v in x["l"])
    return "Node [%s]" % "; ".join("(%d, %s)" % (k, _c_trie(sub)) for k, sub in x["n"])


def _c_layout(l):
    return "([%s], [%s], [%s])" % ("; ".join(_c_trie(t) for t in l["ad"]), "; ".join(_c_trie(t) for t in l["su"]),
                                   "; ".join("(%d, %d)" % (k, n) for k, n in l["pc"]))


def _c_ops(ops, obs):
    return "[" + ";\n    ".join(RC.c_op(op, obs, []) for op in ops) + "]"


def coq_case(case, obs, mode):
    if "error" in obs:
        # the implementation raised outside a single operation (enumeration / replay): encode as a
        # history whose answers cannot match (both checks fail -> concrete violation)
        if not obs.get("specs"):
            raise C.HarnessError("driver error: " + obs["error"])
        return "(%s, %s,\n   %s,\n   [[3; 0]], [], [], (0, Push, ([], []), [], [], [], ([], [], [])))" % (
            RC.c_graph(obs), RC.c_ifaces(obs), _c_ops(case["ops"], obs))
    rp = obs["replay"]
    qs = case["replay"]["queries"]
    return "(%s, %s,\n   %s,\n   %s,\n   [%s],\n   [%s],\n   (%d, %s, %s,\n    %s,\n    %s,\n    %s,\n    %s))" % (
        RC.c_graph(obs), RC.c_ifaces(obs), _c_ops(case["ops"], obs), RC.c_answers(obs["answers"]),
        "; ".join(_c_order(o) for o in obs["orders"]),
        ";\n    ".join(_c_layout(l) for l in obs["layouts"]),
        case["replay"]["reg"], "Push" if rp["flavour"] == "push" else "Verifying", _c_order(rp["listing"]),
        _c_ops(qs, obs), RC.c_answers(rp["a1"]), RC.c_answers(rp["a2"]), _c_layout(rp["layout"]))


def classify(case, obs):
    tags = case.get("tags") or []
    if not tags:
        return None
    live = len(obs.get("replay", {}).get("listing", {}).get("regs", [])) if isinstance(obs, dict) else 0
    return (tuple(op[0] for op in case["ops"][:14]), sum(1 for op in case["ops"] if op[0] == "rebuild"), live)


def kind(case, obs):
    return "+".join(case.get("tags") or ["plain"])


def finding_key(case, obs, mode):
    return None


# --------------------------------------------------------------------------- replay text

def _py_val(v):
    return "None" if v is None else "V%d" % v[0]


def replay_text(case, obs, mode):
    L = ["# PURE_PYTHON=%s" % ("1" if mode == "py" else "0"),
         "from zope.interface import Interface, implementer",
         "from zope.interface.interface import InterfaceClass",
         "from zope.interface.adapter import AdapterRegistry, VerifyingAdapterRegistry",
         "class V:",
         "    def __init__(self, vid, veq): self.vid, self.veq = vid, veq",
         "    def __eq__(self, o): return isinstance(o, V) and o.veq == self.veq",
         "    def __ne__(self, o): return not self == o",
         "    def __hash__(self): return hash(self.veq)",
         "    def __bool__(self): return self.vid % 3 != 0      # V3 and V6 are falsy",
         "    def __repr__(self): return 'V%d' % self.vid",
         "S = {0: Interface}"]
    for i, s in enumerate(case["specs"]):
        if s["kind"] == "iface":
            L.append("S[%d] = InterfaceClass('I%d', tuple(S[b] for b in %r) or (Interface,))" % (i, i, s["bases"]))
        elif s["kind"] == "object":
            L.append("from zope.interface import implementedBy; C = {%d: object}; S[%d] = implementedBy(object)" % (i, i))
        elif s["kind"] == "class":
            L.append("C[%d] = type('C%d', tuple(C[b] for b in %r) or (object,), {}); "
                     "%r and implementer(*[S[b] for b in %r])(C[%d]); S[%d] = implementedBy(C[%d])"
                     % (i, i, s["cbases"], s["implements"], s["implements"], i, i, i))
    for vid in range(1, 7):
        L.append("V%d = V(%d, %d)" % (vid, vid, (vid + 1) // 2))
    L.append("N = lambda n: '' if n == 0 else 'n%d' % n")
    L.append("R = lambda l: [None if x is None else S[x] for x in l]")
    L.append("P = lambda p: None if p is None else S[p]")
    L.append("regs = []")

    def line(op, a):
        k = op[0]
        if k == "newreg":
            return "regs.append(%s())" % ("AdapterRegistry" if op[1] == "push" else "VerifyingAdapterRegistry")
        r = "regs[%d]" % op[1]
        if k in ("register", "unregister"):
            return "%s.%s(R(%r), P(%r), N(%r), %s)" % (r, k, op[2], op[3], op[4], _py_val(op[5]))
        if k in ("subscribe", "unsubscribe"):
            return "%s.%s(R(%r), P(%r), %s)" % (r, k, op[2], op[3], _py_val(op[4]))
        if k == "rebuild":
            return "%s.rebuild()" % r
        if k == "registered":
            return "print(%s.registered(R(%r), P(%r), N(%r)))   # observed %r" % (r, op[2], op[3], op[4], a)
        if k == "subscribed":
            return "print(%s.subscribed(R(%r), P(%r), %s))   # observed %r" % (r, op[2], op[3], _py_val(op[4]), a)
        if k in ("allRegistrations", "allSubscriptions"):
            return "print(list(%s.%s()))   # observed (canonical) %r" % (r, k, a)
        if k == "lookup":
            return "print(%s.lookup(R(%r), P(%r), N(%r)))   # observed %r" % (r, op[2], op[3], op[4], a)
        if k == "lookup1":
            return "print(%s.lookup1(S[%r], P(%r), N(%r)))   # observed %r" % (r, op[2], op[3], op[4], a)
        if k in ("lookupAll", "names"):
            return "print(list(%s.%s(R(%r), P(%r))))   # observed %r" % (r, k, op[2], op[3], a)
        if k == "subscriptions":
            return "print(%s.subscriptions(R(%r), P(%r)))   # observed %r" % (r, op[2], op[3], a)
        return "# %r" % (op,)

    ans = obs.get("answers") or [None] * len(case["ops"])
    for op, a in zip(case["ops"], ans):
        L.append(line(op, a))
    if "replay" in obs:
        r0 = case["replay"]["reg"]
        L.append("# ---- replay stream: queries on regs[%d], then on a second registry filled from its listings" % r0)
        for q, a in zip(case["replay"]["queries"], obs["replay"]["a1"]):
            L.append(line(q, a))
        L.append("second = type(regs[%d])()" % r0)
        L.append("for t in list(regs[%d].allRegistrations()): second.register(*t)" % r0)
        L.append("for t in list(regs[%d].allSubscriptions()): second.subscribe(*t)" % r0)
        L.append("regs.append(second)")
        for q, a in zip(case["replay"]["queries"], obs["replay"]["a2"]):
            q = list(q)
            q[1] = len([o for o in case["ops"] if o[0] == "newreg"])
            L.append(line(q, a))
    else:
        L.append("# driver error: %s" % obs.get("error"))
    return "\n".join(L)


TECHNIQUE = ("Coq proof by induction over operation histories on the shared Gallina registry model, refinement to an "
             "abstract ledger; vm_compute correspondence with both implementations; independent ledger oracle in Coq")
LEVEL_TEXT = ("Machine-checked theorems (Properties/C09.v, closed under the global context) state for ALL histories of "
              "register/unregister/subscribe/unsubscribe/rebuild that registered/allRegistrations/allSubscriptions/"
              "subscribed equal the abstract ledger, that rebuild() and a replay of the listings in ANY enumeration "
              "order preserve both maps with exact _provided counts, and that every unambiguous lookup/subscriptions "
              "query is answered identically; a second model of the storage as the code has it (nested dictionaries "
              "with padding, pruning loop, stripping, _allKeys enumeration, walkers with their truthiness tests and "
              "guards) is proved to refine the flat one for all histories.  Both models are run against the C and "
              "Python implementations on generated histories on every run: public answers, the private nested layout "
              "after every mutation, and the exact enumeration order; the implementation's raw answers are judged by "
              "the ledger inside Coq.")
LEVEL_NOTE = ("Trusted: Coq kernel/vm_compute; the hand-written registry models (tied to the code by the correspondence, "
              "incl. layout) and the harness.  The nested enumeration is proved to be a NoDup-key permutation of the "
              "flat listing keeping per-key order, so the nested run is identified with the plain flat run and the "
              "ledger through rebuild().  Unambiguous = at most one applicable provided interface carries an entry under each "
              "required-key tuple.")
