"""C06 — registries consult exactly their current base chain, in resolution order
(DESIGN.md section 5, C06)."""
import os

from .. import common as C
from ..translate import regchain as TR
from ..translate import verify_c as TC
from . import regcommon as RC

ID = "C06"
COQ_TARGETS = ["Tie/C06.vo", "Properties/C06.vo"]
PROPERTY_FILE = "Properties/C06.v"
TIE = "Tie.C06"
DRIVER = "c06_driver.py"
THEOREMS = [
    "C06_push_ro_coherent", "C06_push_subregistries_mirror_bases",
    "C06_verifying_ro_coherent_after_verify", "C06_verifying_snapshot_valid",
    "C06_current_chain_is_reachable_set",
    "C06_lookup_uses_current_chain", "C06_lookupAll_uses_current_chain", "C06_subscriptions_uses_current_chain",
    "C06_change_empties_caches_below", "C06_answers_after_change",
    "C06_push_change_empties_caches", "C06_verifying_verify_empties_cache",
    "C06_homogeneous_histories_are_mixed", "C06_mixed_ro_coherent", "C06_mixed_discipline",
    "C06_mixed_current_chain_is_reachable_set", "C06_mixed_lookup_uses_current_chain",
    "C06_mixed_lookupAll_uses_current_chain", "C06_mixed_subscriptions_uses_current_chain",
    "C06_mixed_change_empties_caches_below", "C06_mixed_answers_after_change",
    "C06_generations_strictly_increase",
    "C06_generated_refresh_loop_exits_first_round", "C06_generated_refresh_ro_eq_model",
    "C06_generated_lookup_changed_eq_model", "C06_generated_changed_eq_model",
    "C06_generated_changed_eq_after_bump", "C06_generated_setBases_eq_model",
    "C06_generated_verify_eq_model", "C06_generated_init_eq_model",
    "C06_generated_c_generations_eq_model", "C06_generated_c_changed_eq_model",
    "C06_generated_c_lookup_changed_eq_model", "C06_generated_c_verify_eq_model",
    "C06_generated_c_verify_null_slot_calls_changed",
]
SOURCE = os.path.join(C.REPO, "src", "zope", "interface", "adapter.py")
GEN_FILE = os.path.join(C.COQ, "Gen", "RegChainKernel.v")
SHARD = 10
RULE = ("registry DAGs of 3-6 registries, of one flavour or MIXED (push tops/middles with verifying registries below them) (chains of 3-5 with one or two alternative tops, diamonds, "
        "diamonds with a tail, redundant-edge DAGs site(local, glob) with local(glob) whose indirect path is cut before "
        "glob changes), created in topological order; sweeps visit the registries top-first, bottom-first or shuffled, "
        "plus leaf-only sweeps right after a change (verifying registries in between have not looked yet); the same adapter keys / subscription keys are "
        "registered with registry-specific values in every member so that the nearest registry in C3 order decides; "
        "every round = one change (re-base at a rotating level incl. tops, middles and the bottom, or register / "
        "unregister / subscribe / unsubscribe in a random member) followed by a sweep of lookup / lookup1 / lookupAll / "
        "names / subscriptions / queryAdapter / queryMultiAdapter / subscribers from every member with the SAME keys "
        "(warm caches); a rebuild stream (the same chains with rebuild() of registries that have sub-registries, "
        "followed by re-basing / changing the rebuilt registry; one provided interface per case so that replay order "
        "cannot matter); plus random mixed histories (shared generator, re-basing weight raised) and a "
        "a third of the registry-stream cases runs on registry subclasses whose instances are falsy (__len__ = own "
        "registrations, with some registries kept empty, or __bool__ False); a Components stream (chains/diamonds of zope.interface.registry.Components, __bases__ reassigned at every "
        "level, registerAdapter/registerUtility/registerSubscriptionAdapter, queryAdapter/queryMultiAdapter/"
        "queryUtility/getUtilitiesFor/subscribers; judged by the Spec oracle only).  A case is non-trivial when some "
        "query op repeated after a re-base returned a different answer than before; distinct = (stream, flavour, "
        "registries, re-bases, number of answers that changed across a re-base)")
TRUSTED_BASE = [
    "Model/RegSys.v transcription of _setBases/_refresh_ro/changed/_verify (validated against both implementations "
    "by this correspondence and by bin/check REG)",
    "Model/Adapter.v finite-map abstraction of the nested dictionaries; Model/Ro.v transcription of ro.py "
    "(C3-ness of Ro.ro is property C03's subject)",
    "Tie/C06.check_spec oracle: replays net registrations per registry with Model/Adapter.v's storage functions "
    "(bookkeeping = property C09) and Model.Ro.ro on the current base graph",
    "harness/translate/regchain.py (fail-closed ast translator of _setBases/_refresh_ro/changed/_verify/__init__/"
    "_addSubregistry/_removeSubregistry and the lookup objects' changed()) and its statement vocabulary "
    "Model/RegPrim.v: attributes of a registry or of its lookup object = fields of its record, _v_subregistries = "
    "insertion-ordered key list, ro.ro(self) = fresh_ro, method resolution computed from the class skeleton the "
    "translator checks, single-threaded execution (the re-check loop of _refresh_ro is proved to exit in its first "
    "round)",
    "harness/translate/verify_c.py (fail-closed extractor over cskeleton.py's C parser) and Model/VerifyCPrims.v: "
    "tuple(x) keeps the elements, PyTuple_GetSlice = list slice, tuple != tuple = element-wise comparison, attributes "
    "as record fields; reference counting and the NULL/-1 failure branches are not translated (C11); LB_clear's "
    "cache release is translated, the C LookupBase lookups are C08's subject",
]
ASSUMPTIONS = [
    "registry graphs are acyclic: __bases__ only ever names registries created earlier (the real code recurses "
    "forever on a cycle); a push registry only has push bases (AttributeError in the real code otherwise), a "
    "verifying registry bases of either flavour",
    "rebuild() replays registrations in storage order (nested dictionaries in the code, flat insertion order in "
    "Model/Adapter.v): histories with rebuild() use one provided interface per case, so no lookup depends on that order",
    "the specification graph is static during a history (C02/C05's subject)",
]

def regenerate(run):
    """Re-translate the chain logic of adapter.py into coq/Gen/RegChainKernel.v (fail closed).  On abort a
    stub without a kernel is written: Proofs/RegChainKernel.v and Properties/C06.v then do not build (every
    theorem is reported unchecked) while the Tie (model + Spec oracle) still runs and looks for a concrete
    failing input."""
    errs = []
    try:
        text = TR.translate_file(SOURCE)
    except TR.TranslationError as e:
        text = TR.stub(SOURCE, str(e))
        errs.append("harness/translate/regchain.py refused %s: %s (Gen/RegChainKernel.v has no kernel; the "
                    "C06 theorems are NOT about the current source)" % (SOURCE, e))
    except (OSError, SyntaxError) as e:
        text = TR.stub(SOURCE, repr(e))
        errs.append("harness/translate/regchain.py cannot read %s: %r" % (SOURCE, e))
    # the C twins VB_clear / _generations_tuple / verify_changed / _verify
    c_ok = True
    try:
        ctext = TC.extract()
    except Exception as e:  # noqa: Abort or anything unexpected: refuse
        c_ok = False
        csrc = os.path.join(C.REPO, TC.SOURCE)
        ctext = TC.stub(csrc, "%s: %s" % (type(e).__name__, e))
        errs.append("harness/translate/verify_c.py refused %s: %s: %s (Gen/VerifyC.v has no kernel; the "
                    "C06_generated_c_* theorems are NOT about the current source)" % (csrc, type(e).__name__, e))
    with C.CoqLock():
        C.write_if_changed(GEN_FILE, text)
        C.write_if_changed(TC.OUT, ctext)
    run.coverage["translated_kernel"] = {"source": SOURCE, "generated": "coq/Gen/RegChainKernel.v", "ok": not errs,
                                         "c_source": TC.SOURCE, "c_generated": "coq/Gen/VerifyC.v", "c_ok": c_ok}
    ok, out = C.coq_make(["Tie/C06.vo"])
    if not ok:
        errs.append("Tie/C06.vo does not build:\n" + out[-2000:])
    return errs


QUERY = ("lookup", "lookup1", "lookupAll", "names", "subscriptions", "queryAdapter", "adapter_hook",
         "queryMultiAdapter", "subscribers")


# --------------------------------------------------------------------------- registry DAG shapes

def gen_dag(rng):
    """list of base lists; registry i only has bases < i (listed nearest-created first)."""
    shape = rng.choice(["chain", "chain", "chain", "diamond", "diamond", "tail", "mixed", "redundant", "redundant"])
    if shape == "redundant":
        # redundant edge: 0 above, 1 glob, 2 local(glob), 3 site(local, glob) [, 4 below(site)]
        return [[], [], [1], [2, 1]] + ([[3]] if rng.random() < 0.6 else [])
    if shape == "chain":
        alt = rng.choice([1, 1, 2])                # tops first: 0 (and 1) have no bases
        k = min(rng.choice([3, 4, 5]), 7 - alt)    # chain length, the top 0 included
        dag = [[] for _ in range(alt)]
        prev = 0
        for _ in range(k - 1):
            dag.append([prev])
            prev = len(dag) - 1
        return dag
    if shape == "diamond":
        # 0 top, 1 alt top, 2 left(0), 3 right(0), 4 bottom(3, 2)
        return [[], [], [0], [0], [3, 2]]
    if shape == "tail":
        return [[], [], [0], [0], [3, 2], [4]]
    # mixed: random DAG
    n = rng.choice([3, 4, 5, 6])
    dag = []
    for r in range(n):
        bs = [b for b in range(r) if rng.random() < 0.55][-2:]
        bs.reverse()
        dag.append(bs)
    return dag


def _reach(bases, x):
    out, todo = set(), [x]
    while todo:
        y = todo.pop()
        if y not in out:
            out.add(y)
            todo.extend(bases[y])
    return out


def _sweep(rng, regs, akeys, skeys, rel, look_pool, ifaces, nobj, frac=1.0):
    """the same query ops from every member of [regs], in that order (so that caches are warm on the next sweep)"""
    ops = []
    for r in regs:
        if rng.random() > frac:
            continue
        for (req, p, nm) in akeys:
            ops.append(["lookup", r, req, p, nm])
            if len(req) == 1:
                ops.append(["lookup1", r, req[0], p, nm])
            ops.append(["lookupAll", r, req, p])
        for (req, p) in skeys:
            ops.append(["subscriptions", r, req, p])
    return ops


def gen_chain_case(rng, fl, rebuild=False):
    """[rebuild]: rebuild() calls in the middle of the chains.  rebuild() replays the registrations in the
    storage's iteration order (nested dictionaries in the code, flat insertion order in Model/Adapter.v), which
    may reorder the extendors of a provided interface: such cases use ONE provided interface for all
    registrations, so that no lookup has two applicable provided interfaces to choose between."""
    ni = rng.choice([3, 4, 5])
    nc = rng.choice([0, 2, 2])
    world, ifaces, classes = RC.gen_world(rng, n_ifaces=ni, n_classes=nc, n_objects=3 if nc else 0)
    rel = RC.Rel(world)
    nobj = len(world.get("objects", []))
    look_pool = list(ifaces) + list(classes)
    dag = gen_dag(rng)
    n = len(dag)
    if fl == "mixed":
        # push registries first (tops / middles), verifying ones below them: a push registry only ever gets
        # push bases (bases have smaller numbers), a verifying one bases of either flavour
        cut = rng.randrange(1, n)
        flv = ["push" if i < cut else "verifying" for i in range(n)]
    else:
        flv = [fl] * n
    ops = [["newreg", flv[i], bs] for i, bs in enumerate(dag)]

    def desc(x):
        return rng.choice([d for d in rel.descendants(0 if x is None else x) if d in look_pool] or look_pool)

    # registration keys (possibly with None = Interface) and the lookup keys derived from them
    reg_keys, look_keys = [], []
    p0 = rng.choice(ifaces)
    for _ in range(rng.choice([2, 3])):
        ar = rng.choice([0, 1, 1, 2])
        req = RC.gen_req(rng, list(ifaces) + [0], ar)
        p = p0 if rebuild else rng.choice(ifaces)
        nm = rng.choice([0, 0, 1])
        reg_keys.append((req, p, nm))
        lp = rng.choice([x for x in rel.ancestors(p) if x in ifaces or x == 0])
        look_keys.append(([desc(x) for x in req], lp, nm))
    sub_keys, slook_keys = [], []
    for _ in range(rng.choice([1, 2])):
        ar = rng.choice([0, 1, 1, 2])
        req = RC.gen_req(rng, list(ifaces) + [0], ar)
        p = (p0 if rebuild else rng.choice(ifaces)) if rng.random() > 0.25 else None
        sub_keys.append((req, p))
        lp = None if p is None else rng.choice([x for x in rel.ancestors(p) if x in ifaces or x == 0])
        slook_keys.append(([desc(x) for x in req], lp))

    def value(r, k):
        # the value identifies the registry that holds it; kept small: answers of queryAdapter are
        # vid * 1000 + ..., and numbers are unary in the Coq evaluation
        vid = 1 + r if k < 5 else 7 + r
        return [vid, vid]

    def mutation(r=None):
        r = rng.randrange(n) if r is None else r
        kind = rng.choice(["register", "register", "register", "unregister", "subscribe", "subscribe", "unsubscribe"])
        if kind == "register":
            k = rng.randrange(len(reg_keys))
            req, p, nm = reg_keys[k]
            if rng.random() < 0.3:
                nm = rng.choice([0, 1, 2])      # more names for lookupAll
            return ["register", r, req, p, nm, value(r, k)]
        if kind == "unregister":
            k = rng.randrange(len(reg_keys))
            req, p, nm = reg_keys[k]
            return ["unregister", r, req, p, nm, None]
        if kind == "subscribe":
            k = rng.randrange(len(sub_keys))
            req, p = sub_keys[k]
            return ["subscribe", r, req, p, value(r, 5 + k)]
        k = rng.randrange(len(sub_keys))
        req, p = sub_keys[k]
        return ["unsubscribe", r, req, p, None if rng.random() < 0.5 else value(r, 5 + k)]

    # the order in which a sweep visits the registries matters for the verifying flavour: a lookup on a
    # middle registry refreshes IT; bottom-first sweeps and leaf-only sweeps query a leaf while the
    # registries between it and a re-based one have not noticed anything yet
    sweep_order = rng.choice([list(range(n)), list(range(n - 1, -1, -1)), list(range(n - 1, -1, -1)),
                              rng.sample(range(n), n)])

    def sweep(frac=1.0, regs=None):
        regs = sweep_order if regs is None else regs
        out = _sweep(rng, regs, look_keys, slook_keys, rel, look_pool, ifaces, nobj, frac)
        if nobj:
            for r in regs:
                if rng.random() > frac:
                    continue
                for (_req, p, nm) in look_keys[:2]:
                    o = rng.randrange(nobj)
                    out.append(["queryAdapter", r, o, p, nm])
                if rng.random() < 0.5:
                    (_req, p, nm) = look_keys[0]
                    out.append(["queryMultiAdapter", r, [rng.randrange(nobj) for _ in range(len(_req) or 1)], p, nm])
        return out

    # fill: every member registers (most of) the keys
    order = list(range(n))
    rng.shuffle(order)
    filled = {r: ([], []) for r in range(n)}
    for r in order:
        for k, (req, p, nm) in enumerate(reg_keys):
            if rng.random() < 0.75:
                ops.append(["register", r, req, p, nm, value(r, k)])
                filled[r][0].append(k)
        for k, (req, p) in enumerate(sub_keys):
            if rng.random() < 0.75:
                ops.append(["subscribe", r, req, p, value(r, 5 + k)])
                filled[r][1].append(k)
    fixed_sweep = sweep(1.0)
    ops += fixed_sweep
    if rebuild:
        # generation coincidence: swap one entry of a base for another (the number of entries stays the same),
        # rebuild() the base, and repeat the sweep with nothing in between.  Were the generation to restart at
        # rebuild(), it would come back to the value the registries below have in their snapshots.
        cands = [x for x in range(n) if any(x in bs for bs in dag) and (filled[x][0] or filled[x][1])]
        for m in rng.sample(cands, min(len(cands), rng.choice([1, 1, 2]))):
            if filled[m][0] and (not filled[m][1] or rng.random() < 0.75):
                req, p, nm = reg_keys[rng.choice(filled[m][0])]
                ops.append(["unregister", m, req, p, nm, None])
                ops.append(["register", m, req, p, nm, [13, 13]])
            else:
                req, p = sub_keys[rng.choice(filled[m][1])]
                ops.append(["unsubscribe", m, req, p, None])
                ops.append(["subscribe", m, req, p, [14, 14]])
            ops.append(["rebuild", m])
            ops += fixed_sweep if rng.random() < 0.6 else sweep(1.0, regs=[n - 1])
    # rounds
    cur = [list(bs) for bs in dag]
    level = rng.randrange(1, n)
    leaves = [x for x in range(n) if not any(x in bs for bs in dag)] or [n - 1]
    leaf_sweep = sweep(1.0, regs=[n - 1] if rng.random() < 0.6 else leaves)
    if dag[:4] == [[], [], [1], [2, 1]]:
        # redundant edge: cut the indirect path site -> local -> glob (the direct edge site -> glob stays),
        # then change glob (registrations, subscriptions, its own __bases__) with warm caches below
        ops.append(["setregbases", 2, rng.choice([[], [], [0]])])
        cur[2] = ops[-1][2]
        if rng.random() < 0.5:
            ops += fixed_sweep
        for _ in range(rng.choice([1, 2, 3])):
            if rng.random() < 0.35:
                ops.append(["setregbases", 1, [] if cur[1] else [0]])
                cur[1] = ops[-1][2]
                if rng.random() < 0.5:
                    ops.append(mutation(0))
            else:
                ops.append(mutation(1))
            ops += leaf_sweep if rng.random() < 0.4 else fixed_sweep
    for _ in range(rng.choice([3, 4, 5, 6])):
        what = rng.random()
        if rebuild and rng.random() < 0.6:
            # rebuild a registry (preferably one with registries based on it), then change IT or go on
            withsubs = [x for x in range(n) if any(x in bs for bs in cur)]
            m = rng.choice(withsubs) if withsubs and rng.random() < 0.8 else rng.randrange(n)
            ops.append(["rebuild", m])
            if rng.random() < 0.5:
                ops += leaf_sweep
            if rng.random() < 0.6:
                if m >= 1 and rng.random() < 0.5:
                    cand = list(range(m))
                    rng.shuffle(cand)
                    ops.append(["setregbases", m, sorted(cand[: rng.choice([0, 1, 1])], reverse=True)])
                    cur[m] = ops[-1][2]
                else:
                    ops.append(mutation(m))
                ops += fixed_sweep
                continue
        if what < 0.6:
            r = level
            level = level + 1 if level + 1 < n else 1
            cand = [b for b in range(r)]
            rng.shuffle(cand)
            bs = sorted(cand[: rng.choice([0, 1, 1, 1, 2])], reverse=True)
            ops.append(["setregbases", r, bs])
            cur[r] = bs
            if rng.random() < 0.5:
                # a change between the re-base and the next lookups, preferably in a registry BELOW the
                # re-based one (a verifying registry re-takes its generation snapshot when it changes)
                below = [x for x in range(n) if x != r and r in _reach(cur, x)]
                ops.append(mutation(rng.choice(below) if below and rng.random() < 0.8 else None))
        else:
            ops.append(mutation())
        if rng.random() < 0.4:
            ops += leaf_sweep                   # from the bottom only: nobody in between has looked yet
        ops += fixed_sweep if rng.random() < 0.7 else sweep(0.6)
    if nobj and slook_keys and rng.random() < 0.25:
        # (the answer of ``subscribers`` carries a 999999 separator, expensive as a unary nat: rarely)
        (_req, p) = slook_keys[0]
        ops.append(["subscribers", n - 1, [rng.randrange(nobj) for _ in range(len(_req) or 1)], p])
    world["ops"] = ops
    world["stream"] = "reg"
    return world


def _empty_some(rng, case):
    """leave one or two non-top registries without adapter registrations of their own (falsy under __len__)
    until the end of the history: drop the ``register`` ops addressed to them"""
    n = sum(1 for op in case["ops"] if op[0] == "newreg")
    if n < 2:
        return
    empty = set(rng.sample(range(1, n), min(n - 1, rng.choice([1, 1, 2]))))
    case["ops"] = [op for op in case["ops"] if not (op[0] == "register" and op[1] in empty)]


def gen_random_case(rng):
    world, ifaces, classes = RC.gen_world(rng, n_ifaces=rng.choice([3, 4, 5]), n_classes=rng.choice([0, 2, 3]))
    w = {"rebuild": 0, "setregbases": 4, "registered": 0.3, "subscribed": 0.3,
         "allRegistrations": 0.2, "allSubscriptions": 0.2}
    w["subscribers"] = 0
    world["ops"] = RC.gen_history(rng, world, ifaces, classes, n_ops=rng.choice([20, 30, 40]),
                                  n_regs=rng.choice([3, 4, 5, 6]), weights=w)
    world["stream"] = "reg"
    return world


def gen_comp_case(rng):
    world, ifaces, classes = RC.gen_world(rng, n_ifaces=rng.choice([3, 4]), n_classes=2, n_objects=3)
    rel = RC.Rel(world)
    nobj = len(world["objects"])
    dag = gen_dag(rng)
    n = len(dag)
    cops = [["newcomp", bs] for bs in dag]
    akeys = []
    for _ in range(2):
        req = [rng.choice(ifaces + [None]) for _ in range(rng.choice([1, 1, 2]))]
        akeys.append((req, rng.choice(ifaces), rng.choice([0, 0, 1])))
    ukeys = [(rng.choice(ifaces), rng.choice([0, 1])) for _ in range(2)]
    skey = ([rng.choice(ifaces + [None])], rng.choice(ifaces))

    def value(r, k):
        vid = 1 + r if k < 6 else 7 + r
        return [vid, vid]

    def anc(p):
        return rng.choice([x for x in rel.ancestors(p) if x in ifaces or x == 0])

    def fill(r):
        out = []
        for k, (req, p, nm) in enumerate(akeys):
            if rng.random() < 0.7:
                out.append(["registerAdapter", r, req, p, nm, value(r, k)])
        for k, (p, nm) in enumerate(ukeys):
            if rng.random() < 0.7:
                out.append(["registerUtility", r, p, nm, value(r, 3 + k)])
        if rng.random() < 0.6:
            out.append(["registerSubscriptionAdapter", r, skey[0], skey[1], value(r, 6)])
        return out

    corder = list(range(n)) if rng.random() < 0.5 else list(range(n - 1, -1, -1))

    def sweep():
        out = []
        for r in corder:
            for (req, p, nm) in akeys:
                if len(req) == 1:
                    out.append(["queryAdapter", r, qobj[(r, 0)], qp[(p, 0)], nm])
                else:
                    out.append(["queryMultiAdapter", r, [qobj[(r, 0)], qobj[(r, 1)]], qp[(p, 0)], nm])
            for (p, nm) in ukeys:
                out.append(["queryUtility", r, qp[(p, 1)], nm])
                out.append(["getUtilitiesFor", r, qp[(p, 1)]])
        return out

    qobj = {(r, j): rng.randrange(nobj) for r in range(n) for j in range(2)}
    qp = {}
    for p in set([k[1] for k in akeys] + [k[0] for k in ukeys] + [skey[1]]):
        for j in range(3):
            qp[(p, j)] = anc(p)
    for r in range(n):
        cops += fill(r)
    sw = sweep()
    cops += sw
    level = rng.randrange(1, n)
    if dag[:4] == [[], [], [1], [2, 1]]:
        cops.append(["setcbases", 2, rng.choice([[], [0]])])
        cops += sw if rng.random() < 0.5 else []
        cops += (fill(1) or [["registerUtility", 1, ukeys[0][0], ukeys[0][1], value(1, 3)]])[:2]
        cops += sw
    for _ in range(rng.choice([3, 4, 5])):
        if rng.random() < 0.65:
            r = level
            level = level + 1 if level + 1 < n else 1
            cand = list(range(r))
            rng.shuffle(cand)
            cops.append(["setcbases", r, sorted(cand[: rng.choice([0, 1, 1, 2])], reverse=True)])
        else:
            cops += fill(rng.randrange(n))[:1]
        cops += sw
    if rng.random() < 0.3:
        cops.append(["subscribers", n - 1, [qobj[(n - 1, 0)]], qp[(skey[1], 2)]])
    world["cops"] = cops
    world["stream"] = "comp"
    return world


def generate(run, tier):
    rng = run.rng("gen")
    big = tier != "quick"
    cases = []
    for i in range(40 if not big else 440):
        cases.append(gen_chain_case(rng, "push" if i % 2 == 0 else "verifying"))
    for i in range(20 if not big else 200):
        cases.append(gen_chain_case(rng, "push" if i % 2 == 0 else "verifying", rebuild=True))
    # mixed graphs: verifying registries over push middles / tops (re-basing at every level, rebuild of push
    # bases in a third of them)
    for i in range(24 if not big else 240):
        cases.append(gen_chain_case(rng, "mixed", rebuild=(i % 3 == 2)))
    # a share of the registry-stream cases runs on registry SUBCLASSES whose instances are falsy (__len__ =
    # number of own registrations, or __bool__ = False): nothing in the chain logic may depend on truthiness
    for i, c in enumerate(cases):
        if i % 3 == 1:
            c["regclass"] = rng.choice(["len", "len", "false"])
            if c["regclass"] == "len" and rng.random() < 0.7:
                _empty_some(rng, c)
    for _ in range(30 if not big else 340):
        cases.append(gen_random_case(rng))
    for _ in range(20 if not big else 200):
        cases.append(gen_comp_case(rng))
    return cases


def _ops(case, obs):
    return obs["ops"] if case.get("stream") == "comp" else case["ops"]


def coq_case(case, obs, mode):
    if "error" in obs:
        raise C.HarnessError("driver error: " + obs["error"])
    c = dict(case)
    c["ops"] = _ops(case, obs)
    return "(%s, %s)" % (C.cbool(case.get("stream") != "comp"), RC.coq_hist_case(c, obs))


def _flavour(ops):
    fls = {op[1] for op in ops if op[0] == "newreg"}
    return "mixed" if len(fls) > 1 else (sorted(fls)[0] if fls else "?")


def _changed_across_rebase(case, obs):
    """number of query ops whose answer differs from the previous answer of the identical op, with a
    re-base in between"""
    last = {}
    rebases = 0
    changed = 0
    for op, a in zip(_ops(case, obs), obs["answers"]):
        if op[0] == "setregbases":
            rebases += 1
        elif op[0] in QUERY:
            key = repr(op)
            if key in last and last[key][1] < rebases and last[key][0] != a:
                changed += 1
            last[key] = (a, rebases)
    return rebases, changed


def classify(case, obs):
    if "answers" not in obs:
        return None
    rebases, changed = _changed_across_rebase(case, obs)
    if not changed:
        return None
    ops = _ops(case, obs)
    return (case.get("stream"), _flavour(ops), sum(1 for op in ops if op[0] == "newreg"), rebases, min(changed, 12))


def kind(case, obs):
    ops = _ops(case, obs) if "answers" in obs else case.get("ops", [["?", "?"]])
    return "%s/%s%s" % (case.get("stream"), _flavour(ops),
                        "/falsy-" + case["regclass"] if case.get("regclass") else "")


def finding_key(case, obs, mode):
    ops = _ops(case, obs)
    return "stale-chain:%s:%s" % (case.get("stream"), _flavour(ops))


def _spec_expr(i, specs):
    k = specs[i]["kind"]
    if k == "root":
        return "Interface"
    if k == "iface":
        return "I%d" % i
    return "implementedBy(C%d)" % i if k == "class" else "implementedBy(object)"


def replay_text(case, obs, mode):
    """Script replaying the (translated) registry history; observed answers as comments.  Expected: every
    lookup-family answer = the uncached computation over the registries of ro.ro(registry) of the CURRENT
    __bases__ graph (rebuild the same graph from scratch to see it)."""
    specs = case["specs"]
    L = ["# PURE_PYTHON=%s   stream=%s" % ("1" if mode == "py" else "0", case.get("stream")),
         "from zope.interface import Interface, implementedBy, implementer, directlyProvides",
         "from zope.interface.interface import InterfaceClass",
         "from zope.interface.adapter import AdapterRegistry, VerifyingAdapterRegistry",
         "class V:",
         "    def __init__(s, vid, veq): s.vid, s.veq = vid, veq",
         "    def __eq__(s, o): return isinstance(o, V) and o.veq == s.veq",
         "    def __hash__(s): return hash(s.veq)",
         "    def __repr__(s): return 'v%d' % s.vid",
         "    def __call__(s, *obs): return ('adapted-by', s.vid)",
         "vals = {}",
         "def v(x): return None if x is None else vals.setdefault(tuple(x), V(*x))",
         "def nm(n): return '' if n == 0 else 'n%d' % n"]
    for i, s in enumerate(specs):
        if s["kind"] == "iface":
            L.append("I%d = InterfaceClass('I%d', (%s), {})" % (
                i, i, "".join("I%d, " % b for b in s["bases"]) or "Interface,"))
        elif s["kind"] == "class":
            L.append("C%d = type('C%d', (%s), {})" % (i, i, "".join("C%d, " % b for b in s["cbases"]) or "object,"))
            if s["implements"]:
                L.append("implementer(%s)(C%d)" % (", ".join("I%d" % b for b in s["implements"]), i))
    L.append("S = [%s]" % ", ".join(_spec_expr(i, specs) for i in range(len(specs))))
    L.append("def sp(x): return None if x is None else S[x]")
    L.append("O = []")
    for o in case.get("objects", []):
        if "cls" in o:
            L.append("O.append(C%d())" % o["cls"])
            if o.get("direct"):
                L.append("directlyProvides(O[-1], %s)" % ", ".join("I%d" % b for b in o["direct"]))
    if case.get("regclass") == "len":
        L += ["class AdapterRegistry(AdapterRegistry):",
              "    def __len__(self): return sum(1 for _ in self.allRegistrations())",
              "class VerifyingAdapterRegistry(VerifyingAdapterRegistry):",
              "    def __len__(self): return sum(1 for _ in self.allRegistrations())"]
    elif case.get("regclass") == "false":
        L += ["class AdapterRegistry(AdapterRegistry):",
              "    def __bool__(self): return False",
              "class VerifyingAdapterRegistry(VerifyingAdapterRegistry):",
              "    def __bool__(self): return False"]
    L.append("R = []")
    if case.get("stream") == "comp":
        L.append("# (translated from a Components history: registry 2k = component k .adapters, 2k+1 = .utilities;")
        L.append("#  original component ops: %r)" % (case["cops"],))
    for op, a in zip(_ops(case, obs), obs.get("answers", [])):
        k = op[0]
        if k == "newreg":
            L.append("R.append(%s(tuple(R[b] for b in %r)))" % (
                "AdapterRegistry" if op[1] == "push" else "VerifyingAdapterRegistry", op[2]))
        elif k == "setregbases":
            L.append("R[%d].__bases__ = tuple(R[b] for b in %r)" % (op[1], op[2]))
        elif k in ("register", "unregister"):
            L.append("R[%d].%s([sp(x) for x in %r], S[%d], nm(%r), v(%r))" % (op[1], k, op[2], op[3], op[4], op[5]))
        elif k in ("subscribe", "unsubscribe"):
            L.append("R[%d].%s([sp(x) for x in %r], sp(%r), v(%r))" % (op[1], k, op[2], op[3], op[4]))
        elif k == "rebuild":
            L.append("R[%d].rebuild()" % op[1])
        elif k == "lookup" and op[4] != "X":
            L.append("print(R[%d].lookup([S[x] for x in %r], S[%d], nm(%r)))   # observed %r  ([0]=default, [1, vid])" % (
                op[1], op[2], op[3], op[4], a))
        elif k == "lookup1" and op[4] != "X":
            L.append("print(R[%d].lookup1(S[%d], S[%d], nm(%r)))   # observed %r" % (op[1], op[2], op[3], op[4], a))
        elif k == "lookupAll":
            L.append("print(sorted(R[%d].lookupAll([S[x] for x in %r], S[%d])))   # observed (name, vid)* %r" % (
                op[1], op[2], op[3], a))
        elif k == "subscriptions":
            L.append("print(R[%d].subscriptions([S[x] for x in %r], sp(%r)))   # observed vids %r" % (
                op[1], op[2], op[3], a))
        elif k == "queryAdapter" and op[4] != "X":
            L.append("print(R[%d].queryAdapter(O[%d], S[%d], nm(%r)))   # observed %r" % (op[1], op[2], op[3], op[4], a))
    return "\n".join(L)


TECHNIQUE = ("Coq proof by induction over registry histories of a Gallina transcription of _setBases / _refresh_ro / "
             "changed / _verify, itself proved equal to a kernel regenerated from the source text by a fail-closed "
             "translator on every run (invariants: sub-registry lists mirror __bases__; generation snapshots never run ahead "
             "and a matching snapshot implies a current order; frame, totality and membership lemmas for the C3 "
             "resolver); vm_compute correspondence with both implementations and an independent replay oracle in Coq")
LEVEL_TEXT = ("Machine-checked theorems (Properties/C06.v, 35 theorems, closed under the global context; 13 of them state "
              "that the functions regenerated from adapter.py's current text, and the data semantics extracted from the C functions verify_changed/_verify/_generations_tuple/VB_clear, equal the model's for all states): for every "
              "history of registry creation, __bases__ reassignment at any level, registrations and subscriptions in any "
              "member, rebuild() and lookups, over homogeneous AND mixed registry graphs (verifying registries over push bases), "
              "any specification world and any factory behaviour, (push) the cached resolution "
              "order of every registry equals the C3 order of the current base graph, (verifying) it does once _verify "
              "has run, the order lists exactly the registries reachable through the current __bases__, and lookup / "
              "lookupAll / subscriptions answer with the uncached computation over that chain on every cache miss and "
              "right after any change at a registry above (caches proved emptied).  On every run the model is compared "
              "with the C and Python implementations on generated chains/diamonds with re-basing at every level and warm "
              "caches, and the implementations' raw answers (also through Components) are judged by an oracle that "
              "recomputes the current chain from scratch.")
LEVEL_NOTE = ("Trusted: Coq kernel/vm_compute; the hand-written model (validated by the correspondence); C3-ness of "
              "Model.Ro.ro is C03's theorem, not restated here; warm-cache transparency in general (entries cached "
              "before an unrelated change) is C05's subject - C06 proves cache emptiness after changes above and "
              "correctness on misses.  Registry cycles and push registries over verifying bases (AttributeError in the code) are outside the quantifier (documented).")
