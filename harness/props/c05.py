"""C05 — lookup caches are transparent: answers never depend on earlier lookups
(DESIGN.md section 5, C05)."""
import copy
from .. import common as C
from . import regcommon as RC

ID = "C05"
COQ_TARGETS = ["Tie/C05.vo", "Properties/C05.vo"]
PROPERTY_FILE = "Properties/C05.v"
TIE = "Tie.C05"
DRIVER = "c05_driver.py"
SHARD = 40
THEOREMS = [
    "C05_cache_transparent_mixed",
    "C05_cache_transparent_state_mixed",
    "C05_cache_transparent_static_mixed",
    "C05_answers_are_uncached_mixed",
    "C05_homogeneous_histories_are_mixed",
    "C05_cache_transparent",
    "C05_cache_transparent_state",
    "C05_cache_transparent_static",
    "C05_answers_are_uncached",
    "C05_spec_rebase_frame",
]
RULE = ("histories of 5-40 operations over 1-4 registries (invalidating, verifying, verifying over "
        "invalidating) built from (lookup, mutation, same lookup) triples whose key is chosen to be "
        "affected by the mutation; 11 mutation kinds: register, unregister, subscribe, unsubscribe, rebuild() "
        "(30% of the cases, one totally ordered provided family there; incl. the shape gain k entries / lookup "
        "through a sub-registry / swap one entry / rebuild / same lookup) on the "
        "registry or a base, registry __bases__, interface __bases__ of a required specification, "
        "classImplements / classImplementsOnly / classImplementsFirst, directlyProvides / alsoProvides / "
        "noLongerProvides; the empty declaration _empty as a required spec and objects providing nothing; "
        "noLongerProvides on looked-up objects; entry points: lookup, lookup1, lookupAll, names, "
        "subscriptions, queryAdapter, adapter_hook, queryMultiAdapter, subscribers.  Every case is run "
        "in full and, for up to 12 probed lookups, again on a fresh world with all earlier queries "
        "erased.  A case is non-trivial when at least one triple flips its answer; distinct = distinct "
        "(flavour, set of (mutation kind, entry point) pairs that flipped)")
TRUSTED_BASE = [
    "Model/Adapter.v, Lookup.v, RegSys.v transcriptions (shared; fidelity checked by REG and by this tie)",
    "Model/CacheSys.v: the orders lookups walk are Ro.fresh_sro of the current graph (property C02), "
    "and re-basing x notifies exactly the lookup objects subscribed to x or a descendant of x",
    "translation of classImplements*/directlyProvides/... into the observed __bases__ assignment "
    "(done by the driver from the implementation's own __bases__)",
]
ASSUMPTIONS = [
    "theorems: well-formed MIXED histories (Spec/RegChain.mwf_op): registries addressed after their creation, "
    "bases earlier in creation order (acyclic registry graph), invalidating registries have invalidating bases "
    "only, verifying registries bases of either flavour; rebuild() included (it used to forget the "
    "sub-registries, in the code too: repaired, see Example C05_rebuild_witness_transparent)",
    "generated histories never re-base an interface used as *provided* or one of its ancestors (outside the "
    "property; the theorems do not need this: extendors are stored state, so the caches stay transparent, "
    "only freshness of the answer is lost upstream)",
    "histories with rebuild() use one totally ordered provided family: rebuild() replays registrations in "
    "nested-dictionary order, the flat model in insertion order, and the two agree for unambiguous lookups "
    "(C09_rebuild_order_irrelevant_for_unambiguous, C09_regsys_reachable_inv in Properties/C09.v; proofs in Proofs/TrieEnum.v, "
    "BookkeepingLink.v)",
    "the specification graph stays acyclic; (__name__, __module__) keys are unique within a world",
    "registered values do not touch registries or declarations when called",
]
TECHNIQUE = ("Coq proof (invariant CacheValid over the shared registry model extended with a dynamic specification "
             "graph, on top of C06's mixed chain invariant MInv) + vm_compute correspondence with both "
             "implementations + direct differential test of the property on the code (every probed lookup re-run "
             "on a fresh world with all earlier lookups erased)")
LEVEL_TEXT = ("Machine-checked theorems (Properties/C05.v, closed under the global context): for every well-formed "
              "history over invalidating and verifying registries in one graph (verifying over invalidating "
              "included) and any specification graph, with registrations, subscriptions, rebuild(), registry "
              "__bases__ and specification __bases__ changes interleaved with every lookup entry point, each "
              "lookup-family answer equals (a) its answer in the history with all earlier queries erased, (b) its "
              "answer after emptying every cache, (c) the entry point run on empty caches over the C3 chain of the "
              "current registry graph.  The model is compared with the C and Python implementations on targeted "
              "(lookup, mutation, lookup) histories on every run, and the implementation itself is compared with "
              "its own erased-history replays (the Spec oracle, no model involved).")
LEVEL_NOTE = ("Trusted: Coq kernel/vm_compute; the shared transcriptions Model/Adapter, Lookup, RegSys and "
              "Model/CacheSys (validated by the correspondence); fresh_sro as the orders lookups walk (C02); the "
              "driver's translation of declaration calls into the __bases__ assignments it observes.  Not covered by "
              "the theorems: weak-reference death of subscribed specifications; process-wide damage to shared "
              "specifications (the _empty singleton defect repaired by /repo 5b52a45 is caught by the tie only).")

MUT_KINDS = ("rebuild", "reorder", "register", "unregister", "subscribe", "unsubscribe", "setregbases", "setspecbases",
             "classimplements", "directlyprovides", "alsoprovides", "nolongerprovides")
LOOKUPS = ("lookup", "lookup1", "lookupAll", "names", "subscriptions", "queryAdapter", "adapter_hook",
           "queryMultiAdapter", "subscribers")
SPEC_OPS = ("setspecbases", "classimplements", "directlyprovides", "alsoprovides", "nolongerprovides")

STATS = {}     # filled by classify(), reported by extra()


# --------------------------------------------------------------------------- world

def gen_world(rng, chain_p=False):
    """Two interface families: R (used as required, may be re-based) and P (used as provided,
    never re-based), no edges between them; ``object``; classes implementing R interfaces; objects."""
    specs = [{"kind": "root"}]
    R, P = [], []
    for fam, n in ((R, rng.choice([3, 4, 5])), (P, rng.choice([2, 3]))):
        for _ in range(n):
            i = len(specs)
            pool = list(fam)
            rng.shuffle(pool)
            bases = RC._consistent_bases(specs, pool[: rng.choice([0, 1, 1, 2])])
            if chain_p and fam is P:
                bases = fam[-1:]      # one provided family, totally ordered by extension
            specs.append({"kind": "iface", "bases": bases})
            fam.append(i)
    specs.append({"kind": "object"})
    classes = []
    for _ in range(rng.choice([2, 3])):
        i = len(specs)
        cb = [c for c in reversed(classes) if rng.random() < 0.5][:1]
        impl = RC._consistent_bases(specs, [x for x in R if rng.random() < 0.3][:2])
        specs.append({"kind": "class", "cbases": cb, "implements": impl, "only": False})
        classes.append(i)
    objects = []
    for _ in range(3):
        c = rng.choice(classes)
        direct = RC._consistent_bases(specs, [x for x in R if rng.random() < 0.25][:2])
        objects.append({"cls": c, "direct": direct})
    if rng.random() < 0.3:
        # an object that provides nothing: its __provides__ is the empty declaration _empty
        objects[rng.randrange(3)] = {"cls": rng.choice(classes), "direct": [], "empty": True}
    return {"specs": specs, "objects": objects}, R, P, classes


class Sim:
    """Generator-side picture of the current world (only used to aim keys and keep it acyclic)."""

    def __init__(self, world, R, P, classes):
        self.specs = copy.deepcopy(world["specs"])
        self.objects = copy.deepcopy(world["objects"])
        self.R, self.P, self.classes = R, P, classes
        self.rel = RC.Rel({"specs": self.specs})

    def refresh(self):
        self.rel = RC.Rel({"specs": self.specs})

    def anc(self, x):
        return set(self.rel.ancestors(x))

    def desc(self, x):
        return set(self.rel.descendants(x))

    def obj_anc(self, j):
        o = self.objects[j]
        if o.get("empty"):
            return {0}
        a = set(self.anc(o["cls"]))
        for d in o["direct"]:
            a |= self.anc(d)
        return a

    def objs_below(self, x):
        return [j for j in range(len(self.objects)) if x in self.obj_anc(j)]


# --------------------------------------------------------------------------- history

def gen_case(rng, n_target):
    # rebuild() replays the registrations in nested-dictionary order, the flat model in insertion
    # order: the two can only differ in the relative order of UNRELATED provided interfaces in the
    # extendors lists, so histories with rebuild() use one totally ordered provided family.  That
    # the replay order is irrelevant for unambiguous lookups is proved by builder-C09:
    # C09_rebuild_order_irrelevant_for_unambiguous (coq/Properties/C09.v, proof in Proofs/TrieEnum.v) with
    # C09_regsys_reachable_inv (coq/Proofs/BookkeepingLink.v).
    with_rebuild = rng.random() < 0.3
    world, R, P, classes = gen_world(rng, chain_p=with_rebuild)
    sim = Sim(world, R, P, classes)
    fl = rng.choice(["push", "verifying", "mixed"])
    n_regs = rng.choice([1, 2, 3, 3, 4])
    if with_rebuild and fl != "push":
        n_regs = rng.choice([2, 3, 3, 4])
    ops, triples = [], []
    reg_bases = []
    # mixed: the first n_push registries are invalidating, the later ones verifying (an invalidating
    # registry can only have invalidating bases; a verifying one bases of either flavour)
    n_push = rng.randrange(1, n_regs) if n_regs >= 2 else 1
    for r in range(n_regs):
        bs = [b for b in range(r) if rng.random() < 0.6][-2:]
        bs.reverse()
        f = fl if fl != "mixed" else ("verifying" if r >= n_push else "push")
        ops.append(["newreg", f, bs])
        reg_bases.append(bs)
    key_pool = R + classes + [0]
    look_pool = R + classes
    names = [0, 0, 0, 1, 2]
    regs_seen, subs_seen = [], []      # (registry, req, provided, name) / (registry, req, provided)

    def conv(x):
        return 0 if x is None else x

    def chain(r):      # registries below-or-equal r (those that see r's registrations)
        out = {r}
        grew = True
        while grew:
            grew = False
            for q in range(n_regs):
                if q not in out and any(b in out for b in reg_bases[q]):
                    out.add(q)
                    grew = True
        return sorted(out)

    def chain_up(r):   # r and the registries above it (whose registrations r sees)
        out, todo = [], [r]
        while todo:
            y = todo.pop()
            if y not in out:
                out.append(y)
                todo.extend(reg_bases[y])
        return out

    def look_req(req, focus=None):
        """required specs to look up so that a registration for [req] applies; focus = (position, spec)"""
        out = []
        for i, x in enumerate(req):
            if focus is not None and focus[0] == i:
                out.append(focus[1])
            elif conv(x) == 0 and rng.random() < 0.3:
                out.append("E")     # the empty declaration: only registrations for Interface / None apply
            else:
                cand = [d for d in sim.desc(conv(x)) if d in look_pool]
                out.append(rng.choice(cand or look_pool))
        return out

    def objs_for(req, focus_obj=None):
        """objects whose declarations make a registration for [req] apply (or None)"""
        out = []
        for i, x in enumerate(req):
            if focus_obj is not None and focus_obj[0] == i:
                out.append(focus_obj[1])
                continue
            cand = sim.objs_below(conv(x))
            if not cand:
                return None
            out.append(rng.choice(cand))
        return out

    def prov_up(p):
        return rng.choice([x for x in sim.anc(p) if x in P or x == 0])

    def probe_adapter(rq, req, p, nm, focus=None, focus_obj=None):
        """a lookup-family op on registry rq aimed at registration (req, p, nm)"""
        ar = len(req)
        kinds = ["lookup", "lookup", "lookupAll", "names"]
        if ar == 1:
            kinds += ["lookup1", "queryAdapter", "adapter_hook", "queryAdapter"]
        if ar >= 1:
            kinds += ["queryMultiAdapter"]
        if focus_obj is not None:
            kinds = [k for k in kinds if k in ("queryAdapter", "adapter_hook", "queryMultiAdapter")] or ["queryMultiAdapter"]
        k = rng.choice(kinds)
        pq = prov_up(p)
        if k in ("queryAdapter", "adapter_hook", "queryMultiAdapter"):
            objs = objs_for(req, focus_obj)
            if objs is None or not objs:
                k = "lookup"
            elif k == "queryMultiAdapter":
                return [k, rq, objs, pq, nm]
            else:
                return [k, rq, objs[0], pq, nm]
        lr = look_req(req, focus)
        if k == "lookup":
            return [k, rq, lr, pq, nm]
        if k == "lookup1":
            return [k, rq, lr[0], pq, nm]
        return [k, rq, lr, pq]

    def probe_subs(rq, req, p, focus=None, focus_obj=None):
        pq = None if p is None else prov_up(p)
        if (focus_obj is not None or rng.random() < 0.2) and len(req) >= 1:
            objs = objs_for(req, focus_obj)
            if objs:
                return ["subscribers", rq, objs, pq]
        return ["subscriptions", rq, look_req(req, focus), pq]

    def gen_value():
        return RC.gen_value(rng)

    def new_req(ar):
        return RC.gen_req(rng, key_pool, ar)

    def derive(req):
        out = list(req)
        if out and rng.random() < 0.7:
            j = rng.randrange(len(out))
            x = conv(out[j])
            cand = [c for c in (sim.anc(x) if rng.random() < 0.5 else sim.desc(x)) if c in key_pool] or [x]
            out[j] = rng.choice(sorted(cand))
        return out

    def probe_for_spec(changed, focus_spec=None, focus_obj=None):
        """a probe whose key has the re-based / re-declared spec (or object) at a position whose
        registration requires one of the specs in [changed] (ancestors gained or lost)"""
        cands = []
        for (r, req, p, nm) in regs_seen:
            for i, x in enumerate(req):
                if conv(x) in changed:
                    cands.append(("a", r, req, p, nm, i))
        for (r, req, p) in subs_seen:
            for i, x in enumerate(req):
                if conv(x) in changed:
                    cands.append(("s", r, req, p, None, i))
        if not cands:
            for (r, req, p, nm) in regs_seen:
                if req:
                    cands.append(("a", r, req, p, nm, rng.randrange(len(req))))
            for (r, req, p) in subs_seen:
                if req:
                    cands.append(("s", r, req, p, None, rng.randrange(len(req))))
        if not cands:
            return None
        kind, r, req, p, nm, i = rng.choice(cands)
        rq = rng.choice(chain(r))
        fs = None if focus_spec is None else (i, focus_spec)
        fo = None if focus_obj is None else (i, focus_obj)
        if kind == "a":
            return probe_adapter(rq, req, p, nm, fs, fo)
        return probe_subs(rq, req, p, fs, fo)

    def pick_required_iface():
        """an R interface that some registration / subscription requires (so that gaining or
        losing it as an ancestor can flip an answer)"""
        cands = [conv(x) for (_r, req, _p, _n) in regs_seen for x in req if conv(x) in R]
        cands += [conv(x) for (_r, req, _p) in subs_seen for x in req if conv(x) in R]
        return rng.choice(cands) if cands else None

    def emit(probe, mut, kind):
        if probe is None:
            ops.append(mut)
            return
        i0 = len(ops)
        ops.append(probe)
        if rng.random() < 0.25:      # an unrelated cached entry in between
            extra = probe_for_spec(set())
            if extra is not None:
                ops.append(extra)
        im = len(ops)
        ops.append(mut)
        ops.append(copy.deepcopy(probe))
        triples.append([i0, im, len(ops) - 1, kind, probe[0]])

    weights = {"register": 7, "unregister": 3, "subscribe": 4, "unsubscribe": 2, "setregbases": 2,
               "setspecbases": 4, "classimplements": 3, "directlyprovides": 2, "alsoprovides": 2,
               "nolongerprovides": 1, "reorder": 5, "rebuild": 3 if with_rebuild else 0}
    kinds = list(weights)
    ws = [weights[k] for k in kinds]
    guard = 0
    if with_rebuild and n_regs >= 2:
        # The generation-counter shape: a registry b that so far only GAINED entries (generation =
        # 1 + number of live entries), a lookup through a registry q below it (a verifying q takes its
        # generation snapshot), one entry of b swapped (count unchanged), b.rebuild(), the same lookup
        # with no other mutation in between.  If rebuild() restarted the counter, b's generation
        # would coincide with q's snapshot and q would keep its stale answer.
        q = n_regs - 1
        ups = sorted(set(chain_up(q)) - {q})
        if ups:
            b = rng.choice(ups)
            k = rng.choice([1, 2, 3])
            p = rng.choice(P)
            if rng.random() < 0.6:
                keys = []
                while len(keys) < k:
                    key = (rng.choice(R), rng.choice(names))
                    if key not in keys:
                        keys.append(key)
                vals = rng.sample([[1, 1], [3, 3], [4, 4], [5, 5]], k + 1)
                for (x, nm), v in zip(keys, vals):
                    ops.append(["register", b, [x], p, nm, v])
                    regs_seen.append((b, [x], p, nm))
                x, nm = keys[0]
                probe = probe_adapter(q, [x], p, nm)
                swap = [["register", b, [x], p, nm, vals[k]]]
            else:
                x = rng.choice(R)
                vals = rng.sample([[1, 1], [3, 3], [4, 4], [5, 5]], k + 1)
                pp = p if rng.random() < 0.7 else None
                for v in vals[:k]:
                    ops.append(["subscribe", b, [x], pp, v])
                subs_seen.append((b, [x], pp))
                probe = probe_subs(q, [x], pp)
                swap = [["unsubscribe", b, [x], pp, vals[0]], ["subscribe", b, [x], pp, vals[k]]]
            i0 = len(ops)
            ops.append(probe)
            ops.extend(swap)
            ops.append(["rebuild", b])
            ops.append(copy.deepcopy(probe))
            triples.append([i0, len(ops) - 2, len(ops) - 1, "rebuild", probe[0]])
    while len(ops) < n_target and guard < 200:
        guard += 1
        k = rng.choices(kinds, ws)[0]
        if len(regs_seen) + len(subs_seen) < 2 and k not in ("register", "subscribe"):
            k = rng.choice(["register", "subscribe"])
        r = rng.randrange(n_regs)
        ar = rng.choice([0, 1, 1, 1, 1, 2, 2, 3])
        if k == "register":
            if regs_seen and rng.random() < 0.6:
                _r0, req0, p0, n0 = rng.choice(regs_seen)
                req = derive(req0)
                p = rng.choice(sorted(x for x in sim.anc(p0) | sim.desc(p0) if x in P) or [p0])
                nm = n0 if rng.random() < 0.8 else rng.choice(names)
            else:
                req, p, nm = new_req(ar), rng.choice(P), rng.choice(names)
            v = gen_value() if rng.random() > 0.08 else None
            regs_seen.append((r, req, p, nm))
            emit(probe_adapter(rng.choice(chain(r)), req, p, nm), [k, r, req, p, nm, v], k)
        elif k == "unregister":
            if not regs_seen:
                continue
            r, req, p, nm = rng.choice(regs_seen)
            v = gen_value() if rng.random() < 0.3 else None
            emit(probe_adapter(rng.choice(chain(r)), req, p, nm), [k, r, req, p, nm, v], k)
        elif k == "subscribe":
            if subs_seen and rng.random() < 0.5:
                _r0, req0, p0 = rng.choice(subs_seen)
                req, p = derive(req0), p0
            else:
                req = new_req(ar)
                p = rng.choice(P) if rng.random() > 0.25 else None
            subs_seen.append((r, req, p))
            emit(probe_subs(rng.choice(chain(r)), req, p), [k, r, req, p, gen_value()], k)
        elif k == "unsubscribe":
            if not subs_seen:
                continue
            r, req, p = rng.choice(subs_seen)
            v = gen_value() if rng.random() < 0.6 else None
            emit(probe_subs(rng.choice(chain(r)), req, p), [k, r, req, p, v], k)
        elif k == "setregbases":
            if n_regs < 2:
                continue
            r = rng.randrange(1, n_regs)
            cand = list(range(r))
            if fl == "mixed" and r != n_regs - 1:
                cand = [b for b in cand if b != n_regs - 1]
            rng.shuffle(cand)
            bs = sorted(cand[: rng.choice([0, 1, 1, 2])], reverse=True)
            busy = [e[0] for e in regs_seen + subs_seen if e[0] < r and e[0] in cand]
            if busy and rng.random() < 0.8:
                # aim: add or drop a base registry that has registrations
                b = rng.choice(busy)
                cur = list(reg_bases[r])
                bs = [y for y in cur if y != b] if b in cur else sorted(set(cur[:1] + [b]), reverse=True)
            if len(reg_bases[r]) >= 2 and rng.random() < 0.25:
                bs = list(reversed(reg_bases[r]))      # same registries, other priority
            moved = set(reg_bases[r]) ^ set(bs) or set(bs)
            seen = [e for e in regs_seen if e[0] in moved] or regs_seen
            sseen = [e for e in subs_seen if e[0] in moved] or subs_seen
            below = [q for q in chain(r)]
            probe = None
            if seen and (not sseen or rng.random() < 0.6):
                _r0, req, p, nm = rng.choice(seen)
                probe = probe_adapter(rng.choice(below), req, p, nm)
            elif sseen:
                _r0, req, p = rng.choice(sseen)
                probe = probe_subs(rng.choice(below), req, p)
            reg_bases[r] = bs
            emit(probe, [k, r, bs], k)
        elif k == "rebuild":
            # rebuild() of a registry that has registrations, looked up from it or from below
            seen = [e for e in regs_seen if e[0] == r]
            probe = None
            if seen:
                _r0, req, p, nm = rng.choice(seen)
                probe = probe_adapter(rng.choice(chain(r)), req, p, nm)
            emit(probe, ["rebuild", r], k)
        elif k == "reorder":
            # a pure REORDERING of the bases of an interface m one or two levels above the looked-up
            # spec, with competing registrations on the reordered bases: the set of ancestors of
            # everything below m stays the same, only the resolution orders (hence the winner, and
            # the order of subscriptions) change
            cands = [m for m in R if len([y for y in R if y < m]) >= 2]
            if not cands:
                continue
            m = rng.choice(cands)
            cur = list(sim.specs[m]["bases"])
            if len(cur) < 2 or any(x in sim.anc(y) for x in cur for y in cur if x != y) or rng.random() < 0.2:
                pool = [y for y in R if y < m]
                rng.shuffle(pool)
                pair = [(x, y) for x in pool for y in pool
                        if x != y and x not in sim.anc(y) and y not in sim.anc(x)]
                if not pair:
                    continue
                cur = list(pair[0])
                sim.specs[m]["bases"] = cur
                sim.refresh()
                ops.append(["setspecbases", m, cur])
            a, b = cur[0], cur[-1]
            r = rng.randrange(n_regs)
            rq = rng.choice(chain(r))
            p = rng.choice(P)
            nm = rng.choice(names)
            v1, v2 = rng.sample([[1, 1], [3, 3], [4, 4], [5, 5]], 2)
            use_sub = rng.random() < 0.45
            if use_sub:
                pp = p if rng.random() < 0.7 else None
                ops.append(["subscribe", r, [a], pp, v1])
                ops.append(["subscribe", r, [b], pp, v2])
                subs_seen.extend([(r, [a], pp), (r, [b], pp)])
            else:
                ops.append(["register", r, [a], p, nm, v1])
                ops.append(["register", r, [b], p, nm, v2])
                regs_seen.extend([(r, [a], p, nm), (r, [b], p, nm)])
            below = sorted(d for d in sim.desc(m) if d != m and d in look_pool)
            if not below or rng.random() < 0.3:
                higher = [x for x in R if x > m and m not in sim.anc(x)]
                if higher and rng.random() < 0.5:
                    x = rng.choice(higher)
                    nb = RC._consistent_bases(sim.specs, [y for y in sim.specs[x]["bases"] if y not in sim.anc(m)] + [m])
                    sim.specs[x]["bases"] = nb
                    ops.append(["setspecbases", x, nb])
                else:
                    c = rng.choice(classes)
                    if m not in sim.anc(c):
                        sim.specs[c]["implements"] = sim.specs[c]["implements"] + [m]
                        ops.append(["classimplements", c, [m], "add"])
                sim.refresh()
                below = sorted(d for d in sim.desc(m) if d != m and d in look_pool)
            if not below:
                continue
            d = rng.choice(below)
            objs = sim.objs_below(d)
            fo = (0, rng.choice(objs)) if objs and rng.random() < 0.3 else None
            if use_sub:
                probe = probe_subs(rq, [a], pp, focus=(0, d), focus_obj=fo)
            else:
                probe = probe_adapter(rq, [a], p, nm, focus=(0, d), focus_obj=fo)
            new = list(reversed(cur))
            sim.specs[m]["bases"] = new
            sim.refresh()
            emit(probe, ["setspecbases", m, new], "reorder")
        elif k == "setspecbases":
            x = rng.choice(R)
            pool = [y for y in R if y < x]
            rng.shuffle(pool)
            bs = RC._consistent_bases(sim.specs, pool[: rng.choice([0, 1, 1, 2])])
            a = pick_required_iface()
            if a is not None and rng.random() < 0.8 and [y for y in R if y > a]:
                # aim: make x gain or lose the required interface a as an ancestor
                x = rng.choice([y for y in R if y > a])
                cur = list(sim.specs[x]["bases"])
                if a in sim.anc(x):
                    bs = [b for b in cur if a not in sim.anc(b)]
                else:
                    bs = RC._consistent_bases(sim.specs, cur + [a])
            before = sim.anc(x)
            probe_spec = rng.choice(sorted(d for d in sim.desc(x) if d in look_pool) or [x])
            sim.specs[x]["bases"] = bs
            sim.refresh()
            changed = before ^ sim.anc(x)
            objs = sim.objs_below(x)
            if objs and rng.random() < 0.3:
                probe = probe_for_spec(changed, focus_obj=rng.choice(objs))
            else:
                probe = probe_for_spec(changed, focus_spec=probe_spec)
            emit(probe, [k, x, bs], k)
        elif k == "classimplements":
            c = rng.choice(classes)
            how = rng.choice(["add", "add", "only", "first"])
            ifs = [x for x in R if rng.random() < 0.35][: (1 if how == "first" else 2)]
            if not ifs and how != "only":
                ifs = [rng.choice(R)]
            a = pick_required_iface()
            if a is not None and rng.random() < 0.8:
                if a in sim.anc(c):
                    how, ifs = "only", [i for i in ifs if a not in sim.anc(i)]
                else:
                    how = rng.choice(["add", "add", "first"])
                    ifs = [a] if how == "first" else RC._consistent_bases(sim.specs, [a] + [i for i in ifs if i != a][:1])
            before = sim.anc(c)
            probe_spec = rng.choice(sorted(d for d in sim.desc(c) if d in classes) or [c])
            sp = sim.specs[c]
            if how == "only":
                sp["implements"], sp["cbases_kept"] = list(ifs), sp.get("cbases", [])
                sp["cbases"] = []      # the generator's picture only: inherited declarations are dropped
            elif how == "first":
                sp["implements"] = [i for i in ifs if i not in before] + sp["implements"]
            else:
                sp["implements"] = sp["implements"] + [i for i in ifs if i not in before]
            try:
                sim.refresh()
            except Exception:  # noqa
                pass
            changed = before ^ sim.anc(c)
            objs = [j for j in range(len(sim.objects)) if c in sim.obj_anc(j) or sim.objects[j]["cls"] == c]
            if objs and rng.random() < 0.5:
                probe = probe_for_spec(changed, focus_obj=rng.choice(objs))
            else:
                probe = probe_for_spec(changed, focus_spec=probe_spec)
            emit(probe, [k, c, ifs, how], k)
        else:   # instance declarations
            j = rng.randrange(len(sim.objects))
            o = sim.objects[j]
            before = sim.obj_anc(j)
            a = pick_required_iface()
            if k == "directlyprovides":
                ifs = RC._consistent_bases(sim.specs, [x for x in R if rng.random() < 0.35][:2])
                if a is not None and rng.random() < 0.7:
                    ifs = [i for i in ifs if a not in sim.anc(i)] if a in before else RC._consistent_bases(sim.specs, ifs[:1] + [a])
                o["direct"] = list(ifs)
                mut = [k, j, ifs]
            elif k == "alsoprovides":
                ifs = [rng.choice(R)]
                if a is not None and a not in before and rng.random() < 0.8:
                    ifs = [a]
                o["direct"] = o["direct"] + [i for i in ifs if i not in o["direct"]]
                mut = [k, j, ifs]
            else:
                own = [d for d in o["direct"] if d not in sim.anc(o["cls"])]
                if not own:
                    continue
                wanted = [d for d in own if any(d in [conv(y) for y in e[1]] for e in regs_seen + subs_seen)]
                i = rng.choice(wanted or own)
                o["direct"] = [d for d in o["direct"] if d != i]
                mut = [k, j, i]
            o.pop("empty", None)      # any declaration call replaces the object's __provides__
            changed = before ^ sim.obj_anc(j)
            emit(probe_for_spec(changed, focus_obj=j), mut, k)
    return {"specs": world["specs"], "objects": world["objects"], "ops": ops, "triples": triples,
            "flavour": fl}


def generate(run, tier):
    rng = run.rng("gen")
    n = 800 if tier == "quick" else 5000
    cases = []
    for _ in range(n):
        cases.append(gen_case(rng, rng.choice([5, 8, 12, 16, 20, 25, 30, 40])))
    return cases


# --------------------------------------------------------------------------- Coq emission

def _small(a):
    """the 999999 separator of subscribers() answers is written 10001 (see Tie/C05.v norm1)"""
    return [10001 if x == 999999 else x for x in a]


def _lN(a):
    return "[" + "; ".join("%d%%N" % x for x in a) + "]"


def _concrete(x, eid):
    if x == "E":
        return eid
    if isinstance(x, list):
        return [_concrete(y, eid) for y in x]
    return x


def _cop_terms(case, obs):
    """one list of Coq cop terms + aligned answers + index map (driver op index -> cop index)"""
    terms, answers, index = [], [], {}
    for i, op in enumerate(case["ops"]):
        op = _concrete(op, obs["empty_id"])
        index[i] = len(terms)
        if op[0] in SPEC_OPS:
            for x, bs in obs["assigns"][i]:
                terms.append("(CSetSpecBases %d %s)" % (x, RC.c_lnat(bs)))
                answers.append([])
        else:
            pv = obs["provides"][i]
            wobs = {"obj_provides": None}
            objects = case.get("objects", [])
            if pv is not None:
                # objects named in the op, in order, provide pv[k] at this moment
                named = [op[2]] if op[0] in ("queryAdapter", "adapter_hook") else list(op[2])
                table = {}
                for j, s in zip(named, pv):
                    table[j] = s
                wobs = {"obj_provides": [table.get(j, 0) for j in range(len(objects))]}
            terms.append("(CReg %s)" % RC.c_op(op, wobs, objects))
            answers.append(_small(obs["answers"][i]))
    return terms, answers, index


def coq_case(case, obs, mode):
    if "error" in obs:
        raise C.HarnessError("driver error: " + obs["error"])
    if obs["trouble"]:
        raise C.HarnessError("driver trouble: " + "; ".join(obs["trouble"][:3]))
    terms, answers, index = _cop_terms(case, obs)
    erased = "[" + "; ".join("(%d, %s)" % (index[i], _lN(_small(a))) for i, a in obs["erased"]) + "]"
    return "(%s, %s,\n   [%s],\n   %s,\n   %s)" % (
        RC.c_graph(obs), RC.c_ifaces(obs), ";\n    ".join(terms), "[" + "; ".join(_lN(a) for a in answers) + "]", erased)


# --------------------------------------------------------------------------- coverage

def _flips(case, obs):
    out = []
    ans = obs.get("answers") or []
    for i0, im, i1, kind, entry in case.get("triples", []):
        if i1 < len(ans):
            out.append((kind, entry, ans[i0] != ans[i1]))
    return out


def classify(case, obs):
    if "error" in obs:
        return None
    fl = _flips(case, obs)
    st = STATS.setdefault("pairs", {})
    for kind, entry, flipped in fl:
        e = st.setdefault(kind, {"pairs": 0, "flipped": 0, "entries": {}})
        e["pairs"] += 1
        e["flipped"] += int(flipped)
        if flipped:
            e["entries"][entry] = e["entries"].get(entry, 0) + 1
    STATS["probes"] = STATS.get("probes", 0) + len(obs.get("erased", []))
    STATS["differs"] = STATS.get("differs", 0) + sum(
        1 for i, a in obs.get("erased", []) if obs["answers"][i] != a)
    flipped = frozenset((k, e) for k, e, f in fl if f)
    if not flipped:
        return None
    return (case.get("flavour"), flipped)


def kind(case, obs):
    return "%s/%d-ops" % (case.get("flavour"), 10 * (len(case["ops"]) // 10))


def finding_key(case, obs, mode):
    bad = [i for i, a in obs.get("erased", []) if obs["answers"][i] != a]
    if not bad:
        return None
    i = bad[0]
    muts = sorted({op[0] for op in case["ops"][:i] if op[0] not in LOOKUPS})
    return "%s:%s:%s" % (case.get("flavour"), case["ops"][i][0], "+".join(muts))


def replay_text(case, obs, mode):
    bad = [i for i, a in obs.get("erased", []) if obs["answers"][i] != a]
    lines = ["# PURE_PYTHON=%s ; world = %r" % ("1" if mode == "py" else "0", {"specs": case["specs"], "objects": case["objects"]}),
             "# ops (harness/drivers/c05_driver.py op language):"]
    for i, op in enumerate(case["ops"]):
        lines.append("#  %2d %r -> %r" % (i, op, obs["answers"][i] if i < len(obs.get("answers", [])) else None))
    for i in bad[:3]:
        era = dict((k, a) for k, a in obs["erased"])[i]
        lines.append("# op %d answered %r in the full history but %r when every earlier lookup is erased"
                     % (i, obs["answers"][i], era))
    return "\n".join(lines)


def extra(run, impl, known):
    st = STATS.get("pairs", {})
    run.coverage["key_mutation_pairs"] = {
        k: {"pairs": v["pairs"], "flipped_answer": v["flipped"], "flipped_by_entry_point": v["entries"]}
        for k, v in sorted(st.items())}
    run.coverage["pairs_total"] = sum(v["pairs"] for v in st.values())
    run.coverage["pairs_flipped"] = sum(v["flipped"] for v in st.values())
    run.coverage["erased_replays"] = STATS.get("probes", 0)
    run.coverage["erased_replays_differing"] = STATS.get("differs", 0)
