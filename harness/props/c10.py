"""C10 — the C accelerator is observationally equivalent to the Python reference
(DESIGN.md section 5, C10).

Three layers:
  * theorems (coq/Properties/C10.v): for every twin kernel a model written from the C text and one
    written from the Python text, and an equivalence theorem for all inputs and states — or, where the
    two texts really differ, a ``…_refuted`` theorem with the witness;
  * per mode: the rows the driver extracts from the program (abstract input of a twin kernel as probed
    from the live objects + observed outcome) are judged in Coq: ``check_model`` against the model of
    *this* mode's text, ``check_spec`` against the model of the *other* text (the property: both agree);
  * across modes (``extra``): the same generated API programs are executed by both implementations and
    the traces are compared op by op; the first differing op is minimised by delta debugging.
"""
import copy
import json
import os

from .. import common as C
from . import regcommon as RG

ID = "C10"
COQ_TARGETS = ["Tie/C10.vo", "Properties/C10.vo"]
PROPERTY_FILE = "Properties/C10.v"
TIE = "Tie.C10"
DRIVER = "c10_driver.py"
DRIVER_TIMEOUT = 3600
SHARD = 150
THEOREMS = [
    "C10_SB_extends_eq_py", "C10_SB_call_eq_py", "C10_SB_providedBy_eq_py", "C10_hash_eq_py",
    "C10_implementedBy_eq_py", "C10_implementedBy_metaclass_dict_refuted", "C10_getObjectSpecification_eq_py",
    "C10_providedBy_eq_py", "C10_providedBy_isinstance_refuted", "C10_OSD_descr_get_eq_py",
    "C10_CPB_descr_get_eq_py", "C10_richcompare_eq_py", "C10_binop_c_eq_py", "C10_richcompare_x_eq_py",
    "C10_richcompare_nonstr_refuted", "C10_lookup_eq_py", "C10_lookup1_eq_py", "C10_adapter_hook_eq_py",
    "C10_lookupAll_subscriptions_eq_py", "C10_verifying_verify_eq_py", "C10_verifying_uninitialised_refuted",
    "C10_verifying_entry_points_eq_py", "C10_verifying_error_order", "C10_verifying_pending_verify_unobservable",
    "C10_verifying_programs_eq_py", "C10_call_eq_py",
]

N_FOREIGN = 16

NAMES = ["I", "IA", "IB", "IAB", "J", "Ié", "m.C", ""]
MODS = ["m", "m.n", "mn", "verif.world", ""]

EXC_OTHER = ["ValueError", "KeyError", "RuntimeError"]


# --------------------------------------------------------------------------- odd objects

def odd_catalogue(ifaces):
    """Objects on the error paths of providedBy / getObjectSpecification / the descriptors.
    ``ifaces``: interface spec ids of the world (for real declarations)."""
    i0 = ifaces[0]
    i1 = ifaces[-1]
    V = lambda *v: ["val", list(v)]            # noqa
    R = lambda e: ["raise", e]                 # noqa
    cat = [
        # odd __provides__ values in the instance dict of a class with declarations
        {"declare": [i0], "iattr": {"__provides__": V("int")}},
        {"declare": [i0], "iattr": {"__provides__": V("str")}},
        {"declare": [i0], "iattr": {"__provides__": V("none")}},
        {"declare": [i0], "iattr": {"__provides__": V("partial")}},
        {"declare": [i0], "iattr": {"__provides__": V("partial_call")}},
        {"declare": [i0], "iattr": {"__provides__": V("call_badbool")}},
        {"declare": [i0], "iattr": {"__provides__": V("bare_sb")}},
        {"declare": [i0], "iattr": {"__provides__": V("decl", [i1])}},
        {"declare": [i0], "iattr": {"__provides__": V("provides", [i1])}},
        {"declare": None, "iattr": {"__provides__": V("int")}},
        {"declare": None, "iattr": {"__provides__": V("provides", [i1])}},
        # __provides__ access raises
        {"declare": [i0], "cattr": {"__provides__": R("AttributeError")}},
        {"declare": [i0], "cattr": {"__provides__": R("ValueError")}},
        {"declare": None, "cattr": {"__provides__": R("ValueError")}},
        {"declare": None, "cattr": {"__provides__": R("AttributeError")}},
        # __providedBy__ access raises
        {"declare": None, "cattr": {"__providedBy__": R("AttributeError")}},
        {"declare": None, "cattr": {"__providedBy__": R("ValueError")}},
        {"declare": None, "cattr": {"__providedBy__": R("AttributeError")}, "iattr": {"__provides__": V("provides", [i1])}},
        {"declare": None, "cattr": {"__providedBy__": R("AttributeError")}, "iattr": {"__provides__": V("int")}},
        # __providedBy__ is not a specification (a class that "does not understand descriptors")
        {"declare": None, "cattr": {"__providedBy__": V("int")}},
        {"declare": None, "cattr": {"__providedBy__": V("int"), "__provides__": R("ValueError")}},
        {"declare": None, "cattr": {"__providedBy__": V("int"), "__provides__": R("AttributeError")}},
        {"declare": None, "cattr": {"__providedBy__": V("int")}, "iattr": {"__provides__": V("provides", [i1])}},
        {"declare": None, "cattr": {"__providedBy__": V("int")}, "iattr": {"__provides__": V("int")}},
        {"declare": None, "cattr": {"__providedBy__": V("none"), "__provides__": V("provides", [i0])}},
        {"declare": None, "cattr": {"__providedBy__": V("partial")}},
        # ... and an odd __provides__ that comes from the class (identical through the instance)
        {"declare": None, "cattr": {"__providedBy__": V("int"), "__provides__": V("int")}},
        {"declare": None, "cattr": {"__providedBy__": V("int"), "__provides__": V("str")}},
        {"declare": None, "cattr": {"__providedBy__": V("partial"), "__provides__": V("partial")}},
        {"declare": None, "cattr": {"__providedBy__": V("none"), "__provides__": V("none")}},
        {"declare": [i0], "cattr": {"__provides__": V("int")}},
        {"declare": None, "cattr": {"__providedBy__": V("extends_raises")}},
        {"declare": None, "cattr": {"__providedBy__": V("bare_sb")}},
        {"declare": None, "cattr": {"__providedBy__": V("spec", i1)}},
        {"declare": None, "cattr": {"__providedBy__": V("decl", [i1])}, "iattr": {"__provides__": V("int")}},
        {"declare": None, "cattr": {"__providedBy__": V("int"), "__class__": R("AttributeError"),
                                    "__provides__": V("int")}},
        {"declare": None, "cattr": {"__providedBy__": V("int")}, "mattr": {"__provides__": R("ValueError")},
         "iattr": {"__provides__": V("int")}},
        {"declare": None, "cattr": {"__providedBy__": V("int")}, "mattr": {"__provides__": R("AttributeError")},
         "iattr": {"__provides__": V("int")}},
        {"declare": None, "cattr": {"__class__": R("AttributeError")}},
        {"declare": None, "cattr": {"__class__": R("ValueError")}},
        # no instance dictionary
        {"declare": None, "slots": True},
        {"declare": [i0], "slots": True},
        # __conform__ variants
        {"declare": None, "conform": ["retnone"]},
        {"declare": None, "conform": ["retvalue", 7]},
        {"declare": [i0], "conform": ["retvalue", 8]},
        {"declare": None, "conform": ["raise", "TypeError"]},
        {"declare": None, "conform": ["raise", "ValueError"]},
        {"declare": None, "conform": ["raise", "AttributeError"]},
        {"declare": None, "conform": ["getraise", "AttributeError"]},
        {"declare": None, "conform": ["getraise", "ValueError"]},
        {"declare": None, "conform": ["getnone"]},
        # falsy results and falsy objects: only None means "nothing"
        {"declare": None, "conform": ["retvalue", 107]},
        {"declare": None, "conform": ["retvalue", 207]},
        {"declare": None, "conform": ["retvalue", 300]},
        {"declare": [i0], "falsy": "bool"},
        {"declare": [i0], "falsy": "len"},
        {"declare": None, "falsy": "bool", "conform": ["retnone"]},
    ]
    return cat


# --------------------------------------------------------------------------- program generator

def gen_comp_ops(rng, st, ifaces, classes, nobj, n_plain):
    """a few Components-level calls (zope.interface.registry): utilities, adapters, subscription
    adapters, handlers, listings, re-basing; queries derived from earlier registrations"""
    out = []
    if st["n"] == 0 or (st["n"] < 3 and rng.random() < 0.2):
        bs = [b for b in range(st["n"]) if rng.random() < 0.6][-2:]
        out.append(["newcomp", bs])
        st["n"] += 1
    ci = rng.randrange(st["n"])
    names = [0, 0, 1, "X"] if rng.random() < 0.1 else [0, 0, 1]
    for _ in range(rng.choice([1, 2, 3])):
        v = RG.gen_value(rng)
        i1, i2 = rng.choice(ifaces), rng.choice(ifaces + [0])
        req = [rng.choice(ifaces + classes) for _ in range(rng.choice([1, 1, 2]))]
        nm = rng.choice(names)
        objs = [["o", rng.randrange(n_plain)] for _ in range(len(req))]
        if st["seen"] and rng.random() < 0.6:
            i1, req, nm = rng.choice(st["seen"])
            objs = [["o", rng.randrange(n_plain)] for _ in range(len(req))]
        kind = rng.choice(["registerUtility", "registerUtility", "unregisterUtility", "queryUtility", "queryUtility",
                           "getUtility", "getUtilitiesFor", "getAllUtilitiesRegisteredFor", "registerAdapter",
                           "registerAdapter", "unregisterAdapter", "queryAdapter", "getAdapter", "queryMultiAdapter",
                           "getAdapters", "registerSubscriptionAdapter", "unregisterSubscriptionAdapter",
                           "subscribers", "registerHandler", "unregisterHandler", "handle", "registered", "setbases"])
        ci = rng.randrange(st["n"])
        if kind in ("registerUtility", "unregisterUtility"):
            st["seen"].append((i1, req, nm))
            out.append(["comp", kind, ci, v, i1, nm])
        elif kind in ("queryUtility", "getUtility"):
            out.append(["comp", kind, ci, i1, nm])
        elif kind in ("getUtilitiesFor", "getAllUtilitiesRegisteredFor"):
            out.append(["comp", kind, ci, i2])
        elif kind in ("registerAdapter", "unregisterAdapter"):
            st["seen"].append((i1, req, nm))
            out.append(["comp", kind, ci, v, req, i1, nm])
        elif kind in ("queryAdapter", "getAdapter"):
            out.append(["comp", kind, ci, objs[0], i1, nm])
        elif kind == "queryMultiAdapter":
            out.append(["comp", kind, ci, objs, i1, nm])
        elif kind in ("getAdapters", "subscribers"):
            out.append(["comp", kind, ci, objs, i1])
        elif kind in ("registerSubscriptionAdapter", "unregisterSubscriptionAdapter"):
            st["seen"].append((i1, req, 0))
            out.append(["comp", kind, ci, v, req, i1])
        elif kind in ("registerHandler", "unregisterHandler"):
            st["seen"].append((i1, req, 0))
            out.append(["comp", kind, ci, v, req])
        elif kind == "handle":
            out.append(["comp", kind, ci, objs])
        elif kind == "registered":
            out.append(["comp", kind, ci])
        else:
            cand = [b for b in range(st["n"]) if b < ci]
            rng.shuffle(cand)
            out.append(["comp", "setbases", ci, sorted(cand[: rng.choice([0, 1, 2])], reverse=True)])
    return out


FAMILY = ["lookup", "lookup1", "queryAdapter", "adapter_hook", "queryMultiAdapter", "lookupAll", "names",
          "subscriptions", "subscribers"]


def family_call(entry, reg, req_spec, obj, prov, name=None, default=True):
    """one lookup-family entry point on the key (required = (req_spec,) / the object providing it,
    provided = prov) of registry ``reg``"""
    if entry == "lookup1":
        req = ["raw", [req_spec]]
    elif entry in ("queryAdapter", "adapter_hook"):
        req = ["raw", [obj]]
    elif entry in ("queryMultiAdapter", "subscribers"):
        req = ["tuple", [obj]]
    else:
        req = ["tuple", [req_spec]]
    if entry in ("lookupAll", "names", "subscriptions", "subscribers"):
        return ["xreg", entry, reg, req, prov, None, False]
    return ["xreg", entry, reg, req, prov, name, default]


def gen_family_programs(world, ifaces, classes):
    """every pair of lookup-family entry points, in both orders, on the SAME key of the SAME registry
    with no mutation in between (their caches must not interfere), both flavours; plus the whole
    family forwards and backwards, with and without registrations"""
    objs = world["objects"]
    cls0 = objs[0]["cls"]
    R, O, P = ["S", cls0], ["o", 0], ["S", ifaces[0]]
    cases = []
    for flavour in ("push", "verifying"):
        for filled in (True, False):
            pre = [["newreg", flavour, []]]
            if filled:
                pre += [["register", 0, [0], ifaces[0], 0, [1, 1]], ["register", 0, [0], ifaces[0], 1, [3, 3]],
                        ["subscribe", 0, [0], ifaces[0], [2, 1]], ["subscribe", 0, [cls0], ifaces[0], [3, 3]]]
            for a in FAMILY:
                for b in FAMILY:
                    if a != b and (filled or FAMILY.index(a) < FAMILY.index(b)):
                        cases.append({"world": world, "matrix": True, "ops": pre + [
                            family_call(a, 0, R, O, P), family_call(b, 0, R, O, P), family_call(a, 0, R, O, P)]})
            for order in (FAMILY, FAMILY[::-1]):
                cases.append({"world": world, "matrix": True,
                              "ops": pre + [family_call(x, 0, R, O, P) for x in order] * 2})
    return cases


def gen_verifying_programs(world, ifaces, classes):
    """registries below base registries whose _generation changes between calls: a miss is cached,
    the base is mutated, the call is repeated with a non-string name and with a lazy / raising
    required, then for real; then the registry is re-based, then its new base is re-based"""
    req_i, prov_i = ifaces[0], ifaces[1]
    I = ["S", prov_i]
    R = ["S", req_i]
    cases = []
    for flavour in ("verifying", "push"):
        for entry in ("lookup", "lookup1", "queryAdapter", "adapter_hook", "queryMultiAdapter", "lookupAll", "names",
                      "subscriptions", "subscribers"):
            def q(name=None, form="tuple", default=True):
                if entry == "lookup1":
                    req = ["raw", [R]]
                elif entry in ("queryAdapter", "adapter_hook"):
                    req = ["raw", [["o", 0]]]
                elif entry in ("queryMultiAdapter", "subscribers"):
                    req = [form, [["o", 0]]]
                else:
                    req = [form, [R]]
                if entry in ("lookupAll", "names", "subscriptions", "subscribers"):
                    return ["xreg", entry, 1, req, I, None, False]
                return ["xreg", entry, 1, req, I, name, default]
            sub = entry in ("subscriptions", "subscribers")
            mut0 = ["subscribe", 0, [0], prov_i, [1, 1]] if sub else ["register", 0, [0], prov_i, 0, [1, 1]]
            mut2 = ["subscribe", 2, [0], prov_i, [3, 3]] if sub else ["register", 2, [0], prov_i, 0, [3, 3]]
            mut3 = ["subscribe", 3, [0], prov_i, [2, 1]] if sub else ["register", 3, [0], prov_i, 0, [2, 1]]
            ops = [["newreg", flavour, []], ["newreg", flavour, [0]], ["newreg", flavour, []], ["newreg", flavour, []],
                   q(), q(), mut0, q(["F", 5]), q(None, "genraise"), q(None, "gen"), q(), q(default=False),
                   ["setregbases", 1, [2]], q(), mut2, q(["F", 0]), q(),
                   ["setregbases", 2, [3]], q(None, "list"), mut3, q(), ["unregister", 3, [0], prov_i, 0, None],
                   ["unsubscribe", 3, [0], prov_i, None], q(), ["setregbases", 1, []], q()]
            cases.append({"world": world, "ops": ops, "matrix": True})
    return cases


REENT_ENTRIES = ["lookup", "lookup1", "queryAdapter", "adapter_hook", "queryMultiAdapter", "lookupAll", "names",
                 "subscriptions", "subscribers"]


def gen_reent(rng, n_regs, ifaces, classes, entry=None, trigger=None, mutation=None, reg=None):
    """["reent", trigger, entry, r, bases, provided, name, mutation, arity2] (see c10_driver.Interp.reent)"""
    r = rng.randrange(n_regs) if reg is None else reg
    entry = entry or rng.choice(REENT_ENTRIES)
    trigger = trigger or rng.choice(["subscribe", "subscribe", "weakref", "sro"])
    req_i = rng.choice(ifaces)
    prov_i = rng.choice(ifaces)
    name = rng.choice(["", "", "n1"])
    arity2 = entry in ("lookup", "queryMultiAdapter", "lookupAll", "names", "subscriptions", "subscribers") and rng.random() < 0.3
    req = [req_i, req_i] if arity2 else [req_i]
    nm = 0 if name == "" else 1
    kind = mutation or rng.choice(["register", "register", "unregister", "subscribe", "unsubscribe", "changed",
                                   "setregbases"])
    if entry in ("subscriptions", "subscribers") and mutation is None and rng.random() < 0.7:
        kind = rng.choice(["subscribe", "unsubscribe"])
    v = RG.gen_value(rng)
    if kind == "register":
        mut = ["register", r, req, prov_i, nm, v]
    elif kind == "unregister":
        mut = ["unregister", r, req, prov_i, nm, None]
    elif kind == "subscribe":
        mut = ["subscribe", r, req, prov_i, v]
    elif kind == "unsubscribe":
        mut = ["unsubscribe", r, req, prov_i, None]
    elif kind == "setregbases":
        mut = ["setregbases", r, []]
    else:
        mut = ["changed", r]
    return ["reent", trigger, entry, r, [req_i], ["S", prov_i], name, mut, arity2]


def gen_program(rng, n_ops=40, stress=None):
    world, ifaces, classes = RG.gen_world(rng, n_ifaces=rng.choice([3, 4, 5]), n_classes=rng.choice([2, 3]),
                                          n_objects=3)
    specs = world["specs"]
    objs = world["objects"]
    # a few classes use the *only* form
    for c in classes:
        if rng.random() < 0.2:
            specs[c]["only"] = True
    n_plain = len(objs)
    if rng.random() < 0.6:
        j = rng.randrange(n_plain)
        objs.append({"super_of": j, "at": objs[j]["cls"]})
    # extra interfaces: name / module variety + custom __adapt__ chains
    xifaces = []
    shapes = rng.choice(["chain", "plain", "mixed"])
    nx = rng.choice([3, 4, 5])
    custom = []
    for k in range(nx):
        nm = rng.choice(NAMES)
        md = rng.choice(MODS)
        bases = [b for b in range(k) if rng.random() < 0.4][:2]
        # two bases with different custom classes are a metaclass conflict (in both implementations)
        if sum(1 for b in bases if custom[b]) > 1:
            bases = bases[:1]
        ad = None
        other = False
        ident = nm.isidentifier()
        if ident and shapes != "plain":
            r = rng.random()
            if r < 0.35:
                ad = rng.choice([["none"], ["value", k + 1], ["value", k + 1], ["raise", "ValueError"],
                                 ["raise", "TypeError"], ["delegate"], ["value", 100 + k], ["value", 200 + k],
                                 ["value", 300]])
            if rng.random() < 0.35:
                other = True
        provby = ident and shapes != "plain" and rng.random() < 0.08
        xifaces.append({"name": nm, "module": md, "bases": bases, "adapt": ad, "other": other, "provby": provby})
        custom.append(ad is not None or other or provby or any(custom[b] for b in bases))
    if shapes == "chain":
        # the F8 shape: custom __adapt__, then a sub-interface that adds *another* interfacemethod
        xifaces.append({"name": "IBase", "module": "m", "bases": [], "adapt": ["value", 50], "other": False})
        xifaces.append({"name": "ISub", "module": "m", "bases": [len(xifaces) - 1], "adapt": None, "other": True})
        xifaces.append({"name": "ISubSub", "module": "m", "bases": [len(xifaces) - 1], "adapt": None, "other": False})
    cat = odd_catalogue(ifaces)
    odd = [copy.deepcopy(rng.choice(cat)) for _ in range(rng.choice([3, 4, 5]))]
    if stress == "odd":
        odd = [copy.deepcopy(x) for x in rng.sample(cat, 8)]
    for d in odd:
        if rng.random() < 0.3:
            d["base"] = rng.choice(classes)
    world["xifaces"] = xifaces
    world["odd"] = odd

    nobj, nodd, nxi = len(objs), len(odd), len(xifaces)

    def r_iface():
        return ["S", rng.choice(ifaces + [0])] if rng.random() < 0.7 else ["X", rng.randrange(nxi)]

    def r_spec():
        r = rng.random()
        if r < 0.45:
            return r_iface()
        if r < 0.65:
            return ["S", rng.choice(classes)]
        if r < 0.85:
            return ["P", r_obj(False)]
        return ["IB", ["c", rng.choice(classes)]]

    def r_obj(odd_ok=True):
        r = rng.random()
        if odd_ok and r < 0.35:
            return ["odd", rng.randrange(nodd)]
        if odd_ok and r < 0.42:
            return ["F", rng.randrange(N_FOREIGN)]
        if odd_ok and r < 0.47:
            return ["c", rng.choice(classes)]
        if odd_ok and r < 0.50:
            return ["oddc", rng.randrange(nodd)]
        return ["o", rng.randrange(nobj)]

    def r_cls():
        r = rng.random()
        if r < 0.6:
            return ["c", rng.choice(classes)]
        if r < 0.75:
            return ["oddc", rng.randrange(nodd)]
        if r < 0.9:
            return ["F", rng.randrange(N_FOREIGN)]
        return r_obj()

    def r_operand():
        r = rng.random()
        if r < 0.45:
            return r_iface()
        if r < 0.6:
            return ["S", rng.choice(classes)]
        if r < 0.7:
            return ["N"]
        if r < 0.9:
            return ["F", rng.randrange(N_FOREIGN)]
        return ["P", ["o", rng.randrange(n_plain)]]

    def r_anyspec():
        return r_spec() if rng.random() < 0.85 else ["F", rng.randrange(N_FOREIGN)]

    # registry history (reuses the shared generator) interleaved with the other ops
    reg_ops = RG.gen_history(rng, world, ifaces, classes, n_ops=max(6, n_ops // 3), n_regs=rng.choice([1, 2, 2, 3]))
    n_regs = len([o for o in reg_ops if o[0] == "newreg"])
    head, tail = reg_ops[:n_regs], reg_ops[n_regs:]
    ops = list(head)
    cached_none = False
    comp_state = {"n": 0, "seen": []}

    def x_required(arity=None):
        form = rng.choice(["tuple", "tuple", "list", "gen", "gen", "genraise"])
        ar = rng.choice([0, 1, 1, 1, 2]) if arity is None else arity
        items = []
        for _ in range(ar):
            r = rng.random()
            if r < 0.8:
                items.append(["S", rng.choice(ifaces + classes)])
            elif r < 0.9:
                items.append(["P", ["o", rng.randrange(n_plain)]])
            else:
                items.append(["F", rng.randrange(N_FOREIGN)])
        if rng.random() < 0.06:
            return ["raw", [["F", rng.randrange(N_FOREIGN)]]]
        return [form, items]

    def x_name():
        r = rng.random()
        if r < 0.35:
            return None
        if r < 0.8:
            return ["s", rng.choice(["", "n1", "n2"])]
        return ["F", rng.randrange(N_FOREIGN)]

    def x_provided():
        r = rng.random()
        if r < 0.85:
            return ["S", rng.choice(ifaces + [0])]
        if r < 0.9:
            return ["N"]
        return ["F", rng.randrange(N_FOREIGN)]

    def misc_op():
        nonlocal cached_none
        r = rng.random()
        if r < 0.16:      # declarations
            how = rng.choice(["classImplements", "classImplementsOnly", "classImplementsFirst", "implementer",
                              "implementer_only", "directlyProvides", "alsoProvides", "noLongerProvides",
                              "provider", "directlyProvides", "alsoProvides"])
            if how in ("directlyProvides", "alsoProvides", "noLongerProvides"):
                tgt = r_obj() if rng.random() < 0.85 else ["c", rng.choice(classes)]
            elif how == "provider":
                tgt = r_cls()
            else:
                tgt = r_cls()
            n = 1 if how in ("classImplementsFirst", "noLongerProvides") else rng.choice([0, 1, 1, 2])
            # declaring class specifications / instance declarations can close a cycle in the
            # specification graph (unbounded recursion in both implementations): interfaces and
            # foreign values only
            sp = [r_iface() if rng.random() < 0.9 else ["F", rng.randrange(N_FOREIGN)] for _ in range(n)]
            return [["decl", how, tgt, sp]]
        if r < 0.40:      # specification queries
            q = rng.random()
            if q < 0.25:
                return [["providedBy", r_obj() if rng.random() < 0.9 else ["sup", rng.choice(classes), 0]]]
            if q < 0.4:
                return [["implementedBy", r_cls()]]
            if q < 0.45:
                return [["directlyProvidedBy", r_obj()]]
            if q < 0.5:
                return [["getObjectSpecification", r_obj()]]
            if q < 0.8:
                meth = rng.choice(["providedBy", "providedBy", "implementedBy", "isOrExtends", "extends",
                                   "extends_nonstrict", "isEqualOrExtendedBy", "call"])
                if meth == "providedBy":
                    arg = r_obj()
                elif meth == "implementedBy":
                    arg = r_cls()
                else:
                    arg = r_anyspec() if rng.random() < 0.85 else ["N"]
                return [["m", meth, r_spec(), arg]]
            if q < 0.93:
                return [["attr", r_spec(), rng.choice(["__sro__", "__iro__", "__bases__", "flattened", "iter",
                                                       "interfaces"])]]
            return [["in", r_anyspec(), r_spec()]]
        if r < 0.46:      # attribute protocol
            tgt = rng.choice([r_obj(), r_cls()])
            if rng.random() < 0.25:
                inst, cls = rng.choice([(r_obj(), r_cls()), (r_obj(), None), (None, r_cls())])
                if rng.random() < 0.5:
                    return [["descr_get", "osd", inst, cls]]
                return [["descr_get", "cpb", inst, cls, ["c", rng.choice(classes)]]]
            return [["getattr", tgt, rng.choice(["__providedBy__", "__provides__", "__implemented__"])]]
        if r < 0.62:      # comparison / hash / sort
            q = rng.random()
            if q < 0.6:
                return [["cmp", r_operand(), r_operand()]]
            if q < 0.75:
                return [["hash", r_iface(), r_operand()]]
            if q < 0.9:
                return [["sort", [r_operand() for _ in range(rng.choice([2, 3, 5]))]]]
            return [["dict", [r_iface() for _ in range(4)]]]
        if r < 0.82:      # adaptation
            q = rng.random()
            if q < 0.2:
                hooks = []
                for _ in range(rng.choice([0, 1, 1, 2])):
                    h = rng.choice([["none"], ["value", rng.randrange(20, 25)], ["raise", "ValueError"],
                                    ["reg", rng.randrange(n_regs)], ["reg", rng.randrange(n_regs)],
                                    ["value", rng.choice([120, 220, 300, 301, 302])],
                                    ["value", rng.choice([121, 221, 300])]])
                    hooks.append(h)
                return [["sethooks", hooks]]
            iface = r_iface() if rng.random() < 0.5 else ["X", rng.randrange(nxi)]
            if q < 0.3:
                return [["adapt", iface, r_obj()]]
            return [["call", iface, r_obj(), rng.choice([False, True, True, "falsy"])]]
        if r < 0.835:
            if rng.random() < 0.3:
                return [["metaeq", rng.choice(["byname", "always", "never"]), rng.choice(ifaces), rng.choice(ifaces),
                         rng.randrange(n_regs), rng.random() < 0.5]]
            return [["life", rng.choice(["queryAdapter", "adapter_hook", "queryMultiAdapter", "subscribers", "lookup",
                                         "lookup1", "call"]), rng.randrange(n_regs), rng.choice(classes),
                     rng.choice(["plain", "direct", "super"]), rng.choice(["adapter", "none", "raise", "miss"]),
                     rng.random() < 0.5]]
        if r < 0.845:      # the whole lookup family on one key of one registry, shuffled, no mutation between
            reg = rng.randrange(n_regs)
            j = rng.randrange(n_plain)
            R = ["S", objs[j]["cls"]] if rng.random() < 0.7 else ["P", ["o", j]]
            P = ["S", rng.choice(ifaces + [0])]
            nm = rng.choice([None, ["s", ""], ["s", "n1"]])
            fam = list(FAMILY)
            rng.shuffle(fam)
            return [family_call(x, reg, R, ["o", j], P, nm) for x in fam[: rng.choice([4, 6, 9])]]
        if r < 0.855:      # a lookup during which the registry changes, then the same lookup again
            return [gen_reent(rng, n_regs, ifaces, classes)]
        if r < 0.90:
            return gen_comp_ops(rng, comp_state, ifaces, classes, nobj, n_plain)
        if r < 0.91:
            return [rng.choice([["icsub", rng.choice(["adapt", "adapt_sub", "providedBy"]), r_obj(), rng.random() < 0.5]])]
        # registry entry points with odd arguments / explicit defaults
        reg = rng.randrange(n_regs)
        meth = rng.choice(["lookup", "lookup1", "queryAdapter", "adapter_hook", "lookupAll", "subscriptions",
                           "names", "queryMultiAdapter", "subscribers", "lookup", "lookup1", "adapter_hook"])
        if meth in ("lookup1",):
            req = ["raw", [["S", rng.choice(ifaces + classes)] if rng.random() < 0.85 else ["F", rng.randrange(N_FOREIGN)]]]
        elif meth in ("queryAdapter", "adapter_hook"):
            req = ["raw", [r_obj()]]
        elif meth in ("queryMultiAdapter", "subscribers"):
            req = [rng.choice(["tuple", "list", "gen"]), [r_obj() for _ in range(rng.choice([1, 1, 2]))]]
        else:
            req = x_required()
        prov = x_provided()
        if meth in ("lookupAll", "subscriptions", "names", "subscribers"):
            return [["xreg", meth, reg, req, prov, None, False]]
        nm = x_name()
        op = ["xreg", meth, reg, req, prov, nm, rng.random() < 0.7]
        if rng.random() < 0.5 and req[0] != "gen":
            # twice: the second call finds what the first one cached (often None) — with a default
            if op[6]:
                cached_none = True
            return [op, copy.deepcopy(op)]
        return [op]

    while len(ops) < n_ops + n_regs:
        if tail and rng.random() < 0.3:
            ops.append(tail.pop(0))
        else:
            ops.extend(misc_op())
    # always finish with a probe of the state the program left behind
    for c in classes[:2]:
        ops.append(["attr", ["S", c], "__sro__"])
    for j in range(n_plain):
        ops.append(["providedBy", ["o", j]])
    return {"world": world, "ops": ops, "cached_none_default": cached_none}


def gen_matrix(rng):
    """The error-path matrix: every odd object x every unary entry point, every foreign value x
    every place it can be passed, one op per program (so that no divergence hides another)."""
    world, ifaces, classes = RG.gen_world(rng, n_ifaces=3, n_classes=2, n_objects=2)
    cat = odd_catalogue(ifaces)
    world["xifaces"] = [{"name": "IA", "module": "m", "bases": [], "adapt": None, "other": False},
                        {"name": "IC", "module": "m", "bases": [], "adapt": ["none"], "other": False},
                        # name order and module order disagree / equal names / equal keys
                        {"name": "IA", "module": "n", "bases": [], "adapt": None, "other": False},
                        {"name": "IB", "module": "a", "bases": [], "adapt": None, "other": False},
                        {"name": "IB", "module": "a", "bases": [], "adapt": None, "other": False},
                        {"name": "", "module": "z", "bases": [], "adapt": None, "other": False},
                        # an overridden providedBy (and a sub-interface inheriting it)
                        {"name": "IP", "module": "m", "bases": [], "adapt": None, "other": False, "provby": True},
                        {"name": "IPS", "module": "m", "bases": [6], "adapt": None, "other": False}]
    world["odd"] = cat
    I = ["S", ifaces[0]]
    X = ["X", 1]
    c0 = classes[0]

    def unary(o):
        return [
            ["providedBy", o], ["getObjectSpecification", o], ["m", "providedBy", I, o], ["call", I, o, False],
            ["call", I, o, True], ["adapt", I, o], ["call", X, o, True],
            ["xreg", "queryAdapter", 0, ["raw", [o]], I, None, True],
            ["xreg", "adapter_hook", 0, ["raw", [o]], I, None, True],
            ["xreg", "queryMultiAdapter", 0, ["tuple", [o]], I, None, True],
            ["xreg", "subscribers", 0, ["tuple", [o]], I, None, False],
            ["getattr", o, "__providedBy__"], ["getattr", o, "__provides__"], ["getattr", o, "__implemented__"],
            ["decl", "directlyProvides", o, [I]], ["decl", "alsoProvides", o, [I]], ["directlyProvidedBy", o],
            ["decl", "noLongerProvides", o, [I]], ["implementedBy", o], ["m", "implementedBy", I, o],
            ["descr_get", "osd", o, None], ["descr_get", "osd", o, ["c", c0]], ["descr_get", "osd", None, o],
            ["descr_get", "cpb", o, None, ["c", c0]], ["descr_get", "cpb", o, ["c", c0], ["c", c0]],
            ["descr_get", "cpb", None, o, ["c", c0]],
        ]

    def foreign(f):
        return unary(f) + [
            ["cmp", I, f], ["cmp", ["S", c0], f], ["m", "isOrExtends", I, f], ["m", "extends", I, f],
            ["m", "call", I, f], ["m", "isEqualOrExtendedBy", I, f], ["in", f, ["P", ["o", 0]]], ["hash", I, f],
            ["sort", [I, f, ["S", ifaces[1]]]],
            ["xreg", "lookup", 0, ["tuple", [f]], I, None, True], ["xreg", "lookup", 0, ["raw", [f]], I, None, True],
            ["xreg", "lookup1", 0, ["raw", [f]], I, None, True], ["xreg", "lookup", 0, ["tuple", [I]], f, None, True],
            ["xreg", "lookup1", 0, ["raw", [I]], f, None, True], ["xreg", "lookup", 0, ["tuple", [I]], I, f, True],
            ["xreg", "lookup1", 0, ["raw", [I]], I, f, True],
            ["xreg", "adapter_hook", 0, ["raw", [["o", 0]]], f, None, True],
            ["xreg", "adapter_hook", 0, ["raw", [["o", 0]]], I, f, True],
            ["xreg", "lookupAll", 0, ["tuple", [f]], I, None, False],
            ["xreg", "lookupAll", 0, ["tuple", [I]], f, None, False],
            ["xreg", "subscriptions", 0, ["tuple", [f]], I, None, False],
            ["xreg", "subscriptions", 0, ["tuple", [I]], f, None, False],
            ["xreg", "lookupAll", 0, ["raw", [f]], I, None, False], ["xreg", "names", 0, ["tuple", [f]], I, None, False],
            ["decl", "classImplements", ["c", c0], [f]], ["decl", "directlyProvides", ["o", 0], [f]],
            ["decl", "classImplements", f, [I]], ["decl", "implementer", f, [I]], ["decl", "provider", f, [I]],
        ]
    cases = []
    operands = [["X", k] for k in range(6)] + [I, ["S", c0], ["N"], ["P", ["o", 0]]]
    for a in operands:
        for b in operands:
            cases.append({"world": world, "ops": [["cmp", a, b], ["hash", a if a[0] in "XS" else I, b]], "matrix": True})
    cases.append({"world": world, "ops": [["sort", operands[:8]], ["dict", operands[:7]]], "matrix": True})
    # re-entrant lookups: every entry point x trigger x mutation x flavour, with an earlier
    # registration / subscription for the same key so that there is something to find or to lose
    req_i, prov_i = ifaces[0], ifaces[1]
    for flavour in ("push", "verifying"):
        for entry in REENT_ENTRIES:
            for trigger in ("subscribe", "weakref", "sro"):
                for mutation in ("register", "unregister", "subscribe", "unsubscribe", "changed"):
                    for pre in (False, True):
                        ops = [["newreg", flavour, []]]
                        if pre:
                            ops.append(["register", 0, [req_i], prov_i, 0, [1, 1]])
                            ops.append(["subscribe", 0, [req_i], prov_i, [2, 1]])
                        op = gen_reent(rng, 1, [req_i], classes, entry=entry, trigger=trigger, mutation=mutation, reg=0)
                        op[5] = ["S", prov_i]
                        op[6] = ""
                        if op[7][0] in ("register", "unregister"):
                            op[7][3], op[7][4] = prov_i, 0
                        elif op[7][0] in ("subscribe", "unsubscribe"):
                            op[7][3] = prov_i
                        ops.append(op)
                        cases.append({"world": world, "ops": ops, "matrix": True})
    cases.extend(gen_verifying_programs(world, ifaces, classes))
    cases.extend(gen_family_programs(world, ifaces, classes))
    # class objects with a hostile metaclass (== / hash), queries about an equal-but-distinct subclass
    for flavour in ("push", "verifying"):
        for kind in ("byname", "always", "never"):
            for warm in (False, True):
                cases.append({"world": world, "matrix": True,
                              "ops": [["newreg", flavour, []], ["metaeq", kind, ifaces[0], ifaces[1], 0, warm]]})
    # lifetimes of objects / adapters / factories / registries after every kind of lookup
    for flavour in ("push", "verifying"):
        for entry in ("queryAdapter", "adapter_hook", "queryMultiAdapter", "subscribers", "lookup", "lookup1", "call"):
            for objkind in ("plain", "direct", "super"):
                for beh in ("adapter", "none", "raise", "miss"):
                    for dflt in (False, True):
                        if entry == "subscribers" and dflt:
                            continue
                        cases.append({"world": world, "matrix": True,
                                      "ops": [["newreg", flavour, []],
                                              ["life", entry, 0, c0, objkind, beh, dflt]]})
    # both arguments bad: a lazy required that raises and an unhashable provided (known finding G15)
    for meth in ("lookup", "lookupAll", "subscriptions", "names", "queryMultiAdapter", "subscribers"):
        cases.append({"world": world, "matrix": True,
                      "ops": [["newreg", "push", []], ["xreg", meth, 0, ["genraise", []], ["F", 2], None, False]]})
    # Components-level programs
    for k in range(40):
        st = {"n": 0, "seen": []}
        ops = []
        while len(ops) < 25:
            ops.extend(gen_comp_ops(rng, st, ifaces, classes, 2, 2))
        cases.append({"world": world, "ops": ops, "matrix": True})
    # falsy-but-not-None results wherever a result is tested against None
    for fv in (120, 220, 300, 301, 302):
        for o in (["o", 0], ["odd", 0]):
            for alt in (False, True, "falsy"):
                cases.append({"world": world, "matrix": True,
                              "ops": [["sethooks", [["value", fv], ["value", 21]]], ["call", I, o, alt],
                                      ["adapt", I, o], ["call", X, o, alt]]})
    for vid in (4, 5):
        for o in (["o", 0], ["o", 1]):
            cases.append({"world": world, "matrix": True, "ops": [
                ["newreg", "push", []], ["register", 0, [0], ifaces[0], 0, [vid, vid]],
                ["subscribe", 0, [0], ifaces[0], [vid, vid]],
                ["xreg", "lookup", 0, ["tuple", [["S", 0]]], I, None, True],
                ["xreg", "lookup1", 0, ["raw", [["S", 0]]], I, None, True],
                ["xreg", "queryAdapter", 0, ["raw", [o]], I, None, True],
                ["xreg", "adapter_hook", 0, ["raw", [o]], I, None, True],
                ["xreg", "queryMultiAdapter", 0, ["tuple", [o]], I, None, True],
                ["xreg", "subscribers", 0, ["tuple", [o]], I, None, False],
                ["xreg", "lookupAll", 0, ["tuple", [["S", 0]]], I, None, False],
                ["sethooks", [["reg", 0]]], ["call", I, o, True], ["call", I, o, "falsy"],
                ["registered", 0, [0], ifaces[0], 0], ["unregister", 0, [0], ifaces[0], 0, [vid, vid]],
                ["unsubscribe", 0, [0], ifaces[0], [vid, vid]], ["allRegistrations", 0], ["allSubscriptions", 0]]})
    # specification methods called by keyword; interface classes that are plain InterfaceClass subclasses
    for meth, arg in (("isOrExtends", I), ("extends", I), ("providedBy", ["o", 0]), ("implementedBy", ["c", c0])):
        cases.append({"world": world, "ops": [["m_kw", meth, I, arg]], "matrix": True})
    for what in ("adapt", "adapt_sub", "providedBy"):
        for alt in (False, True):
            cases.append({"world": world, "ops": [["icsub", what, ["o", 0], alt]], "matrix": True})
    for k in (6, 7):
        for alt in (False, True):
            cases.append({"world": world, "matrix": True,
                          "ops": [["m", "providedBy", ["X", k], ["o", 0]], ["call", ["X", k], ["o", 0], alt],
                                  ["adapt", ["X", k], ["o", 0]]]})
    # the documented base classes, bare (slots never assigned)
    for what in ("ib_hash_unhashable", "ib_hash_unset", "cpb_unset", "cpb_no_implements", "cpb_other_cls",
                 "sb_unset", "sb_implied_none"):
        cases.append({"world": world, "ops": [["bare", what, ["c", c0], I]], "matrix": True})
    for k in range(len(cat)):
        for op in unary(["odd", k]) + unary(["oddc", k]):
            cases.append({"world": world, "ops": [["newreg", "push", []], op, copy.deepcopy(op)], "matrix": True})
    for k in range(N_FOREIGN):
        for op in foreign(["F", k]):
            cases.append({"world": world, "ops": [["newreg", "push", []], op, copy.deepcopy(op)], "matrix": True})
    return cases


def generate(run, tier):
    global _GENERATED
    _GENERATED = True
    rng = run.rng("gen")
    n = 500 if tier == "quick" else 8000
    cases = gen_matrix(rng)
    for k in range(n):
        stress = "odd" if k % 5 == 0 else None
        cases.append(gen_program(rng, n_ops=rng.choice([25, 40, 60]), stress=stress))
    return cases


# --------------------------------------------------------------------------- Coq emission (rows)

_GENERATED = False
_STASH = {"c": [], "py": []}


def _pv(p):
    """[tag, x] probe -> Coq term of type CTwins.probe"""
    if p[0] == 0:
        return "(Raise EAttr)"
    if p[0] == 1:
        return {1: "(Raise EType)", 5: "(Raise ESys)"}.get(p[1], "(Raise (EOther %d))" % p[1])
    return "(Ok %d)" % p[1]


def _pyval(v):
    if v[0] == "s":
        return "(VStr %s)" % C.cstr_codes(v[1])
    if v[0] == "i":
        return "(VInt %d)" % v[1]
    return None


KMAP = {"iface": "KIface", "impl": "KImpl", "none": "KNone", "named": "KNamed", "anon": "KAnon"}


def _row(row, mode):
    uc = C.cbool(mode == "c")
    k = row["k"]
    if k == "pb":
        ext = row["pb_ext"]
        ext_t = "ExtPresent" if ext[0] == 0 else "ExtAttrErr" if ext[0] == 1 else "(ExtExc %d)" % ext[1]
        d = "(mkObjD SupFalse %s %s %s %s %s %s %s %s %s %d)" % (
            _pv(row["pb"]), C.cbool(row["pb_sb"]), ext_t, _pv(row["prov"]), C.cbool(row["prov_sb"]),
            _pv(row["cls"]), _pv(row["cprov"]), _pv(row["implby"]), _pv(row["implby"]), row["empty"])
        return "(RProvidedBy %s %s %s %s)" % (uc, d, _pv(row["out"]), _pv(row["out_gos"]))
    if k == "ib":
        e = row["entry"]
        entry = "EAbsent" if e[0] == 0 else "ENone" if e[0] == 1 else "(ESpec %d %s)" % (e[1], C.cbool(e[2]))
        dr = row["dict"]
        dict_t = "DOk" if dr[0] == 2 else "DAttrErr" if dr[0] == 0 else "(DExc %d)" % dr[1]
        b = "None" if not row["builtin"] else "(Some %d)" % row["builtin"]
        return "(RImplementedBy %s (mkClsD false %s %s %s %s) %s)" % (
            uc, C.cbool(row["is_type"]), dict_t, entry, b, _pv(row["out"]))
    if k == "ext":
        return "(RExtends %s %d %s %s %d)" % (uc, row["implied"], C.cbool(row["hashable"]), C.cbool(row["member"]),
                                              row["out"])
    if k == "osd":
        return "(ROsdGet %s %s %s %s %s)" % (uc, C.cbool(row["inst"]), _pv(row["prov"]), _pv(row["fallback"]),
                                             _pv(row["out"]))
    if k == "cpb":
        impl = "None" if not row["implements"] else "(Some %d)" % row["implements"]
        return "(RCpbGet %s %s %s %s %d %s %s)" % (uc, C.cbool(row.get("cls_set", True)), C.cbool(row["same_cls"]),
                                                   C.cbool(row["inst"]), row["self"], impl, _pv(row["out"]))
    if k == "hashfail":
        return "(RHashFail %s %d %d)" % (uc, row["outs"][0], row["outs"][1])
    if k == "hash":
        return "(RHash %s %s %s %s)" % (uc, C.cZ(row["tuple"]), C.cZ(row["h1"]), C.cZ(row["h2"]))
    if k == "cmp":
        def opnd(d):
            kind, nm, md, ident = d
            if kind == "namedx":
                a, b = _pyval(nm), _pyval(md)
                if a is None or b is None:
                    return None
                return "(XNamed %d %s %s)" % (ident, a, b)
            return "(XOp (mkOp %s %d %s %s))" % (KMAP[kind], ident, C.cstr_codes(nm), C.cstr_codes(md))
        a, b = opnd(row["a"]), opnd(row["b"])
        if a is None or b is None:
            return None
        return "(RCmp %s %s %s %s %s)" % (uc, a, b, C.clist([C.cN(x) for x in row["rab"]]),
                                          C.clist([C.cN(x) for x in row["rba"]]))
    return None


def coq_case(case, obs, mode):
    _STASH[mode].append((case, obs))
    rows = [r for r in (_row(r, mode) for r in obs["rows"]) if r is not None]
    if not _GENERATED and mode == "py":
        # replay of a differential witness: the cross-mode comparison of extra() is skipped by the
        # runner for replays, so it is folded into the rows
        i = len(_STASH["py"]) - 1
        if i < len(_STASH["c"]):
            d = first_diff(_STASH["c"][i][1]["tokens"], obs["tokens"])
            if d is not None:
                rows.append("(RDiff %d)" % d)
    if not rows:
        return None
    return "[" + ";\n  ".join(rows) + "]"


def first_diff(a, b):
    for i, (x, y) in enumerate(zip(a, b)):
        if x != y:
            return i
    if len(a) != len(b):
        return min(len(a), len(b))
    return None


# --------------------------------------------------------------------------- classification

ERROR_REF = ("odd", "oddc", "F")


def _has_error_ref(x):
    if isinstance(x, list):
        if x and x[0] in ERROR_REF and len(x) == 2 and isinstance(x[1], int):
            return True
        return any(_has_error_ref(y) for y in x)
    return False


def op_kind(op):
    k = op[0]
    if k == "decl":
        return "decl:" + op[1]
    if k == "m":
        return "spec." + op[1]
    if k == "xreg":
        return "xreg." + op[1]
    if k in ("attr", "getattr"):
        return k + ":" + op[2]
    return k


def _tok_is_exc(t):
    if isinstance(t, str):
        return t.startswith("EXC:")
    if isinstance(t, list):
        return any(_tok_is_exc(x) for x in t)
    return False


def classify(case, obs):
    kinds = sorted(set(op_kind(o) for o in case["ops"]))
    return (len(kinds), sum(1 for t in obs["tokens"] if _tok_is_exc(t)) > 0, bool(case.get("cached_none_default")))


def kind(case, obs):
    return "program"


# foreign values (harness/drivers/c10_driver.py foreign_table) whose __name__ / __module__ is not a str
NONSTR_FOREIGN = (5, 6, 13)
G8_KEY = "G8:eq-with-nonstr-name"


def _mentions_nonstr_foreign(x):
    if isinstance(x, list):
        if len(x) == 2 and x[0] == "F" and x[1] in NONSTR_FOREIGN:
            return True
        return any(_mentions_nonstr_foreign(y) for y in x)
    return False


def _is_g8(op, tc, tp):
    """known finding G8 (Properties/C10.v C10_richcompare_nonstr_refuted): == / != between an
    interface and a foreign object whose name is not a str — C answers, Python raises TypeError.
    Recognised by the cause: the op compares with such an object AND the traces differ exactly
    where an == / != was evaluated, C giving a bool and Python TypeError."""
    if not _mentions_nonstr_foreign(op):
        return False
    k = op[0]
    if k == "cmp":
        try:
            for rc, rp in zip(tc, tp):
                for j, (x, y) in enumerate(zip(rc, rp)):
                    if x != y and not (j in (4, 5) and x in (0, 1) and y == "EXC:TypeError"):
                        return False
            return True
        except TypeError:
            return False
    if k == "m" and op[1] == "isEqualOrExtendedBy":
        # self == other or other.extends(self): C goes on to other.extends (AttributeError)
        return tp == "EXC:TypeError" and tc in ("EXC:AttributeError", "T", "F")
    if k == "in":
        return tp == "EXC:TypeError" and tc in ("T", "F")
    return False


G11_KEY = "G11:spec-method-argument-by-keyword"
G15_KEY = "G15:raising-lazy-required-vs-unhashable-provided-error-order"
G14_KEY = "G14:adapt-ignores-error-of-truth-value"


def _mentions_badbool(case, op):
    odd = case["world"].get("odd", [])

    def walk(x):
        if isinstance(x, list):
            if len(x) == 2 and x[0] == "odd" and isinstance(x[1], int) and x[1] < len(odd):
                if "call_badbool" in json.dumps(odd[x[1]]):
                    return True
            return any(walk(y) for y in x)
        return False
    return walk(op)


G12_KEY = "G12:interfaceclass-subclass-adapt-ignored-by-C-call"
G13_KEY = "G13:providedBy-override-ignored-by-C-adapt"


def _provby_lineage(case, k):
    xs = case["world"].get("xifaces", [])
    if k >= len(xs):
        return False
    x = xs[k]
    if x.get("adapt") is not None and x["adapt"][0] != "delegate":
        return False      # a custom __adapt__ that never reaches the built-in one
    return bool(x.get("provby")) or any(_provby_lineage(case, b) for b in x["bases"])


def diff_key(case, tok_c, tok_py, i):
    """signature of a C/Python divergence: the cause when it is a known one, else op kind + the two
    tokens reduced to their shape"""
    op = case["ops"][i] if i < len(case["ops"]) else ["<length>"]
    if _is_g8(op, tok_c, tok_py):
        return G8_KEY
    if tok_c == "EXC:SystemError" or (isinstance(tok_c, list) and tok_c and tok_c[0] == "EXC:SystemError"):
        if _mentions_badbool(case, op) and "ValueError" in json.dumps(tok_py):
            return G14_KEY
    if (op[0] == "xreg" and op[3][0] == "genraise" and op[4][0] == "F" and op[4][1] in (2, 11)
            and tok_c == "EXC:ValueError" and tok_py == "EXC:TypeError"):
        # C resolves a lazy ``required`` before it fetches the cache for ``provided`` (on purpose, see
        # the comment in _lookup), Python afterwards: with both arguments bad the errors come in a
        # different order
        return G15_KEY
    if op[0] == "icsub":
        return G13_KEY if op[1] == "providedBy" else G12_KEY
    if op[0] in ("call", "adapt") and op[1][0] == "X" and _provby_lineage(case, op[1][1]) and tok_c != tok_py:
        return G13_KEY
    if op[0] == "m_kw" and op[1] in ("isOrExtends", "providedBy", "implementedBy") and tok_c == "EXC:TypeError":
        # the C methods are METH_O: no keyword arguments
        return G11_KEY

    def shape(t):
        if isinstance(t, str):
            return t if t.startswith("EXC:") or t in ("T", "F", "None", "default", "ok") else t.rstrip("0123456789")
        if isinstance(t, list):
            ex = [x for x in _flat(t) if isinstance(x, str) and x.startswith("EXC:")]
            return "list" + ("+" + ex[0] if ex else "")
        return "int"
    return "%s:c=%s:py=%s" % (op_kind(op), shape(tok_c), shape(tok_py))


def _flat(t):
    for x in t:
        if isinstance(x, list):
            yield from _flat(x)
        else:
            yield x


def finding_key(case, obs, mode):
    """Only replays get here with a differential witness (RDiff row): the key of the first divergence
    that is not a known finding, else of the first divergence."""
    for (c1, oc), (c2, op) in zip(_STASH["c"], _STASH["py"]):
        if c1 is case or c2 is case:
            ds = all_diffs(case, oc["tokens"], op["tokens"])
            if not ds:
                return None
            known = C.load_known(ID)
            for _d, k in ds:
                if k not in known:
                    return k
            return ds[0][1]
    return None


def on_driver_crash(run, mode, res, cases):
    """The interpreter died (signal) in one mode: find the program, cut it down, report it."""
    impl = C.Impl()
    try:
        def crashes(cs):
            try:
                st, _r = impl.run(DRIVER, {"cases": cs}, mode, timeout=300)
            except Exception:
                return True
            return st != "ok"
        pool = list(cases)
        if not crashes(pool):
            raise C.HarnessError("driver crash in mode %s not reproducible: %s" % (mode, json.dumps(res)[:2000]))
        while len(pool) > 1:
            half = pool[: len(pool) // 2]
            pool = half if crashes(half) else pool[len(pool) // 2:]
        case = pool[0]
        if not crashes([case]):
            raise C.HarnessError("driver crash in mode %s needs more than one program" % mode)
        ops = list(case["ops"])
        # shortest crashing prefix, then drop ops one by one
        lo, hi = 1, len(ops)
        while lo < hi:
            mid = (lo + hi) // 2
            if crashes([dict(case, ops=ops[:mid])]):
                hi = mid
            else:
                lo = mid + 1
        ops = ops[:lo]
        j = 0
        while j < len(ops) - 1 and len(ops) > 1:
            cand = ops[:j] + ops[j + 1:]
            if crashes([dict(case, ops=cand)]):
                ops = cand
            else:
                j += 1
        small = dict(case, ops=ops)
        rp = {"property": ID, "kind": "the interpreter crashes while executing this API program", "mode": mode,
              "case": small, "cases": [small], "crash": res, "how_to_replay": "bin/check C10 --replay <this file>"}
        path = run.replay_path("crash_%s" % mode)
        with open(path, "w") as fh:
            json.dump(rp, fh, indent=1, sort_keys=True, default=str)
        run.violations.insert(0, {"what": "driver process died in mode %s (returncode %s) on a %d-op program"
                                          % (mode, res.get("returncode"), len(ops)), "replay": path, "no_input": False})
    finally:
        impl.cleanup()


def replay_text(case, obs, mode):
    return ("# PURE_PYTHON=%s; program for harness/drivers/c10_driver.py (ops interpreted by ``Interp.do``)\n"
            "# world: %s\n# ops: %s\n# tokens: %s" % ("1" if mode == "py" else "0", json.dumps(case["world"]),
                                                      json.dumps(case["ops"]), json.dumps(obs["tokens"])))


# --------------------------------------------------------------------------- the differential tie

def _run_both(impl, cases):
    out = {}
    for mode in ("c", "py"):
        st, res = impl.run(DRIVER, {"cases": cases}, mode, timeout=300)
        if st != "ok":
            out[mode] = None
            out[mode + "_crash"] = res
        else:
            out[mode] = res["obs"]
    return out


def all_diffs(case, tc, tp):
    """[(op index, key)] for every op on which the two traces differ"""
    out = []
    for i in range(max(len(tc), len(tp))):
        x = tc[i] if i < len(tc) else None
        y = tp[i] if i < len(tp) else None
        if x != y:
            out.append((i, diff_key(case, x, y, i)))
    return out


def _diverges(impl, case, key=None):
    """(index, key) of the first differing op (with that key, if given) or None"""
    r = _run_both(impl, [case])
    if r["c"] is None or r["py"] is None:
        return (len(case["ops"]) - 1, "crash") if key in (None, "crash") else None
    for d, k in all_diffs(case, r["c"][0]["tokens"], r["py"][0]["tokens"]):
        if key is None or k == key:
            return d, k
    return None


def _diverging_batch(impl, case, cands, key):
    """for each candidate op list: index of the first op diverging with ``key`` (None: no such op);
    all candidates run in one driver process per mode"""
    cases = [dict(case, ops=ops) for ops in cands]
    r = _run_both(impl, cases)
    if r["c"] is None or r["py"] is None:
        # a crash of the whole batch: fall back to one by one
        return [(_diverges(impl, c, key) or (None,))[0] for c in cases]
    out = []
    for c, oc, op in zip(cases, r["c"], r["py"]):
        hit = None
        for d, k in all_diffs(c, oc["tokens"], op["tokens"]):
            if k == key:
                hit = d
                break
        out.append(hit)
    return out


def minimise(impl, case, key, rounds=40):
    """delta debugging on the op list (the world stays; ops are independent commands), keeping the
    same divergence signature; every round evaluates all its candidates in one batch"""
    d0 = _diverges(impl, case, key)
    if d0 is None:
        return case
    ops = case["ops"][: d0[0] + 1]
    n = 2
    for _ in range(rounds):
        if len(ops) < 2:
            break
        chunk = max(1, -(-len(ops) // n))
        starts = list(range(0, len(ops), chunk))
        cands = [ops[:st] + ops[st + chunk:] for st in starts]
        cands = [c for c in cands if c]
        hits = _diverging_batch(impl, case, cands, key)
        for cand, hit in zip(cands, hits):
            if hit is not None:
                ops = cand[: hit + 1]
                n = max(n - 1, 2)
                break
        else:
            if chunk == 1:
                break
            n = min(len(ops), n * 2)
    return dict(case, ops=ops)


def extra(run, impl, known):
    cov = run.coverage
    pairs = list(zip(_STASH["c"], _STASH["py"]))
    if not pairs:
        return
    ops = 0
    kinds = {}
    err_ops = 0
    exc_ops = 0
    cached = 0
    rows = {}
    diffs = []
    for i, ((case, oc), (_c2, op)) in enumerate(pairs):
        ops += len(case["ops"])
        if case.get("cached_none_default"):
            cached += 1
        for o, t in zip(case["ops"], oc["tokens"]):
            kk = op_kind(o)
            kinds[kk] = kinds.get(kk, 0) + 1
            if _has_error_ref(o):
                err_ops += 1
            if _tok_is_exc(t):
                exc_ops += 1
        for r in oc["rows"]:
            rows[r["k"]] = rows.get(r["k"], 0) + 1
        # every differing op is looked at: a known divergence that leaves the state alone (G8 is a
        # comparison) must not hide an unknown one later in the same program
        seen_here = set()
        for d, key in all_diffs(case, oc["tokens"], op["tokens"]):
            if key in seen_here:
                continue
            seen_here.add(key)
            diffs.append((i, d, key))
            if key not in known:
                break           # after an unknown divergence the states may differ legitimately
    cov["programs"] = len(pairs)
    cov["ops"] = ops
    cov["op_kinds"] = dict(sorted(kinds.items()))
    cov["error_path_ops"] = err_ops
    cov["ops_raising"] = exc_ops
    cov["programs_with_cached_none_and_default"] = cached
    cov["twin_kernel_rows"] = rows
    cov["programs_diverging"] = len(set(i for i, _d, _k in diffs))
    cov["matrix_programs"] = sum(1 for (case, _o), _p in pairs if case.get("matrix"))
    seen = {}
    for i, d, key in diffs:
        seen.setdefault(key, []).append(i)
    cov["divergence_signatures"] = {k: len(v) for k, v in seen.items()}
    done = 0
    mine = []
    for key, idxs in sorted(seen.items()):
        if key in known:
            msg = "KNOWN-FINDING: property=%s %s [%s]" % (ID, known[key], key)
            if msg not in run.known_hits:
                run.known_hits.append(msg)
            continue
        i = idxs[0]
        case = pairs[i][0][0]
        small = minimise(impl, case, key) if done < 6 else case
        done += 1
        r = _run_both(impl, [small])
        rp = {"property": ID, "kind": "the C implementation and the Python reference diverge on this API program",
              "finding_key": key, "case": small, "cases": [small], "programs_with_this_signature": len(idxs),
              "tokens_c": r["c"][0]["tokens"] if r["c"] else r.get("c_crash"),
              "tokens_py": r["py"][0]["tokens"] if r["py"] else r.get("py_crash"),
              "how_to_replay": "bin/check C10 --replay <this file>",
              "note": "ops are interpreted by harness/drivers/c10_driver.py (Interp.do); the last op is the first "
                      "one on which the two traces differ"}
        # written directly (Run.add_violation stops writing replay files after 12 violations, and the
        # runner's own, unminimised, spec violations come first)
        path = run.replay_path("diff_%d" % i)
        with open(path, "w") as fh:
            json.dump(rp, fh, indent=1, sort_keys=True, default=str)
        mine.append({"what": "C and Python traces differ: %s (program %d, %d ops after minimisation)"
                             % (key, i, len(small["ops"])), "replay": path, "no_input": False,
                     "n_ops": len(small["ops"])})
    # the minimised differential witnesses first (the runner prints the first violation)
    mine.sort(key=lambda v: v["n_ops"])
    run.violations[:0] = mine[:12]


RULE = ("API programs of 25-60 operations over a generated world (interface DAG, classes with implementer / "
        "implementer_only declarations, instances with direct declarations, super proxies, extra interfaces with "
        "name/module variety and custom __adapt__ chains through @interfacemethod, 3-8 objects on the error paths "
        "of providedBy, registries of both flavours); a program is non-trivial when at least one op raises; "
        "distinct = (number of op kinds, raises?, cached-None-with-default?)")
TRUSTED_BASE = ["the driver's canonicalisation of results (tokens) and its probing of live objects into the "
                "abstract descriptions judged in Coq (harness/drivers/c10_driver.py)",
                "re-exported twin theorems rely on the models of C08 (Model/CLookup.v), C12 (Model/Order.v) and "
                "C14 (Model/Adapt.v), each tied to the code by its own property's correspondence"]
ASSUMPTIONS = ["attribute reads on the generated objects are deterministic and free of side effects (the C fast "
               "paths read an attribute once where the Python fallback reads it again)",
               "isinstance(ob, super) does not raise AttributeError (CPython's object_isinstance swallows it)"]
TECHNIQUE = ("Coq equivalence proofs between Gallina models written from the C text and from the Python text of each "
             "twin kernel + differential execution of generated API programs in both implementations")
LEVEL_TEXT = ("Machine-checked equivalence (or refutation with witness) for the modelled twin kernels; the code "
              "around the kernels (argument parsing, attribute protocol, everything the kernels delegate to) is "
              "compared differentially on generated API programs only: partial there.")
LEVEL_NOTE = ("Trusted: Coq kernel/vm_compute; the hand-written twin models (validated per mode on every run by the "
              "rows extracted from the programs); the differential comparison covers what the generator reaches.")
