"""C13 — specifications pickle by reference and unpickle to the equivalent live object
(DESIGN.md section 5, C13)."""
from .. import common as C

ID = "C13"
COQ_TARGETS = ["Tie/C13.vo", "Properties/C13.vo"]
PROPERTY_FILE = "Properties/C13.v"
TIE = "Tie.C13"
DRIVER = "c13_driver.py"
SHARD = 40
HAS_MODEL_OUT = False   # a per-case coqc for diagnostics would dominate the run time of a broken tree
THEOREMS = [
    "C13_iface_roundtrip_identity",
    "C13_class_roundtrip_identity",
    "C13_implements_reduce_names_own_class",
    "C13_implements_roundtrip_identity",
    "C13_empty_roundtrip_identity",
    "C13_provides_roundtrip_identity_shared",
    "C13_provides_roundtrip_identity_live",
    "C13_shared_declarations_are_current",
    "C13_provides_roundtrip_same_interfaces",
    "C13_provides_fresh_is_current",
    "C13_provides_roundtrip_fresh_process",
    "C13_provides_roundtrip_reachable",
    "C13_classprovides_roundtrip_same_interfaces",
    "C13_object_with_declaration_roundtrip",
    "C13_object_roundtrip_module_ordered",
    "C13_roundtrip_eq_hash",
    "C13_generated_iface_reduce_eq_model",
    "C13_generated_empty_reduce_eq_model",
    "C13_generated_implements_reduce_eq_model",
    "C13_generated_provides_reduce_eq_model",
    "C13_generated_classprovides_reduce_eq_model",
    "C13_generated_new_spec_eq_model",
    "C13_generated_factory_eq_model",
    "C13_generated_changed_eq_model",
    "C13_generated_directlyProvides_normalises",
]


def regenerate(run):
    """Re-derive coq/Gen/ReduceKernel.v from the current interface.py / declarations.py (fail closed)."""
    import os
    from ..translate import reduce as TR
    gen = os.path.join(C.COQ, "Gen", "ReduceKernel.v")
    try:
        text = TR.translate(os.path.join(C.REPO, "src", "zope", "interface"))
        C.write_if_changed(gen, text)
        return []
    except Exception as e:  # noqa: refuse, report, keep the pipeline alive on the pinned kernel
        C.write_if_changed(gen, TR.PINNED)
        return ["harness/translate/reduce.py refused the current source (%s: %s); coq/Gen/ReduceKernel.v holds the "
                "pinned kernel, so the C13_generated_*_eq_model theorems are NOT about the current source"
                % (type(e).__name__, e)]


RULE = ("generated importable module: interface DAG of 1..5 interfaces (<= 2 bases, some in C3-inconsistent "
        "order), 1..4 classes (<= 2 bases, multiple inheritance), 0..3 instances with plain attributes; history "
        "of 0..8 class-level operations (classImplements/implementer, classImplementsOnly/implementer_only, "
        "classImplementsFirst, directlyProvides(cls)/provider, alsoProvides(cls)/directlyProvides(cls, "
        "directlyProvidedBy(cls), ..), noLongerProvides(cls)) and 0..6 instance operations (directlyProvides, "
        "alsoProvides, noLongerProvides, gc.collect) either module-ordered or interleaved; in a third of the cases "
        "one class is a built-in type (complex, frozenset, bytearray, slice, range, memoryview; its declarations are "
        "dropped from BuiltinImplementationSpecifications before and after the case); instance declarations "
        "often name an interface the class already implies (40%) or nothing at all (directlyProvides(ob), "
        "noLongerProvides down to empty); 30% of the cases give some classes a metaclass that makes the "
        "class object falsy (__len__ -> 0 or __bool__ -> False, inherited by subclasses), 25% declare a class "
        "old-style (`__implemented__ = I` in the body), 20% of the interfaces are created by a class statement "
        "inside a function or another class body and 15% of the classes inside another class body, all "
        "published as module globals; 30% of the cases name Interface itself in declarations (class-level and "
        "instance-level) and a quarter of the directlyProvides / alsoProvides argument lists (instances and "
        "classes) carry another class's specification implementedBy(D); a quarter of the argument "
        "lists pass a slice wrapped in a Declaration(...); every interface, class, class "
        "specification, class provides, instance provides and instance round-tripped with protocols 0..5 in the "
        "same process and into a fresh process; a case is non-trivial when some class specification or "
        "provides-declaration declares at least one interface; distinct = distinct set of shape tags")
TRUSTED_BASE = ["harness/translate/reduce.py: the abstraction self.inherit -> im_inherit, self._implements_cls -> im_cls, "
                "`return <str>` = pickle by global name, __init__'s `self.__args = (params, ) + interfaces` -> record "
                "fields (metacls = type), InstanceDeclarations.get / [..] = / del -> cache_get / cache_set / filter; "
                "statement shapes other than the ones it lists abort the translation",
                "the pickle module itself (GLOBAL lookup, REDUCE, NEWOBJ/BUILD) is trusted, not modelled; "
                "its by-name behaviour is observed with pickletools on every payload"]
ASSUMPTIONS = ["the generated modules stay importable under the same name in the unpickling process",
               "a metaclass other than `type` (generated: one that makes the class object falsy) is a global name in "
               "the model: what the metaclass itself implements is not modelled, and nothing is declared on it",
               "class specifications as declaration arguments are generated and modelled for directlyProvides / "
               "alsoProvides on instances and classes (Provides / ClassProvides arguments); in classImplements / "
               "classImplementsOnly / classImplementsFirst argument lists only interfaces (Interface itself included) "
               "are generated: classImplementsOnly and classImplementsFirst keep a Declaration or specification "
               "argument as one opaque base, which the model does not represent",
               "specifications of super() objects, function-local classes (Python cannot pickle them) and qualname-"
               "nested interfaces are outside the statement's 'importable' quantifier; nested classes and interfaces "
               "created in functions or class bodies but published as module globals are generated",
               "for histories that are not module-ordered (a class is re-declared after one of its instances "
               "received a declaration) the instance's declaration may be stale (C01) and, since the C01 repair, no "
               "longer shared: unpickling rebuilds the current one.  For those histories list(spec) equality of "
               "instance declarations is not demanded; demanded instead (every history): the unpickled declaration "
               "provides at least what the original does and nothing beyond what was named for the instance or its "
               "class implements now, and identity wherever the declaration is still shared",
               "ClassProvides (and Provides that are no longer shared) are rebuilt on unpickling: Python's == / hash "
               "on them are identity based, so 'equal' is judged as 'same interfaces' as the task statement directs"]


# --------------------------------------------------------------------------- generation

def _subset(rng, n, kmax, allow_dup=False):
    k = rng.randint(0, min(kmax, n))
    xs = rng.sample(range(n), k)
    if allow_dup and xs and rng.random() < 0.1:
        xs.append(rng.choice(xs))
    return xs


BUILTIN_TYPES = ["complex", "frozenset", "bytearray", "slice", "range", "memoryview"]


def _gen_world(rng):
    ni = rng.choice([1, 2, 3, 3, 4, 4, 5, 5, 5])
    ifaces = []
    for i in range(ni):
        bs = sorted(_subset(rng, i, 2), reverse=True)
        if rng.random() < 0.2:
            rng.shuffle(bs)
        ifaces.append(bs)
    nc = rng.choice([1, 2, 3, 3, 4, 4, 4])
    classes = []
    for c in range(nc):
        bs = sorted(_subset(rng, c, 2), reverse=True)     # descending ids: always a valid MRO
        if c and not bs and rng.random() < 0.6:
            bs = [rng.randrange(c)]
        classes.append(bs)
    builtin = {}
    if rng.random() < 0.35:
        # the last class is a built-in type (never a base, never instantiated here)
        classes[-1] = []
        builtin[str(nc - 1)] = rng.choice(BUILTIN_TYPES)
    plain = [c for c in range(nc) if str(c) not in builtin]
    insts = [[rng.choice(plain), [rng.randint(-5, 300) for _ in range(rng.randint(0, 2))]]
             for _ in range(rng.choice([0, 1, 2, 2, 3]))] if plain else []
    return ifaces, classes, insts, builtin


def _ifs(rng, ni, lo=1):
    k = rng.randint(lo, min(3, ni))
    xs = rng.sample(range(ni), k) if k else []
    if xs and rng.random() < 0.08:
        xs.append(rng.choice(xs))
    return xs


def _wrap(rng, xs):
    """Optionally pass a slice of the interfaces wrapped in one Declaration(...) (distinct members)."""
    if len(xs) < 1 or rng.random() > 0.25:
        return []
    start = rng.randrange(len(xs))
    ln = rng.randint(1, len(xs) - start)
    grp = xs[start:start + ln]
    if len(set(grp)) != len(grp):
        return []
    return [[start, ln]]


def _gen_case(rng, force=None):
    ifaces, classes, insts, builtin = _gen_world(rng)
    ni, nc = len(ifaces), len(classes)
    plain = [c for c in range(nc) if str(c) not in builtin]
    cops = []
    for _ in range(rng.randint(0, 8)):
        kind = rng.choice(["impl", "impl", "only", "only", "first", "cprov", "cprov", "cap", "cap", "cnl"])
        c = rng.randrange(nc)
        if kind in ("cprov", "cap", "cnl"):
            if not plain:
                continue
            c = rng.choice(plain)       # a built-in type cannot carry __provides__
        if kind == "first":
            cops.append(["first", c, rng.randrange(ni)])
        elif kind == "cnl":
            cops.append(["cnl", c, rng.randrange(ni)])
        elif kind == "cprov":
            xs = _ifs(rng, ni, 0)
            cops.append(["cprov", c, xs, rng.random() < 0.5] + _wrap(rng, xs))
        elif kind == "cap":
            xs = _ifs(rng, ni, 1)
            cops.append(["cap", c, xs, rng.random() < 0.5] + _wrap(rng, xs))
        else:
            xs = _ifs(rng, ni, 0 if kind == "only" else 1)
            # classImplementsOnly keeps a Declaration argument as one opaque base (it does not
            # normalise): outside the model, so only classImplements gets wrapped arguments
            cops.append([kind, c, xs, rng.random() < 0.5] + (_wrap(rng, xs) if kind == "impl" else []))
    if force == "only":
        c = nc - 1
        cops.insert(rng.randint(0, len(cops)), ["only", c, _ifs(rng, ni, 0), rng.random() < 0.5])
    # interfaces a class (or an ancestor) is declared to implement, with their bases: naming one of
    # them in an instance declaration is redundant at declaration time (stripped from the bases,
    # kept in the constructor arguments)
    def implied_by(c, seen=()):
        out = set()
        for o in cops:
            if o[0] in ("impl", "only") and o[1] == c:
                out.update(o[2])
            elif o[0] == "first" and o[1] == c:
                out.add(o[2])
        for b in classes[c]:
            out |= implied_by(b)
        for i in list(out):
            out.update(ifaces[i])
        return out
    iops = []
    if insts:
        for _ in range(rng.randint(0, 6)):
            kind = rng.choice(["dp", "dp", "ap", "ap", "nl", "gc"])
            if kind == "gc":
                iops.append(["gc"])
            elif kind == "nl":
                iops.append(["nl", rng.randrange(len(insts)), rng.randrange(ni)])
            else:
                o = rng.randrange(len(insts))
                xs = _ifs(rng, ni, 0 if kind == "dp" else 1)
                red = sorted(implied_by(insts[o][0]))
                if red and rng.random() < 0.4:
                    xs.insert(rng.randint(0, len(xs)), rng.choice(red))
                if kind == "dp" and rng.random() < 0.15:
                    xs = []
                iops.append([kind, o, xs, rng.random() < 0.3] + _wrap(rng, xs))
    r = rng.random()
    if r < 0.5:
        ops = cops + iops
    elif r < 0.75 and cops and iops:
        # classes are re-declared AFTER the instances were declared and before the round trip
        k = rng.randint(0, len(cops) - 1)
        late = cops[k:]
        for _ in range(rng.randint(1, 2)):
            c = rng.choice(plain) if plain else rng.randrange(nc)
            late.append(["only", c, _ifs(rng, ni, 0), rng.random() < 0.5])
        ops = cops[:k] + iops + late
    else:
        ops = cops + iops
        rng.shuffle(ops)
    ops += [["iby", c] for c in range(nc)]
    case = {"ifaces": ifaces, "classes": classes, "insts": insts, "ops": ops, "builtin": builtin}
    # declarations that name Interface itself (any operation) and another class's specification
    # (implementedBy(D) as an argument of directlyProvides / alsoProvides on instances and classes)
    if rng.random() < 0.3:
        case["root"] = True
    n_args = ni + (1 if case.get("root") else 0)
    for op in ops:
        wrapped = any(isinstance(e, list) for e in op[3:])
        if case.get("root") and op[0] in ("impl", "only", "cprov", "cap", "dp", "ap") and rng.random() < 0.3:
            op[2].insert(rng.randint(0, len(op[2])), ni) if not wrapped else op[2].append(ni)
        elif case.get("root") and op[0] == "first" and rng.random() < 0.15:
            op[2] = ni
        if op[0] in ("cprov", "cap", "dp", "ap") and rng.random() < 0.25:
            op[2].append(n_args + rng.randrange(nc))    # appended: never inside a Declaration(...) group
    # class objects that are falsy (metaclass __len__ -> 0 / __bool__ -> False), inherited by subclasses
    if plain and rng.random() < 0.3:
        case["falsy"] = rng.choice(["len", "bool"])
        case["meta"] = sorted(rng.sample(plain, rng.randint(1, min(2, len(plain)))))
    # old-style `__implemented__ = I` / `= (I, J)` in a class body
    if plain and rng.random() < 0.25:
        k = rng.randint(1, min(2, ni))
        case["oldstyle"] = {str(rng.choice(plain)): rng.sample(range(ni), k)}
    # class statements that run inside a function / inside another class body, published at module level
    idef = {str(i): rng.choice(["func", "func", "nested"]) for i in range(ni) if rng.random() < 0.2}
    cdef = {str(c): "nested" for c in plain if rng.random() < 0.15}
    if idef:
        case["idef"] = idef
    if cdef:
        case["cdef"] = cdef
    return case


def generate(run, tier):
    rng = run.rng("gen")
    n = 260 if tier == "quick" else 1500
    cases = []
    # fixed shapes: every declaration shape on a three-class chain / diamond, with declared instances
    base = {"ifaces": [[], [0], [], [1, 2]], "classes": [[], [0], [1], [1, 0]],
            "insts": [[2, [7]], [3, []], [0, [1, 2]]]}
    for shape in (
        [["impl", 0, [1], True]],
        [["impl", 0, [1], True], ["only", 1, [2], True]],
        [["impl", 0, [1], False], ["only", 1, [], False]],
        [["impl", 0, [1], True], ["first", 2, 3]],
        [["only", 0, [0], True], ["impl", 0, [3], False], ["first", 1, 2], ["only", 2, [1], False], ["impl", 2, [2], True]],
        [["cprov", 1, [0, 2], True], ["cprov", 3, [3], False], ["impl", 1, [2], False]],
        [["impl", 0, [2], False], ["only", 3, [1], True], ["cprov", 3, [], True]],
    ):
        ops = [list(o) for o in shape] + [["dp", 0, [0, 2]], ["ap", 0, [1]], ["dp", 1, [3]], ["gc"], ["dp", 2, []],
                                          ["ap", 1, [0]]]
        ops += [["iby", c] for c in range(4)]
        cases.append(dict(base, ops=ops))
    # built-in types as classes (every shape), class-provides built with alsoProvides / noLongerProvides /
    # the directlyProvides(cls, directlyProvidedBy(cls), ..) idiom, Declaration(...) arguments
    bbase = {"ifaces": [[], [0], [], [1, 2]], "classes": [[], [0], [], []], "insts": [[1, [3]]],
             "builtin": {"2": "complex", "3": "frozenset"}}
    for shape in (
        [["only", 2, [1], False], ["impl", 3, [2], False]],
        [["only", 2, [], True], ["only", 3, [3, 0], True], ["first", 2, 2]],
        [["impl", 2, [0, 2], False, [0, 2]], ["first", 3, 1], ["only", 3, [2], False]],
        [["cprov", 0, [0], True], ["cap", 0, [2], False], ["cprov", 1, [1, 2], False], ["cnl", 1, 2]],
        [["cap", 1, [3], True], ["cap", 1, [0, 2], False, [0, 2]], ["cnl", 1, 1], ["cprov", 0, [1, 2], False, [0, 2]]],
    ):
        ops = [list(o) for o in shape] + [["dp", 0, [0, 2], False, [0, 2]], ["ap", 0, [1], True], ["nl", 0, 2],
                                          ["ap", 0, [3], False, [0, 1]]]
        ops += [["iby", c] for c in range(4)]
        cases.append(dict(bbase, ops=ops))
    # instance declarations naming interfaces the class already implies; empty instance declarations
    # (directlyProvides(ob), and alsoProvides followed by noLongerProvides of everything)
    rbase = {"ifaces": [[], [0], [], [1]], "classes": [[], [0]], "insts": [[1, [5]], [0, []], [1, []]], "builtin": {}}
    for shape in (
        [["impl", 0, [3], True], ["dp", 0, [0, 2]], ["dp", 1, [1]], ["dp", 2, [3, 0]]],
        [["impl", 1, [1], False], ["dp", 0, []], ["dp", 1, []], ["ap", 2, [2]], ["nl", 2, 2]],
        [["only", 1, [2], True], ["ap", 0, [1, 2]], ["nl", 0, 0], ["gc"], ["dp", 2, [2]], ["nl", 2, 2], ["dp", 1, [], True]],
        [["impl", 0, [1], False], ["dp", 0, [0]], ["ap", 0, [1]], ["ap", 2, [0, 2], True], ["nl", 2, 2], ["nl", 2, 0]],
    ):
        ops = [list(o) for o in shape] + [["iby", 0], ["iby", 1]]
        cases.append(dict(rbase, ops=ops))
    # falsy class objects under every declaration shape (inherited, additive, only, first, old-style),
    # interfaces and classes whose class statement ran in a function / another class body
    fbase = {"ifaces": [[], [0], [], [1, 2]], "classes": [[], [0], [0], [2, 1], []], "insts": [[1, [1]], [3, []], [4, [2]]],
             "builtin": {}}
    for falsy, shape, extra in (
        ("len", [["impl", 0, [1], True], ["only", 1, [2], True], ["first", 2, 3], ["only", 4, [0], False]],
         {"meta": [0, 4]}),
        ("bool", [["only", 0, [], False], ["only", 3, [3], True], ["impl", 4, [2], False], ["cprov", 1, [0], True]],
         {"meta": [0, 4], "oldstyle": {"4": [1]}}),
        ("len", [["impl", 2, [0], False], ["cap", 4, [2], False], ["first", 4, 0]],
         {"meta": [4, 1], "oldstyle": {"4": [2, 0]}, "cdef": {"4": "nested", "1": "nested"}}),
        ("bool", [["impl", 1, [3], True], ["only", 2, [1], False]],
         {"meta": [2], "oldstyle": {"0": [2]}, "idef": {"0": "func", "3": "func", "2": "nested"}, "cdef": {"3": "nested"}}),
        (None, [["impl", 0, [1], True], ["cprov", 2, [3, 0], False], ["only", 1, [2], True]],
         {"idef": {"1": "func", "2": "func", "3": "nested"}, "cdef": {"0": "nested", "2": "nested"}}),
    ):
        ops = [list(o) for o in shape] + [["dp", 0, [0, 2]], ["ap", 1, [1]], ["dp", 2, [3]], ["gc"], ["ap", 2, [0]]]
        ops += [["iby", c] for c in range(5)]
        case = dict(fbase, ops=ops, **extra)
        if falsy:
            case["falsy"] = falsy
        cases.append(case)
    # the class (or the base it inherits from) is narrowed with an *only* form / extended AFTER its
    # instances received declarations (directlyProvides, then alsoProvides again), then everything is
    # round-tripped
    lbase = {"ifaces": [[], [0], [], []], "classes": [[], [0], [1]], "insts": [[0, []], [1, [4]], [2, []]], "builtin": {}}
    for early, late in (
        ([["impl", 0, [1], True]], [["only", 0, [3], True]]),
        ([["impl", 0, [1], False], ["impl", 1, [2], True]], [["only", 0, [], False]]),
        ([["impl", 0, [0], True], ["first", 2, 2]], [["only", 1, [3], True], ["impl", 0, [2], False]]),
        ([["only", 0, [1, 2], False]], [["only", 0, [2], True], ["only", 2, [], False]]),
    ):
        ops = [list(o) for o in early] + [["dp", 0, [2]], ["ap", 0, [3]], ["dp", 1, [3]], ["ap", 1, [2]], ["ap", 2, [3]],
                                          ["ap", 2, [2]]] + [list(o) for o in late]
        ops += [["iby", c] for c in range(3)]
        cases.append(dict(lbase, ops=ops))
    # Interface itself (argument 4) and class specifications (5 + class) as declaration arguments
    sbase = {"ifaces": [[], [0], [], [1]], "classes": [[], [0], []], "insts": [[1, [1]], [2, []], [0, []]], "builtin": {},
             "root": True}
    for shape in (
        [["impl", 0, [1], True], ["impl", 2, [4], False], ["dp", 0, [7, 4, 2]], ["dp", 1, [5]], ["cprov", 2, [5, 4]],
         ["ap", 1, [3]], ["dp", 2, [6, 5]]],
        [["only", 1, [4, 2], True], ["first", 2, 4], ["cprov", 0, [6]], ["cap", 0, [4, 7]], ["dp", 0, [4]], ["ap", 0, [0]],
         ["dp", 1, [7, 3]], ["ap", 1, [5]], ["nl", 1, 3]],
        [["impl", 0, [3], False], ["dp", 2, [5, 2]], ["dp", 0, [7, 6]], ["only", 0, [2], True], ["gc"], ["ap", 0, [1]]],
    ):
        ops = [list(o) for o in shape] + [["iby", c] for c in range(3)]
        cases.append(dict(sbase, ops=ops))
    for k in range(n):
        cases.append(_gen_case(rng, force="only" if k % 4 == 0 else None))
    return cases


# --------------------------------------------------------------------------- Coq terms

def _plain(s):
    return all(32 <= ord(ch) < 127 and ch != '"' for ch in s)


def _gname(pair):
    if _plain(pair[0]) and _plain(pair[1]):
        return '(gn "%s"%%string "%s"%%string)' % (pair[0], pair[1])
    return "(%s, %s)" % (C.cstr_codes(pair[0]), C.cstr_codes(pair[1]))


def _lnat(xs):
    return C.clist([C.cnat(x) for x in xs])


FN = {"implementedBy": "FImplementedBy", "Provides": "FProvides", "ClassProvides": "FClassProvides",
      "newobj": "FNewObj"}


def _reduced(r):
    tag = r[0]
    if tag in ("name", "g"):
        return "(ByName %s)" % _gname((r[1], r[2]))
    if tag == "none":
        return "RNone"
    if tag == "int":
        return "(RInt %s)" % C.cZ(r[1])
    if tag == "call":
        return "(Call %s %s)" % (FN[r[1]], C.clist([_reduced(a) for a in r[2]]))
    return "(ByName %s)" % _gname(("?other", str(r[1:])))


def _op(op):
    k = op[0]
    if k == "impl":
        return "(OpClassImplements %d %s)" % (op[1], _lnat(op[2]))
    if k == "only":
        return "(OpClassImplementsOnly %d %s)" % (op[1], _lnat(op[2]))
    if k == "first":
        return "(OpClassImplementsFirst %d %d)" % (op[1], op[2])
    if k == "cprov":
        return "(OpClassProvides %d %s)" % (op[1], _lnat(op[2]))
    if k == "iby":
        return "(OpImplementedBy %d)" % op[1]
    if k == "cap":
        return "(OpClassAlsoProvides %d %s)" % (op[1], _lnat(op[2]))
    if k == "cnl":
        return "(OpClassNoLongerProvides %d %d)" % (op[1], op[2])
    if k == "nl":
        return "(OpNoLongerProvides %d %d)" % (op[1], op[2])
    if k == "dp":
        return "(OpDirectlyProvides %d %s)" % (op[1], _lnat(op[2]))
    if k == "ap":
        return "(OpAlsoProvides %d %s)" % (op[1], _lnat(op[2]))
    if k == "gc":
        return "OpGc"
    raise ValueError(k)


ITEM = {"iface": "ItIface", "class": "ItClass", "impl": "ItImpl", "cprov": "ItCProv", "prov": "ItProv",
        "inst": "ItInst"}


def _obs_groups(obs_list):
    """Group identical per-protocol observations (the Coq side checks that 0..5 are all covered)."""
    groups = []
    for ob in obs_list:
        key = (ob["ok"], ob["same"], ob["eq"], ob["hash"], tuple(ob["after"]), tuple(ob["fafter"]), ob["struct"],
               ob["badops"])
        for g in groups:
            if g[0] == key:
                g[1].append(ob["proto"])
                break
        else:
            groups.append((key, [ob["proto"]]))
    out = []
    for key, protos in groups:
        out.append("(mkObs %s %s %s %s %s %s %s %s %d)" % (
            _lnat(protos), C.cbool(key[0]), C.cbool(key[1]), C.cbool(key[2]), C.cbool(key[3]), _lnat(key[4]),
            _lnat(key[5]), C.cbool(key[6]), key[7]))
    return C.clist(out)


def coq_case(case, obs, mode):
    if "items" not in obs:
        # the case could not be built at all: an empty observation list fails both checks
        world = "(mkWorld [] [] [] [] [] [] None)"
        return "(%s, [], [mkItem (ItIface 0) RNone [] [] [] []])" % world
    names = obs["names"]
    n_if = len(case["ifaces"])
    root = bool(case.get("root"))
    # with "root", Interface itself is interface number n_if and the base of every interface without others
    ibases = [(bs if (bs or not root) else [n_if]) for bs in case["ifaces"]] + ([[]] if root else [])
    world = "(mkWorld %s %s %s)" % (
        C.clist(["(%s, %s)" % (_gname(nm), _lnat(bs)) for nm, bs in zip(names["inames"], ibases)]),
        C.clist(["(%s, %s)" % (_gname(nm), _lnat(bs)) for nm, bs in zip(names["cnames"], case["classes"])]),
        C.clist(["(%d, %s)" % (cl, C.clist([C.cZ(v) for v in attrs])) for cl, attrs in case["insts"]])
        + " " + _lnat(sorted(int(c) for c in case.get("builtin", {})))
        + " " + C.clist(["(%d, %s)" % (c, _gname(nm)) for c, nm in sorted(
            (int(c), nm) for c, nm in names.get("metas", {}).items())])
        + " " + C.clist(["(%d, %s)" % (int(c), _lnat(xs)) for c, xs in sorted(
            case.get("oldstyle", {}).items(), key=lambda kv: int(kv[0]))])
        + (" (Some %d)" % n_if if root else " None"))
    ops = C.clist([_op(o) for o in case["ops"]])
    items = []
    for rec in obs["items"]:
        items.append("(mkItem (%s %d) %s %s %s %s %s)" % (
            ITEM[rec["kind"]], rec["ref"], _reduced(rec["reduce"]), _lnat(rec["before"]), _lnat(rec["fbefore"]),
            _obs_groups(rec["live"]), _obs_groups(rec.get("xproc", []))))
    return "(%s, %s, %s)" % (world, ops, C.clist(items))


# --------------------------------------------------------------------------- reporting

def _tags(case, obs):
    tags = set()
    if "items" not in obs:
        return tags
    has_bases = {c for c, bs in enumerate(case["classes"]) if bs}
    for op in case["ops"]:
        if op[0] == "only":
            tags.add("only-sub" if op[1] in has_bases else "only-root")
        elif op[0] in ("first", "impl", "cprov", "cap", "cnl", "nl", "dp", "ap", "gc"):
            tags.add(op[0])
        if op[0] in ("impl", "only", "first") and str(op[1]) in case.get("builtin", {}):
            tags.add("builtin-" + op[0])
        if any(isinstance(e, list) for e in op[3:]):
            tags.add("declaration-arg")
    for rec in obs["items"]:
        if rec["kind"] in ("impl", "cprov", "prov") and rec["before"]:
            tags.add(rec["kind"] + "+")
        if rec["kind"] == "impl" and rec["before"] and not any(
                o[0] in ("impl", "only", "first") and o[1] == rec["ref"] for o in case["ops"]):
            tags.add("inherited+")
    seen_inst = False
    for op in case["ops"]:
        if op[0] in ("dp", "ap", "nl"):
            seen_inst = True
        elif op[0] in ("impl", "only", "first") and seen_inst:
            tags.add("interleaved")
    if any(len(bs) > 1 for bs in case["classes"]):
        tags.add("multi-inherit")
    if case.get("falsy"):
        tags.add("falsy-" + case["falsy"])
    if case.get("oldstyle"):
        tags.add("oldstyle")
    if case.get("idef") or case.get("cdef"):
        tags.add("local-def")
    return tags


def classify(case, obs):
    tags = _tags(case, obs)
    if not any(t.endswith("+") for t in tags):
        return None
    return tuple(sorted(tags))


def kind(case, obs):
    tags = _tags(case, obs)
    return "only" if any(t.startswith("only") for t in tags) else ("declared" if tags else "plain")


def _first_bad(obs):
    return _first_bad_(obs, False) or _first_bad_(obs, True) or _first_set_change(obs)


def _first_set_change(obs):
    """an instance declaration / instance whose unpickled form provides a different SET of interfaces"""
    for rec in obs.get("items", []):
        if rec["kind"] in ("prov", "inst"):
            for variant in ("live", "xproc"):
                for ob in rec.get(variant, []):
                    if ob["ok"] and set(ob["fafter"]) != set(rec["fbefore"]):
                        return rec, variant, ob
    return None


def _first_bad_(obs, identity_of_instance_declarations):
    for rec in obs.get("items", []):
        for variant in ("live", "xproc"):
            for ob in rec.get(variant, []):
                named = rec["kind"] in ("iface", "class", "impl")
                lists_bad = rec["kind"] != "class" and (ob["after"] != rec["before"] or ob["fafter"] != rec["fbefore"])
                if (not ob["ok"]) or (named and not ob["same"]) or ob["badops"] or not ob["struct"] or \
                        (lists_bad and rec["kind"] in ("impl", "cprov")) or \
                        (lists_bad and variant == "live") or \
                        (identity_of_instance_declarations and variant == "live" and rec["kind"] in ("prov", "inst")
                         and not ob["same"] and not lists_bad):   # a shared declaration came back as a new object
                    return rec, variant, ob
    return None


def finding_key(case, obs, mode):
    fb = _first_bad(obs)
    if fb is None:
        return "c13-other"
    rec, variant, ob = fb
    shape = "plain"
    if rec["kind"] == "impl":
        last = [o[0] for o in case["ops"] if o[0] in ("impl", "only", "first") and o[1] == rec["ref"]]
        shape = "only" if "only" in last else (last[-1] if last else "inherited")
    return "c13-%s-%s-%s" % (rec["kind"], shape, "exc" if not ob["ok"] else ("notsame" if not ob["same"] else "diff"))


def _driver_ns():
    # the very functions of harness/drivers/c13_driver.py (that file cannot be imported here: it
    # boots the scratch build on import)
    import os
    path = os.path.join(C.DRIVERS, "c13_driver.py")
    src = open(path).read()
    start = src.index("def parse_op(op):")
    end = src.index("class Numbering")
    ns = {}
    exec(src[start:end], ns)
    return ns


def _module_source(case):
    return _driver_ns()["module_source"](case)


def replay_text(case, obs, mode):
    fb = _first_bad(obs)
    lines = ["# PURE_PYTHON=%s ; save the module text as zi_c13_case.py next to this script, then run it"
             % ("1" if mode == "py" else "0"),
             "MODULE = r'''", _module_source(case), "'''",
             "import pickle, gc, zi_c13_case as m",
             "from zope.interface import implementedBy, providedBy, directlyProvides, alsoProvides",
             "from zope.interface import noLongerProvides, directlyProvidedBy, Interface",
             "from zope.interface.declarations import Declaration",
             "for f in m._CLASS_OPS: f()   # (the driver interleaves these with the instance operations below)",
             "insts = [%s]" % ", ".join("m.C%d()" % cl for cl, _ in case["insts"])]
    ns = _driver_ns()
    nm = ns["arg_namer"](case, "m.")
    for op in case["ops"]:
        kind, tgt, arg, alt, wrap = ns["parse_op"](op)
        if kind == "dp":
            lines.append("directlyProvides(insts[%d], %s)" % (tgt, ns["ifs_expr"](arg, wrap, nm)))
        elif kind == "ap" and alt:
            lines.append("directlyProvides(insts[%d], directlyProvidedBy(insts[%d]), %s)"
                         % (tgt, tgt, ns["ifs_expr"](arg, wrap, nm)))
        elif kind == "ap":
            lines.append("alsoProvides(insts[%d], %s)" % (tgt, ns["ifs_expr"](arg, wrap, nm)))
        elif kind == "nl":
            lines.append("try: noLongerProvides(insts[%d], %s)\nexcept ValueError: pass" % (tgt, nm(arg)))
        elif kind == "gc":
            lines.append("gc.collect()")
    if fb is not None:
        rec, variant, ob = fb
        expr = {"iface": "m.I%d", "class": "m.C%d", "impl": "implementedBy(m.C%d)",
                "cprov": "m.C%d.__dict__['__provides__']", "prov": "insts[%d].__provides__",
                "inst": "insts[%d]"}[rec["kind"]] % rec["ref"]
        lines += ["x = %s" % expr,
                  "y = pickle.loads(pickle.dumps(x, %d))   # %s" % (ob["proto"], "same process" if variant == "live"
                                                                   else "observed when loaded in a fresh process"),
                  "print(x.__reduce__() if not isinstance(x, type) else x, y is x, list(x) if hasattr(x, 'flattened') else None, "
                  "list(y) if hasattr(y, 'flattened') else None)",
                  "# observed: ok=%r identical=%r eq=%r hash_equal=%r interfaces before=%r after=%r flattened before=%r "
                  "after=%r exception=%r non-name payload entries=%r"
                  % (ob["ok"], ob["same"], ob["eq"], ob["hash"], rec["before"], ob["after"], rec["fbefore"],
                     ob["fafter"], ob["exc"], ob["bad"])]
    return "\n".join(lines)


TECHNIQUE = ("Coq proof over a Gallina model (its pickling kernel regenerated from the source by a fail-closed translator) of the __reduce__ methods, implementedBy, the class declaration "
             "operations and the Provides factory with its weak cache; vm_compute correspondence with real "
             "pickle.dumps/loads in both implementations, same process and fresh process, protocols 0..5, plus a "
             "pickletools scan of every payload")
LEVEL_TEXT = ("Machine-checked theorems (Properties/C13.v, 25 theorems, closed under the global context) state, for every "
              "world of importable interfaces and classes and every history of declaration operations with no bound: "
              "interfaces, classes and class specifications (inherited, only, first; the reduction always names the "
              "spec's own class) unpickle to the identical object; every provides-declaration still in the shared "
              "cache is current (in every reachable state) and unpickles to the identical object in its own process "
              "and to one with the same arguments, bases and interfaces in any process whose classes are declared "
              "alike; after module-ordered histories every instance's declaration is such; ClassProvides and declared "
              "instances keep their interfaces; results are equal and hash-equal.  The model's reduce values, "
              "identities and interface lists are compared with both implementations (same process and fresh "
              "process, protocols 0..5) on every run and the raw observations are judged by the statement itself.")
LEVEL_NOTE = ("Trusted: Coq kernel/vm_compute; the pickle module (GLOBAL/REDUCE/NEWOBJ) is not modelled, only its "
              "arguments, and its payloads are scanned with pickletools; the translator's abstraction table "
              "(harness/translate/reduce.py); the resolution order (flattened) is compared before/after and bounded "
              "but not modelled here.  ClassProvides objects are rebuilt, not shared: `==`/hash of a directly pickled "
              "class.__provides__ are identity based and therefore False; per the task statement they are judged by "
              "their interfaces.  Metaclasses are names only; specification arguments of the classImplements family "
              "and super() specifications are not generated (see assumptions).")
