"""C15 — attribute / tagged value / invariant resolution follows __iro__ (DESIGN.md section 5, C15)."""
import os
import sys
from .. import common as C

sys.path.insert(0, C.DRIVERS)
import c15_build as B  # noqa: E402  (pure source generator shared with the driver)
sys.path.remove(C.DRIVERS)

ID = "C15"
COQ_TARGETS = ["Tie/C15.vo", "Properties/C15.vo"]
PROPERTY_FILE = "Properties/C15.v"
TIE = "Tie.C15"
DRIVER = "c15_driver.py"
SHARD = 60
THEOREMS = [
    "C15_get_first_in_iro", "C15_accessors_agree", "C15_contains_iter_names_agree", "C15_nad_all_eq_get",
    "C15_tagged_first_in_iro", "C15_tags_union", "C15_set_tag_seen", "C15_invariants_all_run",
    "C15_errors_all_collected", "C15_iro_follows_bases", "C15_memo_transparent", "C15_iro_members",
    "C15_generated_get_eq_model", "C15_generated_accessors_eq_model", "C15_generated_names_eq_model",
    "C15_generated_nad_all_eq_model", "C15_generated_tagged_eq_model", "C15_generated_tags_eq_model",
    "C15_generated_validate_eq_model", "C15_generated_changed_eq_model",
]
SOURCE = os.path.join(C.REPO, "src", "zope", "interface", "interface.py")
GEN_FILE = os.path.join(C.COQ, "Gen", "AttrsKernel.v")


def regenerate(run):
    """Re-derive Gen/AttrsKernel.v from the current interface.py (fail closed).  On abort a stub
    without a kernel is written: Proofs/AttrsKernel.v and Properties/C15.v then cannot be checked,
    and the abort is returned as the broken obligation.  The Tie (model + Spec oracle) does not
    depend on the kernel and is built here so that the correspondence runs in every case."""
    from ..translate import attrs as T
    errs = []
    try:
        text = T.translate(SOURCE)
    except T.TranslationError as e:
        text = T.stub(str(e))
        errs.append("harness/translate/attrs.py refused %s: %s (Gen/AttrsKernel.v has no kernel; the theorems of "
                    "Properties/C15.v are NOT re-proved about the current source)" % (SOURCE, e))
    with C.CoqLock():
        C.write_if_changed(GEN_FILE, text)
    run.coverage["translated_kernel"] = {"source": SOURCE, "generated": "coq/Gen/AttrsKernel.v", "ok": not errs}
    ok, out = C.coq_make(["Tie/C15.vo"])
    if not ok:
        errs.append("Tie/C15.vo does not build:\n" + out[-2000:])
    return errs

RULE = ("interface DAGs of 2..7 interfaces (plus Interface) with direct attributes (Attribute or method), tagged values "
        "(class-body taggedValue or setTaggedValue; ints or None, None being a defined value) and invariants; 20% of the "
        "cases ('twin-' kinds) rebase an interface with warm dependents from a base O onto a different interface object "
        "with O's __name__ and __module__ but other direct attributes/tags; a case is non-trivial when in the final graph some "
        "name or tag is defined by at least two interfaces of one interface's resolution order; distinct = distinct "
        "(final bases, definers per name, definers per tag, number of rebasings, get-before-rebase) signature; "
        "kind 'diamond1' = the final graph has a diamond whose common ancestor defines a name or tag that exactly one "
        "branch overrides")
TRUSTED_BASE = ["harness/translate/attrs.py: the statement templates it accepts and the Gallina it emits for them (fail-closed: "
                "any other shape aborts); the model's vocabulary for dicts / sets / the memo (Model/Attrs.v dget, dset, "
                "dupdate, kupdate, set_memo), validated by the correspondence",
                "Model/Ro.v fresh_sro as the reference resolution order of a graph (its agreement with __iro__ is also "
                "compared here on every snapshot; its theory is property C03)",
                "propagation of changed() to the dependents yields the fresh order at each visited node (property C02); "
                "WHICH nodes are visited (memo clearing) is modelled and compared"]
ASSUMPTIONS = ["base graphs stay acyclic (the generator only rebases onto non-descendants)",
               "direct attribute tables are immutable after creation (name-mangled __attrs, no public mutator)",
               "invariants are pure: whether one raises Invalid does not depend on call order"]

K_NAMES = 3
K_TAGS = 2


def _reaches(bases, y, x):
    """x reachable from y along bases (bases: dict node -> list)"""
    seen, todo = set(), [y]
    while todo:
        z = todo.pop()
        if z == x:
            return True
        if z in seen:
            continue
        seen.add(z)
        todo.extend(bases.get(z, []))
    return False


def _akind(rng):
    """kind of a description; ~20 % are falsy Attribute / Method subclasses"""
    return rng.choice(["attr", "attr", "attr", "attr", "meth", "meth", "meth", "meth", "fattr", "fmeth"])


def _invkinds(rng, invs, n):
    """invariants are functions, unhashable callable objects, or hashable callable objects that are all
    equal to each other; sometimes every interface gets one of the latter (several per __iro__)"""
    kinds = {}
    if rng.random() < 0.3:
        for i in range(1, n + 1):
            k = 100 * i + 50
            invs[i].append(k)
            kinds[str(k)] = "eqhash"
    for i in invs:
        for k in invs[i]:
            kinds.setdefault(str(k), rng.choice(["func", "func", "func", "unhash", "eqhash"]))
    return kinds


def _tagval(rng, v, p_none=0.25):
    """a tagged value: an int, or None (a defined value that must shadow inherited ones)"""
    r = rng.random()
    return None if r < p_none else (0 if r < p_none + 0.08 else v)     # 0: a falsy but defined value


def _gen_twin_case(rng):
    """O = 1 is the base of M only; descendants D of M have a warm memo; then M.__bases__ replaces O by
    T, a DIFFERENT interface object with O's __name__ and __module__ (so O == T) and other direct
    attributes / tags.  In the model T is just another node.  O and T are never rebased and no
    interface ever has both among its ancestors (equal-key interfaces under one base: finding F10)."""
    side = rng.random() < 0.5
    O = 1
    S = 2 if side else None
    M = 3 if side else 2
    nd = rng.randint(1, 3)
    n0 = M + nd
    T = n0 + 1
    n = T
    bases = {O: rng.choice([[0], [0], []])}
    if side:
        bases[S] = [0]
    bases[M] = rng.choice([[O, S], [S, O], [O]]) if side else [O]
    for i in range(M + 1, n0 + 1):
        pool = list(range(M, i))
        b = rng.sample(pool, min(len(pool), rng.choice([1, 1, 2])))
        if i == M + 1 and M not in b:
            b[0] = M
        if side and rng.random() < 0.25:
            b.append(S)
        bases[i] = b
    r = rng.random()
    if r < 0.65:
        bases[T] = list(bases[O])           # the new order is element-wise == the old one
    elif r < 0.8:
        bases[T] = [] if bases[O] else [0]
    elif side:
        bases[T] = [S]
    else:
        bases[T] = [0]
    attrs, tags = {}, {}
    for i in range(1, n + 1):
        pa = 0.65 if i in (O, T) else 0.2
        attrs[i] = [[nm, _akind(rng)] for nm in range(K_NAMES) if rng.random() < pa]
        tags[i] = [[t, _tagval(rng, 10 * i + t)] for t in range(1, K_TAGS + 1) if rng.random() < (0.5 if i in (O, T) else 0.2)]
    invs, failing = {}, []
    for i in range(1, n + 1):
        invs[i] = [100 * i + j for j in range(rng.choice([0, 0, 1]))]
    invkind = _invkinds(rng, invs, n)
    failing = [v for i in invs for v in invs[i] if rng.random() < 0.3]
    style = [rng.choice(["body", "call"]) for _ in range(n)]
    ops = []
    if rng.random() < 0.85:
        for x in range(1, n + 1):
            for nm in range(K_NAMES):
                ops.append(["get", x, nm, rng.choice([0, 1, 2, 3])])
    else:
        for _ in range(rng.randint(1, 5)):
            ops.append(["get", rng.randint(M, n0), rng.randrange(K_NAMES), rng.choice([0, 1, 2, 3])])
    if rng.random() < 0.2:
        ops.append(["settag", rng.choice([O, T, M]), rng.randint(1, K_TAGS), _tagval(rng, 1500)])
    cur = {i: list(b) for i, b in bases.items()}
    cur[M] = [T if b == O else b for b in cur[M]]
    ops.append(["setbases", M, list(cur[M])])
    for _ in range(rng.randint(0, 3)):
        ops.append(["get", rng.randint(M, n0), rng.randrange(K_NAMES), rng.choice([0, 1, 2, 3])])
    if nd >= 2 and rng.random() < 0.3:
        x = rng.randint(M + 1, n0)          # a strict descendant of M goes elsewhere (never onto O / T)
        ok = [y for y in range(1, n0 + 1) if y not in (x, O) and not _reaches(cur, y, x)]
        if ok:
            cur[x] = rng.sample(ok, min(len(ok), rng.choice([1, 2])))
            ops.append(["setbases", x, list(cur[x])])
    pyname = list(range(1, n + 1))
    pyname[T - 1] = O
    return {
        "n": n, "bases": [bases[i] for i in range(1, n + 1)], "attrs": [attrs[i] for i in range(1, n + 1)],
        "tags": [tags[i] for i in range(1, n + 1)], "style": style, "invs": [invs[i] for i in range(1, n + 1)],
        "failing": failing, "ops": ops, "names": list(range(K_NAMES)), "tagsU": list(range(0, K_TAGS + 1)),
        "nodes": list(range(1, n + 1)) + [0], "pyname": pyname, "invkind": invkind,
    }


def _callish(case, i):
    """interface i is created by InterfaceClass(name, bases, D<i>): the caller keeps the dict"""
    pyname = case.get("pyname")
    return case["style"][i - 1] == "call" or not case["bases"][i - 1] or bool(pyname and pyname[i - 1] != i)


def _add_snaps(rng, case):
    """warm-then-rebase-an-ancestor-then-ask for EVERY accessor: before a rebasing of x, observe all
    accessors on some strict descendants of x (and sometimes x); sometimes again right afterwards
    (the final snapshot asks everybody once more anyway)"""
    n = case["n"]
    cur = {i + 1: list(b) for i, b in enumerate(case["bases"])}
    out = []
    for op in case["ops"]:
        if op[0] != "setbases":
            out.append(op)
            continue
        x = op[1]
        desc = [y for y in range(1, n + 1) if y != x and _reaches(cur, y, x)]
        picked = []
        if desc and rng.random() < 0.75:
            picked = rng.sample(desc, min(len(desc), rng.choice([1, 1, 2])))
        if rng.random() < 0.2:
            picked.append(x)
        out += [["snap", y] for y in picked]
        out.append(op)
        cur[x] = list(op[2])
        if picked and rng.random() < 0.4:
            out.append(["snap", rng.choice(picked)])
    case["ops"] = out


def _add_dict_ops(rng, case):
    """the caller mutates / reuses the dict it passed to InterfaceClass(name, bases, d): no effect allowed"""
    n = case["n"]
    callish = [i for i in range(1, n + 1) if _callish(case, i)]
    if not callish:
        return
    reuse = {}
    for k, i in enumerate(callish):
        if k and rng.random() < 0.3:
            reuse[str(i)] = rng.choice(callish[:k])
    if reuse:
        case["dictreuse"] = reuse
    ops = case["ops"]
    for _ in range(rng.choice([0, 1, 1, 2, 3])):
        op = ["dictmut", rng.choice(callish), rng.choice(["add", "add", "del", "del", "clear"]), rng.randrange(K_NAMES)]
        ops.insert(rng.randint(0, len(ops)), op)


def _add_faults(rng, case):
    """a quarter of the rebasings happen while a listener, registered last on the rebased interface with the
    public subscribe(), raises from changed(); the caller swallows the error (on HEAD the interface and all its
    real dependents have been updated by then: same state as an ordinary rebasing)"""
    for op in case["ops"]:
        if op[0] == "setbases" and len(op) == 3 and rng.random() < 0.25:
            op.append("fault")


def _add_root_tags(rng, case):
    """tagged values on Interface itself (the last element of every __iro__); sometimes set late"""
    if rng.random() >= 0.15:
        return
    case["roottags"] = [[t, _tagval(rng, 900 + t)] for t in range(1, K_TAGS + 1) if rng.random() < 0.6]
    if rng.random() < 0.4:
        case["ops"].insert(rng.randint(0, len(case["ops"])), ["settag", 0, rng.randint(1, K_TAGS), _tagval(rng, 950)])


def _gen_case(rng):
    case = _gen_case0(rng)
    _add_faults(rng, case)
    _add_root_tags(rng, case)
    _add_snaps(rng, case)
    _add_dict_ops(rng, case)
    return case


def _gen_case0(rng):
    if rng.random() < 0.2:
        return _gen_twin_case(rng)
    diamond = rng.random() < 0.75
    n = rng.randint(4, 7) if diamond else rng.randint(2, 7)
    bases = {}
    for i in range(1, n + 1):
        if i == 1:
            bases[i] = [0] if rng.random() < 0.9 else []
        elif diamond and i in (2, 3):
            bases[i] = [1]
        elif diamond and i == 4:
            bases[i] = [2, 3]
        else:
            r = rng.random()
            if r < 0.10:
                bases[i] = [0]
            elif r < 0.18:
                bases[i] = []
            else:
                k = min(i - 1, rng.choice([1, 1, 2, 2, 3]))
                bases[i] = rng.sample(range(1, i), k)
    attrs = {i: [] for i in range(1, n + 1)}
    tags = {i: [] for i in range(1, n + 1)}
    for i in range(1, n + 1):
        for nm in range(K_NAMES):
            if rng.random() < 0.3:
                attrs[i].append([nm, _akind(rng)])
        for t in range(1, K_TAGS + 1):
            if rng.random() < 0.3:
                tags[i].append([t, _tagval(rng, 10 * i + t)])
    if diamond:
        # name 0 / tag 1: defined by the common ancestor, overridden on exactly one branch
        for table, key, mk in ((attrs, 0, lambda i: [0, _akind(rng)]),
                               (tags, 1, lambda i: [1, 10 * i + 1 if i == 1 else _tagval(rng, 10 * i + 1, 0.4)])):
            if table is tags and rng.random() < 0.4:
                continue
            over = rng.choice([2, 3, 3])
            for i in (1, 2, 3, 4):
                table[i] = [e for e in table[i] if e[0] != key]
            table[1].append(mk(1))
            table[over].append(mk(over))
    invs = {}
    failing = []
    pf = rng.choice([0.0, 0.25, 0.5])
    for i in range(1, n + 1):
        k = rng.choice([0, 0, 1, 1, 2])
        invs[i] = [100 * i + j for j in range(k)]
    invkind = _invkinds(rng, invs, n)
    failing = [v for i in invs for v in invs[i] if rng.random() < pf]
    style = [rng.choice(["body", "call"]) for _ in range(n)]

    # ---- history
    cur = {i: list(b) for i, b in bases.items()}
    ops = []

    def some_gets(k):
        for _ in range(k):
            ops.append(["get", rng.randint(1, n), rng.randrange(K_NAMES), rng.choice([0, 1, 2, 3])])

    def warm():
        for x in range(1, n + 1):
            for nm in range(K_NAMES):
                ops.append(["get", x, nm, rng.choice([0, 1, 2, 3])])

    nreb = rng.choice([0, 1, 1, 2, 3])
    keep_diamond = diamond and rng.random() < 0.65
    for _ in range(nreb):
        if rng.random() < 0.6:
            warm()
        else:
            some_gets(rng.randint(0, 4))
        if rng.random() < 0.3:
            x = rng.randint(1, n)
            t = rng.randint(1, K_TAGS)
            ops.append(["settag", x, t, _tagval(rng, 1000 + 10 * x + t)])
        cands = [x for x in range(1, n + 1) if not (keep_diamond and x in (2, 3, 4))]
        withdesc = [x for x in cands if any(y != x and _reaches(cur, y, x) for y in range(1, n + 1))]
        x = rng.choice(withdesc if withdesc and rng.random() < 0.6 else cands)
        ok = [y for y in range(1, n + 1) if y != x and not _reaches(cur, y, x)]
        r = rng.random()
        if not ok or r < 0.08:
            nb = [0]
        elif r < 0.16:
            nb = []
        else:
            nb = rng.sample(ok, min(len(ok), rng.choice([1, 1, 2, 2, 3])))
        cur[x] = nb
        ops.append(["setbases", x, nb])
    if rng.random() < 0.3:
        x = rng.randint(1, n)
        t = rng.randint(1, K_TAGS)
        ops.append(["settag", x, t, _tagval(rng, 2000 + 10 * x + t)])
    some_gets(rng.randint(0, 3))
    return {
        "n": n, "bases": [bases[i] for i in range(1, n + 1)], "attrs": [attrs[i] for i in range(1, n + 1)],
        "tags": [tags[i] for i in range(1, n + 1)], "style": style, "invs": [invs[i] for i in range(1, n + 1)],
        "failing": failing, "ops": ops, "names": list(range(K_NAMES)), "tagsU": list(range(0, K_TAGS + 1)),
        "nodes": list(range(1, n + 1)) + [0], "invkind": invkind,
    }


def readme_diamond(ops=()):
    """README: IBase.foo, IBase1(IBase), IBase2(IBase) overrides foo, ISub(IBase1, IBase2)"""
    return {"n": 4, "bases": [[0], [1], [1], [2, 3]], "attrs": [[[0, "meth"]], [], [[0, "meth"]], []],
            "tags": [[[1, 11], [2, 12]], [], [[1, None]], []], "style": ["body"] * 4, "invs": [[100], [], [300, 301], [400]],
            "failing": [300, 100], "ops": [list(o) for o in ops], "names": [0, 1], "tagsU": [0, 1, 2],
            "nodes": [4, 3, 2, 1, 0]}


def generate(run, tier):
    rng = run.rng("gen")
    n = 360 if tier == "quick" else 3000
    cases = [readme_diamond(),
             readme_diamond([["get", 4, 0, 0], ["get", 3, 0, 1], ["setbases", 4, [2]], ["settag", 2, 1, 20]]),
             readme_diamond([["get", 4, 0, 2], ["setbases", 2, [0]], ["get", 4, 0, 3], ["setbases", 3, [0]]])]
    cases += [_gen_case(rng) for _ in range(n)]
    return cases


# ------------------------------------------------------------------ Coq terms
def _ln(l):
    return C.clist(["%d" % x for x in l])


def _tv(v):
    return "TNone" if v is None else "(TV %d)" % v


def _tval(v):
    if v is None:
        return "None"
    if v[0] == "none":
        return "(Some TNone)"
    if v[0] == "v":
        return "(Some (TV %d))" % v[1]
    return "(Some (TInvs %s))" % _ln(v[1])


def _op(op):
    if op[0] == "snap":
        return "TSnap %d" % op[1]
    if op[0] == "setbases":
        return "TOp (OSetBases %d %s)" % (op[1], _ln(op[2]))
    if op[0] == "settag":
        return "TOp (OSetTag %d %d %s)" % (op[1], op[2], _tv(op[3]))
    return "TOp (OGet %d %d)" % (op[1], op[2])


def _input(case):
    # "dictmut" steps are not given to the model: the caller's dict is not the interface's
    n = case["n"]
    graph = ["(0, [])"] + ["(%d, %s)" % (i + 1, _ln(b)) for i, b in enumerate(case["bases"])]
    attrs = ["(%d, %s)" % (i + 1, C.clist(["(%d, %d)" % (a[0], i + 1) for a in al]))
             for i, al in enumerate(case["attrs"])]
    tags = []
    if case.get("roottags"):
        tags.append("(0, %s)" % C.clist(["(%d, %s)" % (t, _tv(v)) for t, v in case["roottags"]]))
    for i in range(n):
        tl = ["(%d, %s)" % (t, _tv(v)) for t, v in case["tags"][i]]
        if case["invs"][i]:
            tl.append("(0, TInvs %s)" % _ln(case["invs"][i]))
        tags.append("(%d, %s)" % (i + 1, C.clist(tl)))
    return "(mkIn %d %s %s %s %s %s %s %s %s)" % (
        n, C.clist(graph), C.clist(attrs), C.clist(tags), _ln(case["failing"]),
        C.clist([_op(o) for o in case["ops"] if o[0] != "dictmut"]), _ln(case["names"]), _ln(case["tagsU"]), _ln(case["nodes"]))


def _on(x):
    return "None" if x is None else "(Some %d)" % x


def _nobs(o):
    gets = C.clist(["(%s, %s, %s, %s)" % (_on(a), _on(b), _on(c), C.cbool(d)) for a, b, c, d in o["gets"]])
    nad = C.clist(["(%d, %d)" % (k, d) for k, d in o["nad"]])
    tagq = C.clist(["(%s, %s)" % (_tval(q), _tval(g)) for q, g in o["tagq"]])
    return "(mkNobs %s %s %s %s %s %s %s %s %s %s %s %s)" % (
        _ln(o["iro"]), gets, _ln(o["iter"]), _ln(o["names"]), nad, tagq, _ln(o["tags"]),
        _ln(o["v1_ran"]), _on(o["v1_exc"]), _ln(o["v2_ran"]), _ln(o["v2_errs"]), C.cbool(o["v2_raised"]))


def coq_case(case, obs, mode):
    if "exc" in obs:
        return "(%s, false, [], [], [])" % _input(case)
    return "(%s, true, %s, %s, %s)" % (_input(case), C.clist([_on(x) for x in obs["gets"]]),
                                       C.clist([_nobs(o) for o in obs["snaps"]]),
                                       C.clist([_nobs(o) for o in obs["snap"]]))


# ------------------------------------------------------------------ coverage
def _final_bases(case):
    cur = {i + 1: list(b) for i, b in enumerate(case["bases"])}
    for op in case["ops"]:
        if op[0] == "setbases":
            cur[op[1]] = list(op[2])
    return cur


def _final_tags(case):
    tg = {i + 1: {t for t, _ in tl} for i, tl in enumerate(case["tags"])}
    tg[0] = {t for t, _ in case.get("roottags") or []}
    for op in case["ops"]:
        if op[0] == "settag":
            tg[op[1]].add(op[2])
    return tg


def _diamond1(case):
    cur = _final_bases(case)
    n = case["n"]
    defs = [("a", k, {i + 1 for i, al in enumerate(case["attrs"]) if any(a[0] == k for a in al)})
            for k in case["names"]]
    tg = _final_tags(case)
    defs += [("t", t, {i for i in tg if t in tg[i]}) for t in case["tagsU"] if t]
    for s in range(1, n + 1):
        bs = [b for b in cur[s] if b]
        for l in bs:
            for r in bs:
                if l >= r:
                    continue
                for b in range(1, n + 1):
                    if b in (l, r) or not (_reaches(cur, l, b) and _reaches(cur, r, b)):
                        continue
                    for _k, _key, who in defs:
                        if b in who and ((l in who) != (r in who)):
                            return True
    return False


def classify(case, obs):
    if "exc" in obs:
        return None
    cur = _final_bases(case)
    tg = _final_tags(case)
    multi = False
    for o in obs["snap"]:
        iro = o["iro"]
        for k in case["names"]:
            if sum(1 for i in iro if i and any(a[0] == k for a in case["attrs"][i - 1])) >= 2:
                multi = True
        for t in case["tagsU"]:
            if t and sum(1 for i in iro if i and t in tg[i]) >= 2:
                multi = True
    if not multi:
        return None
    kinds = [op[0] for op in case["ops"]]
    nreb = kinds.count("setbases")
    get_before = bool({"get", "snap"} & set(kinds[:kinds.index("setbases")])) if nreb else False
    return (tuple(tuple(cur[i]) for i in sorted(cur)),
            tuple(tuple(sorted(a[0] for a in al)) for al in case["attrs"]),
            tuple(tuple(sorted(tg[i])) for i in sorted(tg)), nreb, get_before, tuple(case.get("pyname") or ()))


def kind(case, obs):
    kinds = [op[0] for op in case["ops"]]
    nreb = kinds.count("setbases")
    twin = "twin-" if case.get("pyname") else ""
    return "%s%s/%s" % (twin, "diamond1" if _diamond1(case) else "other", "rebased" if nreb else "static")


def replay_text(case, obs, mode):
    src = "# PURE_PYTHON=%s\n" % ("1" if mode == "py" else "0") + B.build_source(case)
    src += "".join(B.op_source(op) + "\n" for op in case["ops"])
    src += ("# then, for every interface I and name 'a<k>': I[name], I.get(name), I.queryDescriptionFor(name), name in I,\n"
            "# sorted(I), sorted(I.names(all=True)), dict(I.namesAndDescriptions(all=True)), queryTaggedValue('t<k>'),\n"
            "# getTaggedValueTags(), validateInvariants(object()) and validateInvariants(object(), []) are observed:\n"
            "# observed = %r" % (obs,))
    return src


def finding_key(case, obs, mode):
    return None


TECHNIQUE = ("Coq proof over a Gallina model of Specification.get (with the _v_attrs memo and its clearing by changed), "
             "InterfaceClass.names / namesAndDescriptions / tagged values / validateInvariants; vm_compute correspondence "
             "and an independent first-definition-along-fresh-order oracle on both implementations")
LEVEL_TEXT = ("Machine-checked theorems (Properties/C15.v, 20 theorems, closed under the global context): 8 state that the "
              "kernel regenerated on every run from the TEXT of interface.py (Specification.get / changed, InterfaceClass."
              "names / __iter__ / namesAndDescriptions / getDescriptionFor / __contains__ / direct / queryDescriptionFor / "
              "validateInvariants / queryTaggedValue / getTaggedValue / getTaggedValueTags) equals the model on every "
              "input and state; 12 hold for every DAG, "
              "every direct table, every behaviour of the invariants and every history of rebasings / get calls / "
              "setTaggedValue with no bound; the model is compared with the C and Python implementations on generated "
              "DAGs and histories on every run, and the implementation's raw answers are judged in Coq against "
              "'first definition along the fresh resolution order of the current bases'.")
LEVEL_NOTE = ("Trusted: Coq kernel/vm_compute; that changed() reaches every dependent and leaves it with the fresh order "
              "(taken from C02/C03, but the resulting __iro__ is compared with Ro.fresh_sro on every snapshot); the "
              "recursion bound of the model exceeds the depth of the graph (checked per case, hypothesis `deep` in the "
              "theorem about names(all=True)); dict iteration order is not compared (listings are sorted).")
