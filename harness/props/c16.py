"""C16 — Components listings, lookups and events stay mutually consistent (DESIGN.md section 5, C16)."""
import copy
import json
import os

from .. import common as C
from ..translate import components as TR
from . import regcommon as RC

ID = "C16"
COQ_TARGETS = ["Tie/C16.vo", "Tie/C16Known.vo", "Properties/C16.vo"]
PROPERTY_FILE = "Properties/C16.v"
TIE = "Tie.C16"
DRIVER = "c16_driver.py"
SHARD = 18
THEOREMS = [
    "C16_listings_exact", "C16_registries_determined_by_listings", "C16_subscribed_utility_may_be_unlisted",
    "C16_probe_finds_nothing", "C16_probe_is_rebuild_false", "C16_probe_repairs",
    "C16_events_exact_refuted", "C16_events_exact_refuted_multi_removal",
    "C16_events_exact_refuted_adapter_overwrite", "C16_events_exact_partial",
    "C16_unregister_returns_removed", "C16_replace_order", "C16_pruning_never_hides",
    "C16_queryUtility_from_listings", "C16_listings_local", "C16_queries_follow_bases",
    "C16_generated_counter_eq_model", "C16_generated_utility_cache_eq_model", "C16_generated_utilities_eq_model",
    "C16_generated_adapters_eq_model", "C16_generated_subscriptions_eq_model", "C16_generated_rebuild_eq_model",
    "C16_generated_rebuild_from_cache_eq_model", "C16_generated_inference_eq_explicit", "C16_generated_queries_eq_model",
]
REGISTRY_PY = os.path.join(C.REPO, "src", "zope", "interface", "registry.py")
GEN = os.path.join(C.COQ, "Gen", "ComponentsKernel.v")


def regenerate(run):
    """Re-translate the bookkeeping kernels of registry.py into coq/Gen/ComponentsKernel.v (fail closed)."""
    try:
        C.write_if_changed(GEN, TR.translate_file(REGISTRY_PY))
        return []
    except Exception as e:  # noqa: refuse, report, keep the pipeline alive on the pinned kernel
        C.write_if_changed(GEN, TR.pinned())
        return ["harness/translate/components.py refused %s (%s: %s); coq/Gen/ComponentsKernel.v holds the pinned "
                "kernel, so the theorems C16_generated_*_eq_model are NOT about the current source"
                % (REGISTRY_PY, type(e).__name__, e)]

RULE = ("histories of 5-40 calls of the eight register*/unregister* methods (+ re-__init__, + the rejected "
        "component-and-factory call) on one to three Components objects connected and re-based through __bases__ "
        "mid-history (40% of the cases), over a generated interface/class world, with identical / "
        "equal-but-distinct / unhashable / falsy components and factory= objects, several names and infos, "
        "event=False in a fifth of the register calls, related provided interfaces, explicit / factory= / inferred "
        "(provided, required and -- through named() -- the name) / class-valued arguments, and occasional corruption of the utilities registry behind the object's back "
        "followed by rebuildUtilityRegistryFromLocalCache(True); after every call: return value, events, four "
        "listings, probe counters, 3 targeted queries put to the object or another one of the chain (12 after the "
        "last call); a case is non-trivial when it registers a utility and at least one unregister call returned "
        "True; distinct = distinct (first 12 op kinds, permitted finding shape)")
TRUSTED_BASE = [
    "harness/translate/components.py: the fixed abstraction tables of the translator (a cache value is a dict or the "
    "generated counter; counts are naturals; the KeyError marked unreachable is 'no change'; dictionary reads are "
    "pure; inference helpers are oracles; factory= is a pair (identity, component returned); names of subscription "
    "/ handler registrations are dropped only when the source guarantees them empty)",
    "Model/Adapter.v storage + uncached walkers (shared registry model; lookup caches assumed transparent: C05)",
    "components as (identity, equality class, hashable) with __hash__ consistent with __eq__ and hashability "
    "determined by the equality class",
]
ASSUMPTIONS = [
    "an object that is listed in another object's __bases__ is not re-initialised (the other object would keep "
    "consulting the abandoned registries); __bases__ name earlier objects",
    "event=False suppresses the Registered event of the call only: the Unregistered event of a utility it displaces "
    "is still due",
    "component __eq__ is an equivalence, __hash__ is consistent with it, and an unhashable component is never "
    "equal to a hashable one",
    "the inference helpers (_getUtilityProvided, _getName, _getAdapterProvided, _getAdapterRequired) are oracles of "
    "the regenerated kernels (any answers: C16_generated_inference_eq_explicit); the tie exercises them through "
    "implementer / directlyProvides declarations, __component_adapts__ and named() with the inferred values made "
    "explicit in the model's operation",
    "the lookup caches and stored resolution orders of the registries are transparent (C05, C06): the query methods "
    "are the uncached walkers over the registries of the current __bases__ chain",
]
F9_KEY = "F9-multi-subscription-unregister-one-event"
F11_KEY = "F11-adapter-overwrite-registered-only"
F13_KEY = "F13-unregistered-equal-utility-still-handed-out"
KEYS = {"F9": (9, F9_KEY), "F11": (11, F11_KEY), "F13": (13, F13_KEY)}

# component pool: identity -> equality class; which classes are unhashable varies per case
POOL = {1: 1, 2: 1, 3: 3, 4: 4, 5: 5, 6: 5, 7: 7, 8: 8}
UNHASHABLE_PRESETS = [[5, 6, 7], [5, 6, 7], [5, 6], [7], [], [1, 2, 5, 6, 7], [3, 4, 8]]


def _noev(op):
    """an operation without its trailing ``event=`` flag (register ops may carry one; default True)"""
    return op[:-1] if isinstance(op[-1], bool) and op[0] in ("regU", "regA", "regS", "regH") else op


def _ev(op):
    return op[-1] if isinstance(op[-1], bool) and op[0] in ("regU", "regA", "regS", "regH") else True


def _conv(req):
    return tuple(0 if r is None else r for r in req)


class Ledger:
    """generator-side bookkeeping (to aim operations at live keys and to know which recorded
    finding shapes a history contains); not an oracle"""

    def __init__(self):
        self.reset()

    def reset(self):
        self.u, self.a, self.s, self.h = {}, {}, [], []
        self.rep = {}          # (provided, equality class) -> [identity subscribed to ``utilities``, count]

    def _rep_add(self, p, v):
        r = self.rep.setdefault((p, v[1]), [v[0], 0])
        r[1] += 1

    def _rep_del(self, p, v):
        r = self.rep[(p, v[1])]
        r[1] -= 1
        if r[1] == 0:
            del self.rep[(p, v[1])]

    def stale(self):
        """a component is subscribed (and handed out by getAllUtilitiesRegisteredFor) although
        no live registration under that provided interface holds that very object"""
        for (p, _cls), (vid, _n) in self.rep.items():
            if not any(k[0] == p and val[0][0] == vid for k, val in self.u.items()):
                return True
        return False

    @staticmethod
    def eq(a, b):
        return a[1] == b[1]

    def shapes_of(self, op):
        out = set()
        trial = Ledger()
        trial.u, trial.rep = dict(self.u), {k: list(v) for k, v in self.rep.items()}
        if op[0] in ("regU", "unregU", "reinit", "tamper", "rebuild"):
            trial.unsub = getattr(self, "unsub", None)
            trial.apply(op)
        if trial.stale():
            out.add("F13")
        op = _noev(op)
        k = op[0]
        if k == "regA" and (_conv(op[2]), op[3], op[4]) in self.a:
            out.add("F11")
        if k == "unregS" and op[4] == 0:
            q, p, f = _conv(op[2]), op[3], op[1]
            n = sum(1 for (q2, p2, f2, _i) in self.s if q2 == q and p2 == p and (f is None or self.eq(f2, f)))
            if n > 1:
                out.add("F9")
        if k == "unregH" and op[3] == 0:
            q, f = _conv(op[2]), op[1]
            n = sum(1 for (q2, f2, _i) in self.h if q2 == q and (f is None or self.eq(f2, f)))
            if n > 1:
                out.add("F9")
        return out

    def apply(self, op):
        op = _noev(op)
        k = op[0]
        if k == "tamper":
            if op[1] == "unsub":
                self.unsub = (op[2], op[3][1])
            return
        if k == "rebuild":
            # a class unsubscribed behind the object's back is re-subscribed with the first listed
            # utility of that class
            pc = getattr(self, "unsub", None)
            self.unsub = None
            if pc is not None and pc in self.rep:
                first = [val[0] for key, val in self.u.items() if key[0] == pc[0] and val[0][1] == pc[1]]
                if first:
                    self.rep[pc][0] = first[0][0]
            return
        if k == "reinit":
            self.reset()
        elif k == "regU":
            _, v, p, n, i, fac, _style = op
            old = self.u.get((p, n))
            if old is not None and self.eq(old[0], v) and old[1] == i:
                return
            if old is not None:
                self._rep_del(p, old[0])
            self.u.pop((p, n), None)
            self.u[(p, n)] = (v, i, fac)
            self._rep_add(p, v)
        elif k == "unregU":
            _, v, p, n, _style = op
            old = self.u.get((p, n))
            if old is not None and (v is None or self.eq(v, old[0])):
                del self.u[(p, n)]
                self._rep_del(p, old[0])
        elif k == "regA":
            _, v, req, p, n, i, _style = op
            self.a[(_conv(req), p, n)] = (v, i)
        elif k == "unregA":
            _, v, req, p, n, _style = op
            old = self.a.get((_conv(req), p, n))
            if old is not None and (v is None or self.eq(v, old[0])):
                del self.a[(_conv(req), p, n)]
        elif k == "regS":
            _, v, req, p, n, i, _style = op
            if n == 0:
                self.s.append((_conv(req), p, v, i))
        elif k == "unregS":
            _, v, req, p, n, _style = op
            if n == 0:
                q = _conv(req)
                self.s = [e for e in self.s if not (e[0] == q and e[1] == p and (v is None or self.eq(e[2], v)))]
        elif k == "regH":
            _, v, req, n, i, _style = op
            if n == 0:
                self.h.append((_conv(req), v, i))
        elif k == "unregH":
            _, v, req, n, _style = op
            if n == 0:
                q = _conv(req)
                self.h = [e for e in self.h if not (e[0] == q and (v is None or self.eq(e[1], v)))]


def case_shapes(case):
    leds = [Ledger()]
    shapes = set()
    for st in case["steps"]:
        op = st["op"]
        if op[0] == "newc":
            leds.append(Ledger())
            continue
        if op[0] == "setbases":
            continue
        led = leds[st.get("on", 0)]
        shapes |= led.shapes_of(op)
        led.apply(op)
    return shapes


# --------------------------------------------------------------------------- generator

def _comp(rng, near=None):
    if near is not None and rng.random() < 0.6:
        r = rng.random()
        if r < 0.45:
            return list(near)                                   # the identical object
        same = [v for v, e in POOL.items() if e == near[1] and v != near[0]]
        if same and r < 0.8:
            v = rng.choice(same)                                # equal but distinct
            return [v, POOL[v]]
    v = rng.choice(list(POOL))
    return [v, POOL[v]]


def gen_case(rng, permit, n_steps):
    world, ifaces, classes = RC.gen_world(rng, n_ifaces=rng.choice([3, 4, 5]), n_classes=2, n_objects=3)
    rel = RC.Rel(world)
    nobj = len(world["objects"])
    # what each object (approximately) provides: ancestors of its class spec and of its direct interfaces
    oprov = []
    for o in world["objects"]:
        s = set(rel.anc[o["cls"]])
        for d in o.get("direct", []):
            s |= rel.anc[d]
        oprov.append(sorted(s))
    names = [0, 0, 0, 1, 2]
    infos = [0, 0, 1, 2]
    multi = rng.random() < 0.4                 # a stream with 2-3 objects in re-based chains
    leds = [Ledger()]
    bases = [[]]
    led = leds[0]
    steps = []
    seen_prov = []

    def reach(r):
        out, todo = [], [r]
        while todo:
            x = todo.pop(0)
            if x not in out:
                out.append(x)
                todo += bases[x]
        return out

    def related_iface():
        if seen_prov and rng.random() < 0.6:
            p0 = rng.choice(seen_prov)
            cand = [x for x in rel.ancestors(p0) + rel.descendants(p0) if x in ifaces]
            if cand:
                return rng.choice(cand)
        return rng.choice(ifaces)

    def gen_req():
        ar = rng.choice([0, 1, 1, 1, 1, 2, 2])
        out = []
        for _ in range(ar):
            r = rng.random()
            if r < 0.1:
                out.append(None)
            elif r < 0.8 and nobj:
                out.append(rng.choice(oprov[rng.randrange(nobj)]))
            else:
                out.append(rng.choice(ifaces + classes))
        return out

    def style_for(req, infer_ok):
        r = rng.random()
        if r < 0.08 and infer_ok and None not in req:
            return "infer"
        if r < 0.2 and any(x in classes for x in req if x is not None):
            return "class"
        return "plain"

    # churn stream: one component (or an equal pair) registered under several names of one provided
    # interface, fully unregistered and registered again -- the counting cache goes up, down to
    # nothing and up again
    churn = None
    if not multi and rng.random() < 0.14:
        pair = rng.choice([[[5, 5], [6, 5]], [[1, 1], [2, 1]]]) if permit == "F13" else [rng.choice([[7, 7], [3, 3], [5, 5], [1, 1]])]
        churn = {"comps": pair, "p": rng.choice(ifaces), "names": [0, 1, 2]}

    def churn_op():
        p = churn["p"]
        live = [(k, v_) for k, v_ in led.u.items() if k[0] == p]
        free = [n for n in churn["names"] if (p, n) not in led.u]
        if live and (not free or rng.random() < 0.5):
            (p_, n_), (oc, _oi, _of) = rng.choice(live)
            v = None if rng.random() < 0.3 else list(oc)
            return ["unregU", v, p_, n_, "plain"]
        if not free:
            free = churn["names"]
        return ["regU", list(rng.choice(churn["comps"])), p, rng.choice(free), rng.choice(infos), None, "plain"]

    def churn_query():
        p = churn["p"]
        k = rng.choice(["allUtils", "allUtils", "util", "utilsFor"])
        pa = anc_iface(p) if rng.random() < 0.5 else p
        return [k, pa, rng.choice(churn["names"])] if k == "util" else [k, pa]

    def gen_op():
        nonlocal led
        if churn is not None and rng.random() < 0.85:
            seen_prov.append(churn["p"])
            return churn_op()
        k = rng.choices(["regU", "unregU", "regA", "unregA", "regS", "unregS", "regH", "unregH", "reinit", "uboth"],
                        [5, 3, 3, 2, 3, 2, 2, 1.5, 0.12, 0.4])[0]
        if k == "reinit":
            return ["reinit"]
        if k == "uboth":
            live = list(led.u.items())
            if live and rng.random() < 0.7:
                (p, n), (oc, _oi, _of) = rng.choice(live)
                v = _comp(rng, oc)
            else:
                v, p, n = _comp(rng), related_iface(), rng.choice(names)
            return ["uboth", rng.random() < 0.5, v, p, n, rng.choice([1, 2, 1000])]
        if k == "regU":
            live = list(led.u.items())
            if live and rng.random() < 0.45:
                (p, n), (oc, oi, _of) = rng.choice(live)           # aim at a live key: no-op / replace
                v = _comp(rng, oc)
                i = oi if rng.random() < 0.6 else rng.choice(infos)
            elif live and rng.random() < 0.5:
                (p0, _n0), (oc, _oi, _of) = rng.choice(live)       # same / equal component elsewhere
                v = _comp(rng, oc)
                p = p0 if rng.random() < 0.6 else related_iface()
                n, i = rng.choice(names), rng.choice(infos)
            else:
                v, p, n, i = _comp(rng), related_iface(), rng.choice(names), rng.choice(infos)
            seen_prov.append(p)
            r = rng.random()
            fac, style = None, "plain"
            if r < 0.12:
                fac, style = rng.choice([1, 2]), "factory"
            elif r < 0.2 and p != 0:
                style = "infer"
            return ["regU", v, p, n, i, fac, style]
        if k == "unregU":
            live = list(led.u.items())
            if live and rng.random() < 0.8:
                (p, n), (oc, _oi, _of) = rng.choice(live)
                v = None if rng.random() < 0.3 else _comp(rng, oc)
            else:
                v = None if rng.random() < 0.3 else _comp(rng)
                p, n = related_iface(), rng.choice(names)
            style = "plain"
            if v is not None:
                r = rng.random()
                style = "factory" if r < 0.1 else "infer" if r < 0.18 else "plain"
            return ["unregU", v, p, n, style]
        if k == "regA":
            live = list(led.a.items())
            if live and rng.random() < 0.4:
                (q, p, n), (of, oi) = rng.choice(live)
                req = list(q)
                v = _comp(rng, of)
                i = oi if rng.random() < 0.5 else rng.choice(infos)
            else:
                req, p, n, v, i = gen_req(), related_iface(), rng.choice(names), _comp(rng), rng.choice(infos)
            seen_prov.append(p)
            return ["regA", v, req, p, n, i, style_for(req, True)]
        if k == "unregA":
            live = list(led.a.items())
            if live and rng.random() < 0.8:
                (q, p, n), (of, _oi) = rng.choice(live)
                req = list(q)
                v = None if rng.random() < 0.3 else _comp(rng, of)
            else:
                req, p, n = gen_req(), related_iface(), rng.choice(names)
                v = None if rng.random() < 0.3 else _comp(rng)
            return ["unregA", v, req, p, n, style_for(req, v is not None)]
        if k == "regS":
            if led.s and rng.random() < 0.35:
                q, p, of, oi = rng.choice(led.s)
                req = list(q)
                v = _comp(rng, of)
                i = oi if rng.random() < 0.5 else rng.choice(infos)
            else:
                req, p, v, i = gen_req(), related_iface(), _comp(rng), rng.choice(infos)
            n = 0 if rng.random() > 0.04 else 1
            seen_prov.append(p)
            return ["regS", v, req, p, n, i, style_for(req, n == 0)]
        if k == "unregS":
            if led.s and rng.random() < 0.8:
                q, p, of, _oi = rng.choice(led.s)
                req = list(q)
                v = None if rng.random() < 0.25 else _comp(rng, of)
            else:
                req, p = gen_req(), related_iface()
                v = None if rng.random() < 0.25 else _comp(rng)
            n = 0 if rng.random() > 0.04 else 1
            return ["unregS", v, req, p, n, style_for(req, v is not None and n == 0)]
        if k == "regH":
            if led.h and rng.random() < 0.35:
                q, of, oi = rng.choice(led.h)
                req = list(q)
                v = _comp(rng, of)
                i = oi if rng.random() < 0.5 else rng.choice(infos)
            else:
                req, v, i = gen_req(), _comp(rng), rng.choice(infos)
            n = 0 if rng.random() > 0.04 else 1
            return ["regH", v, req, n, i, style_for(req, n == 0)]
        if led.h and rng.random() < 0.8:
            q, of, _oi = rng.choice(led.h)
            req = list(q)
            v = None if rng.random() < 0.25 else _comp(rng, of)
        else:
            req = gen_req()
            v = None if rng.random() < 0.25 else _comp(rng)
        n = 0 if rng.random() > 0.04 else 1
        return ["unregH", v, req, n, style_for(req, v is not None and n == 0)]

    def objs_for(q):
        """objects whose (approximate) provided set contains the required specs, when possible"""
        out = []
        for r in q:
            cand = [j for j in range(nobj) if r in oprov[j]] or list(range(nobj))
            out.append(rng.choice(cand))
        return out

    def anc_iface(p):
        return rng.choice([x for x in rel.ancestors(p) if x in ifaces or x == 0])

    def gen_query():
        if churn is not None and rng.random() < 0.7:
            return churn_query()
        kinds = ["util", "utilsFor", "allUtils", "adapter", "multi", "getAdapters", "subscribers", "handle"]
        k = rng.choices(kinds, [3, 2, 3, 2, 2, 1.5, 3, 2])[0]
        if k in ("util", "utilsFor", "allUtils"):
            if led.u and rng.random() < 0.8:
                (p0, n0) = rng.choice(list(led.u))
                p, n = anc_iface(p0), n0
            else:
                p, n = rng.choice(seen_prov or ifaces), rng.choice(names)
            return [k, p, n] if k == "util" else [k, p]
        if k in ("adapter", "multi", "getAdapters"):
            live = [key for key in led.a if (len(key[0]) == 1 if k == "adapter" else True)]
            if live and rng.random() < 0.85:
                q, p0, n0 = rng.choice(live)
                os_, p, n = objs_for(q), anc_iface(p0), n0
            else:
                os_ = [rng.randrange(nobj) for _ in range(1 if k == "adapter" else rng.choice([0, 1, 2]))]
                p, n = rng.choice(seen_prov or ifaces), rng.choice(names)
            if k == "adapter":
                return [k, os_[0], p, n]
            return [k, os_, p, n] if k == "multi" else [k, os_, p]
        if k == "subscribers":
            if led.s and rng.random() < 0.85:
                q, p0, _f, _i = rng.choice(led.s)
                return [k, objs_for(q), anc_iface(p0)]
            return [k, [rng.randrange(nobj) for _ in range(rng.choice([0, 1, 2]))], rng.choice(seen_prov or ifaces)]
        if led.h and rng.random() < 0.85:
            q, _f, _i = rng.choice(led.h)
            return [k, objs_for(q)]
        return [k, [rng.randrange(nobj) for _ in range(rng.choice([0, 1, 2]))]]

    # in the cases that may overwrite adapters (F11 shape): one deliberate overwrite of a live key by an
    # EQUAL but distinct factory (distinguishable by what it returns), queried right away
    overwrite_at = rng.randrange(n_steps) if permit == "F11" and rng.random() < 0.7 else None

    for si in range(n_steps):
        nq = 12 if si == n_steps - 1 else 3
        if si == overwrite_at and not multi:
            a_, b_ = rng.choice([([1, 1], [2, 1]), ([2, 1], [1, 1]), ([5, 5], [6, 5]), ([6, 5], [5, 5])])
            q_ = [rng.choice(oprov[rng.randrange(nobj)]) for _ in range(rng.choice([1, 1, 2]))]
            p_, n_, i_ = related_iface(), rng.choice(names), rng.choice(infos)
            pair = [["regA", a_, q_, p_, n_, i_, "plain", True], ["regA", b_, q_, p_, n_, i_, "plain", rng.random() > 0.2]]
            trial = copy.deepcopy(led)
            ok_shape = True
            for o_ in pair:
                sh = trial.shapes_of(o_)
                ok_shape = ok_shape and sh <= {"F11"}
                trial.apply(o_)
            if ok_shape:
                leds[0] = led = trial
                seen_prov.append(p_)
                for o_ in pair:
                    os_ = objs_for(q_)
                    qs = [["multi", os_, anc_iface(p_), n_], ["getAdapters", os_, anc_iface(p_)], ["multi", objs_for(q_), p_, n_]]
                    if len(q_) == 1:
                        qs.append(["adapter", os_[0], p_, n_])
                    steps.append({"op": o_, "on": 0, "queries": qs, "qon": [0] * len(qs)})
                continue
        if multi:
            r = rng.random()
            struct = None
            if len(leds) < 3 and (r < 0.15 or (len(leds) == 1 and si >= 1 and r < 0.5)):
                bs = [b for b in range(len(leds)) if rng.random() < 0.7]
                rng.shuffle(bs)
                struct = (["newc", bs], len(leds))
                leds.append(Ledger())
                bases.append(list(bs))
            elif len(leds) > 1 and r < 0.27:
                t = rng.randrange(1, len(leds))
                bs = [b for b in range(t) if rng.random() < 0.6]
                rng.shuffle(bs)
                bases[t] = list(bs)
                struct = (["setbases", t, bs], t)
            elif len(leds) > 1 and r < 0.33:
                # re-initialisation WITH the bases it has (the documented test-cleanup idiom
                # ``c.__init__(name, bases=c.__bases__)``), on an object nobody uses as a base: the fresh registries
                # must be connected to the bases' registries although the tuple assigned is the one already there
                # (round-6 seed C06/a6).  For the model: Reinit (no bases), then SetBases with the same list, which
                # the implementation executes as a second assignment of the equal tuple.
                cand = [t_ for t_ in range(1, len(leds)) if bases[t_] and not any(t_ in b for b in bases)]
                if cand:
                    t = rng.choice(cand)
                    leds[t].apply(["reinit", "keep"])
                    steps.append({"op": ["reinit", "keep"], "on": t, "queries": [], "qon": []})
                    struct = (["setbases", t, list(bases[t])], t)
            if struct is not None:
                qon = [rng.randrange(len(leds)) for _ in range(nq)]
                qs = []
                for rq in qon:
                    led = leds[rng.choice(reach(rq))]
                    qs.append(gen_query())
                steps.append({"op": struct[0], "on": struct[1], "queries": qs, "qon": qon})
                continue
        on = rng.randrange(len(leds)) if multi else 0
        led = leds[on]
        used_as_base = any(on in b for b in bases)
        if led.u and rng.random() < 0.05 and si < n_steps - 1:
            # corrupt the utilities registry, then repair it: two consecutive steps
            (tp, tn), (tc, _ti, _tf) = rng.choice(list(led.u.items()))
            t_op = ["tamper", "unreg", tp, tn] if rng.random() < 0.5 else ["tamper", "unsub", tp, tc]
            trial = copy.deepcopy(led)
            ok_shape = True
            for o_ in (t_op, ["rebuild"]):
                sh = trial.shapes_of(o_)
                ok_shape = ok_shape and (not sh or sh <= {permit})
                trial.apply(o_)
            if ok_shape:
                leds[on] = led = trial
                steps.append({"op": t_op, "on": on, "queries": [], "qon": []})
                qon = [on] * nq
                qs = [gen_query() for _ in range(nq)]
                steps.append({"op": ["rebuild"], "on": on, "queries": qs, "qon": qon})
                continue
        for _attempt in range(30):
            op = gen_op()
            if op[0] == "reinit" and used_as_base:
                continue
            if op[0] in ("regU", "regA") and (op[3] if op[0] == "regU" else op[4]) != 0:
                # leave the name to inference from a named() decoration
                if op[6] == "plain" and rng.random() < 0.25:
                    op[6] = "named"
                elif op[6] == "infer" and None not in (op[2] if op[0] == "regA" else []) and rng.random() < 0.5:
                    op[6] = "inferall"
            if op[0] in ("regU", "regA", "regS", "regH"):
                op = op + [rng.random() > 0.2]         # event=False in a fifth of the register calls
            sh = led.shapes_of(op)
            if not sh or sh <= {permit}:
                break
        else:
            op = ["regU", _comp(rng), rng.choice(ifaces), rng.choice(names), 0, None, "plain", True]
        led.apply(op)
        if op[0] == "reinit":
            bases[on] = []
        qon = [(rng.randrange(len(leds)) if rng.random() < 0.7 else on) for _ in range(nq)] if multi else [on] * nq
        qs = []
        for rq in qon:
            led = leds[rng.choice(reach(rq))]
            qs.append(gen_query())
        steps.append({"op": op, "on": on, "queries": qs, "qon": qon})
    world["unhashable"] = rng.choice(UNHASHABLE_PRESETS)
    if churn is not None:
        cls_ = churn["comps"][0][1]
        same = [v for v, e in POOL.items() if e == cls_]
        world["unhashable"] = sorted(set(world["unhashable"]) - set(same) | (set(same) if rng.random() < 0.6 else set()))
    # falsy components (bool(c) is False): an attribute of the implementation's objects only
    r = rng.random()
    world["falsy"] = [] if r < 0.3 else sorted(POOL) if r < 0.45 else [v for v in sorted(POOL) if rng.random() < 0.45]
    r = rng.random()
    world["falsy_factories"] = [] if r < 0.4 else [1, 2, 1000] if r < 0.7 else [f for f in (1, 2, 1000) if rng.random() < 0.5]
    world["steps"] = steps
    world["permit"] = permit
    return world


def generate(run, tier):
    rng = run.rng("gen")
    n = 240 if tier == "quick" else 4000
    cases = []
    for _ in range(n):
        permit = rng.choices(["none", "F9", "F11", "F13"], [67, 11, 11, 11])[0]
        n_steps = rng.choice([5, 8, 12, 16, 20, 25, 30, 40])
        cases.append(gen_case(rng, permit, n_steps))
    return cases


# --------------------------------------------------------------------------- Coq emission

def c_v(v):
    return "(mkV %d %d)" % (v[0], v[1])


def c_ov(v):
    return "None" if v is None else "(Some %s)" % c_v(v)


def c_onat(x):
    return "None" if x is None else "(Some %d)" % x


def c_req(l):
    return "[" + "; ".join("None" if x is None else "(Some %d)" % x for x in l) + "]"


def c_op(op):
    ev = C.cbool(_ev(op))
    op = _noev(op)
    k = op[0]
    if k == "reinit":
        return "Reinit"
    if k == "uboth":
        return "(UtilityBoth %s %s %d %d)" % (C.cbool(op[1]), c_v(op[2]), op[3], op[4])
    if k == "regU":
        return "(RegUtility %s %d %d %d %s %s)" % (c_v(op[1]), op[2], op[3], op[4], c_onat(op[5]), ev)
    if k == "unregU":
        return "(UnregUtility %s %d %d)" % (c_ov(op[1]), op[2], op[3])
    if k == "regA":
        return "(RegAdapter %s %s %d %d %d %s)" % (c_v(op[1]), c_req(op[2]), op[3], op[4], op[5], ev)
    if k == "unregA":
        return "(UnregAdapter %s %s %d %d)" % (c_ov(op[1]), c_req(op[2]), op[3], op[4])
    if k == "regS":
        return "(RegSub %s %s %d %d %d %s)" % (c_v(op[1]), c_req(op[2]), op[3], op[4], op[5], ev)
    if k == "unregS":
        return "(UnregSub %s %s %d %d)" % (c_ov(op[1]), c_req(op[2]), op[3], op[4])
    if k == "regH":
        return "(RegHandler %s %s %d %d %s)" % (c_v(op[1]), c_req(op[2]), op[3], op[4], ev)
    if k == "unregH":
        return "(UnregHandler %s %s %d)" % (c_ov(op[1]), c_req(op[2]), op[3])
    raise ValueError(k)


def c_rec(r):
    k = r[0]
    if k == "U":
        return "(RU %d %d %s %d %s)" % (r[1], r[2], c_v(r[3] or [999, 999]), r[4], c_onat(r[5]))
    if k == "A":
        return "(RA %s %d %d %s %d)" % (RC.c_lnat(r[1]), r[2], r[3], c_v(r[4] or [999, 999]), r[5])
    if k == "S":
        return "(RS %s %d %s %d)" % (RC.c_lnat(r[1]), r[2], c_ov(r[3]), r[4])
    if k == "H":
        return "(RH %s %s %d)" % (RC.c_lnat(r[1]), c_ov(r[2]), r[3])
    raise ValueError(k)


def c_recs(l):
    return "[" + "; ".join(c_rec(r) for r in l) + "]"


def c_pairs(l):
    return "[" + "; ".join("(%d, %d)" % (a, b) for a, b in l) + "]"


def c_query(q, ans, oprov):
    k = q[0]
    ob = lambda j: "(%d, %d)" % (oprov[j], j)   # noqa
    obs_ = lambda l: "[" + "; ".join(ob(j) for j in l) + "]"   # noqa
    if k == "util":
        return "(QUtil %d %d %s)" % (q[1], q[2], c_onat(ans))
    if k == "utilsFor":
        return "(QUtilsFor %d %s)" % (q[1], c_pairs(ans))
    if k == "allUtils":
        return "(QAllUtils %d %s)" % (q[1], c_pairs(ans))
    if k == "adapter":
        return "(QAdapter %s %d %d %s)" % (ob(q[1]), q[2], q[3], c_onat(ans))
    if k == "multi":
        return "(QMulti %s %d %d %s)" % (obs_(q[1]), q[2], q[3], c_onat(ans))
    if k == "getAdapters":
        return "(QGetAdapters %s %d %s)" % (obs_(q[1]), q[2], c_pairs(ans))
    if k == "subscribers":
        return "(QSubscribers %s %d %s %s)" % (obs_(q[1]), q[2], RC.c_lnat(ans[0]), RC.c_lnat(ans[1]))
    if k == "handle":
        return "(QHandle %s %s)" % (obs_(q[1]), RC.c_lnat(ans))
    raise ValueError(k)


def c_sop(step):
    op = step["op"]
    if op[0] == "tamper":
        t = "(TUnreg %d %d)" % (op[2], op[3]) if op[1] == "unreg" else "(TUnsub %d %s)" % (op[2], c_v(op[3]))
        return "(STamper %d %s)" % (step.get("on", 0), t)
    if op[0] == "rebuild":
        return "(SRebuild %d)" % step.get("on", 0)
    if op[0] == "newc":
        return "(SNew %s)" % RC.c_lnat(op[1])
    if op[0] == "setbases":
        return "(SSetBases %d %s)" % (op[1], RC.c_lnat(op[2]))
    return "(SOp %d %s)" % (step.get("on", 0), c_op(op))


def c_step(step, ob, oprov):
    ret = ob["ret"]
    exc = bool(ob.get("exc")) or "error" in ob
    if isinstance(ret, list) and ret and ret[0] == "dict":
        cret = "(RDict (%d, %d, %d, %d))" % tuple(ret[1:])
    else:
        cret = {"none": "RNone", True: "(RBool true)", False: "(RBool false)", "TypeError": "RTypeError"}.get(ret, "RNone")
    evs = "[" + "; ".join("(%s %s)" % ("Registered" if e[0] else "Unregistered", c_rec(e[1])) for e in ob["events"]) + "]"
    if "error" in ob:
        lists, probe, qs = ["[]"] * 4, "(9, 9, 9, 9)", "[]"
    else:
        lists = [c_recs(ob[k]) for k in ("lu", "la", "ls", "lh")]
        probe = "(%d, %d, %d, %d)" % tuple(ob["probe"])
        qs = "[" + "; ".join("(%d, %s)" % (r_, c_query(q, a, oprov))
                             for q, a, r_ in zip(step["queries"], ob["answers"], ob["qon"])) + "]"
    return "(%s,\n     mkObs %s %d %s %s\n       %s\n       %s\n       %s\n       %s %s\n       %s)" % (
        c_sop(step), C.cbool(exc), ob.get("on", 0), cret, evs, lists[0], lists[1], lists[2], lists[3], probe, qs)


_TERMS = {}     # mode -> {id(case): (position, term, case)}
_KNOWN = {}     # mode -> {id(case): key}


def coq_case(case, obs, mode):
    if "error" in obs:
        raise C.HarnessError("driver error: " + obs["error"])
    oprov = obs["obj_provides"]
    steps = "[" + ";\n    ".join(c_step(s, o, oprov) for s, o in zip(case["steps"], obs["steps"])) + "]"
    term = "(%s, %s, %s,\n   %s)" % (RC.c_graph(obs), RC.c_ifaces(obs), RC.c_lnat(case.get("unhashable", [])), steps)
    _TERMS.setdefault(mode, {})[id(case)] = (term, case)
    return term


def _classify_known(mode):
    """Evaluate, in Coq, the Spec oracle with exactly one recorded deviation tolerated, on every
    case of this mode that contains exactly one such shape; the case gets that shape's key only if
    it passes the oracle that tolerates that shape alone."""
    res = {}
    items = [(cid, t, c, case_shapes(c)) for cid, (t, c) in _TERMS.get(mode, {}).items()]
    items = [it for it in items if len(it[3]) == 1 and next(iter(it[3])) in KEYS]
    if items:
        terms = ["(%d, %s)" % (KEYS[next(iter(sh))][0], t) for _cid, t, _c, sh in items]
        _bm, bad, errors = C.coq_eval_cases("Tie.C16Known", terms, shard=SHARD)
        if errors:
            raise C.HarnessError("coqc failed while classifying known findings: " + json.dumps(errors)[:2000])
        for j, (cid, _t, _c, sh) in enumerate(items):
            if j not in bad:
                res[cid] = KEYS[next(iter(sh))][1]
    _KNOWN[mode] = res


def finding_key(case, obs, mode):
    if mode not in _KNOWN:
        _classify_known(mode)
    return _KNOWN[mode].get(id(case))


def classify(case, obs):
    kinds = [s["op"][0] for s in case["steps"]]
    removed = any(o.get("ret") is True for o in obs.get("steps", []))
    if not removed or "regU" not in kinds:
        return None
    return (tuple(kinds[:12]), case.get("permit", "?"))


def kind(case, obs):
    n = len(case["steps"])
    return "%s/%s" % (case.get("permit", "corpus"), "short" if n <= 12 else "medium" if n <= 25 else "long")


def _py_op(op):
    if not _ev(op):
        return _py_op(_noev(op)) + "   # event=False"
    op = _noev(op)

    def v(x):
        return "None" if x is None else "c%d" % x[0]

    def req(l):
        return "(" + "".join(("None" if r is None else "S%d" % r) + ", " for r in l) + ")"

    def nm(n):
        return repr("" if n == 0 else "n%d" % n)

    def inf(i):
        return repr("" if i == 0 else "i%d" % i)

    k = op[0]
    if k == "reinit":
        return "reg.__init__('c16', bases=reg.__bases__)" if len(op) > 1 else "reg.__init__('c16')"
    if k == "uboth":
        return "reg.%sregisterUtility(%s, S%d, %s, factory=F%d)   # component and factory together" % (
            "un" if op[1] else "", v(op[2]), op[3], nm(op[4]), op[5])
    if k == "regU":
        return "reg.registerUtility(%s, S%d, %s, %s)%s" % (v(op[1]), op[2], nm(op[3]), inf(op[4]),
                                                           "" if op[6] == "plain" else "   # style=%s factory=%r" % (op[6], op[5]))
    if k == "unregU":
        return "reg.unregisterUtility(%s, S%d, %s)   # style=%s" % (v(op[1]), op[2], nm(op[3]), op[4])
    if k == "regA":
        return "reg.registerAdapter(%s, %s, S%d, %s, %s)   # style=%s" % (v(op[1]), req(op[2]), op[3], nm(op[4]), inf(op[5]), op[6])
    if k == "unregA":
        return "reg.unregisterAdapter(%s, %s, S%d, %s)   # style=%s" % (v(op[1]), req(op[2]), op[3], nm(op[4]), op[5])
    if k == "regS":
        return "reg.registerSubscriptionAdapter(%s, %s, S%d, %s, %s)   # style=%s" % (v(op[1]), req(op[2]), op[3], nm(op[4]), inf(op[5]), op[6])
    if k == "unregS":
        return "reg.unregisterSubscriptionAdapter(%s, %s, S%d, %s)   # style=%s" % (v(op[1]), req(op[2]), op[3], nm(op[4]), op[5])
    if k == "regH":
        return "reg.registerHandler(%s, %s, %s, %s)   # style=%s" % (v(op[1]), req(op[2]), nm(op[3]), inf(op[4]), op[5])
    return "reg.unregisterHandler(%s, %s, %s)   # style=%s" % (v(op[1]), req(op[2]), nm(op[3]), op[4])


def replay_text(case, obs, mode):
    lines = ["# PURE_PYTHON=%s ; zope.interface.registry.notify patched to record events; reg0 = Components('c0')" % ("1" if mode == "py" else "0"),
             "# S<k>: specification number k of the case's world (0 = Interface); c<v>: component/factory with identity v,",
             "# equality class %r, unhashable identities %r, falsy identities %r"
             % (POOL, case.get("unhashable", []), case.get("falsy", [])),
             "# falsy factory= objects: %r" % (case.get("falsy_factories", []),),
             ]
    for s, o in zip(case["steps"], obs.get("steps", [])):
        op = s["op"]
        if op[0] == "tamper":
            text = ("reg%d.utilities.unregister((), S%d, %r)" % (s.get("on", 0), op[2], "" if op[3] == 0 else "n%d" % op[3])
                    if op[1] == "unreg" else "reg%d.utilities.unsubscribe((), S%d, c%d)" % (s.get("on", 0), op[2], op[3][0]))
        elif op[0] == "rebuild":
            text = "reg%d.rebuildUtilityRegistryFromLocalCache(True)" % s.get("on", 0)
        elif op[0] == "newc":
            text = "reg%d = Components('c', bases=(%s))" % (o.get("on", 0), "".join("reg%d, " % b for b in op[1]))
        elif op[0] == "setbases":
            text = "reg%d.__bases__ = (%s)" % (op[1], "".join("reg%d, " % b for b in op[2]))
        else:
            text = _py_op(op).replace("reg.", "reg%d." % s.get("on", 0), 1)
        lines.append("%s   # -> %r events=%r" % (text, o.get("ret"), o.get("events")))
    return "\n".join(lines)


TECHNIQUE = ("fail-closed ast translator regenerating the bookkeeping kernels of registry.py as Gallina on every run, proved "
             "equal to the model; "
             "Coq proofs by induction over histories about a Gallina transcription of registry.py (Components, "
             "_UtilityRegistrations) on top of the shared adapter-registry model; refinement to a ledger Spec; "
             "vm_compute correspondence with both implementations and a ledger-only Spec oracle on their raw answers")
LEVEL_TEXT = ("The bookkeeping kernels of registry.py (_UnhashableComponentCounter, _UtilityRegistrations, the eight "
              "register/unregister methods with event=, four listings, rebuildUtilityRegistryFromLocalCache and the eight "
              "query methods of Components) are re-translated from the current source text into Gallina on every run by a "
              "fail-closed translator and proved equal to the model for all states and arguments (9 theorems "
              "C16_generated_*, incl. inferred = explicit arguments for arbitrary inference oracles). Objects connected by __bases__: listings stay local and queries follow the "
              "current base chain (C16_listings_local, C16_queries_follow_bases); rebuild=True repairs any tampered "
              "registry (C16_probe_repairs). "
              "Machine-checked theorems (Properties/C16.v, 25 theorems, closed under the global context) state for every "
              "history of the eight mutators and re-initialisation that the four listings equal the Spec ledger, that both "
              "underlying registries hold exactly what the listings determine and that their pruning structures never "
              "hide a stored registration, that queryUtility answers from the listings, that the probe finds nothing, that "
              "unregister calls return whether something was removed, that a replaced utility yields Unregistered then "
              "Registered and a no-op none; the full event clause is stated, refuted by two computed witnesses (F9, F11) "
              "and proved for all other calls. The model is compared with the C and Python builds after every call of "
              "generated histories, and the ledger-only Spec oracle judges the implementation's raw answers.")
LEVEL_NOTE = ("Trusted: Coq kernel/vm_compute; the hand transcription of registry.py and the shared Model/Adapter.v "
              "(validated by the correspondence on every run); query methods are tied to the listings at storage level "
              "and (utilities) lookup level only; most-specific-adapter / subscription order are C04/C07's theorems. "
              "Still hand-modelled (tied by the correspondence only): __init__ / __bases__ (_setBases), the "
              "_utility_registrations_cache property, the inference helpers; the registries behind the query methods "
              "are the uncached walkers over the current chain (caches / stored ro: C05, C06). Re-__init__ of an object "
              "that is still another object's base is outside the model. "
              "Inference of provided / required / name is covered at the kernel level for arbitrary oracle answers and "
              "exercised by the tie (implementer / directlyProvides, __component_adapts__, named()); pickling and "
              "subclasses overriding _init_registries / _getBases / _setBases are outside the model.")
