"""Shared generator / Coq emitter for registry histories (C04..C09, C05, C06, REG fidelity).

A case is {"specs": [...], "objects": [...], "ops": [...]} as understood by
harness/drivers/reg_common.py; the observation is {"specs": observed spec table,
"obj_provides": [...], "answers": [[int]...]}.
"""
from .. import common as C


# --------------------------------------------------------------------------- worlds

def gen_world(rng, n_ifaces=5, n_classes=2, n_objects=3, with_classes=True):
    """Interface DAG (spec 0 = Interface) + optionally ``object`` and some classes + objects."""
    specs = [{"kind": "root"}]
    ifaces = []
    for _ in range(n_ifaces):
        i = len(specs)
        k = rng.choice([0, 1, 1, 1, 2, 2, 3])
        bases = []
        pool = list(ifaces)
        rng.shuffle(pool)
        for b in pool[:k]:
            bases.append(b)
        bases = _consistent_bases(specs, bases)
        specs.append({"kind": "iface", "bases": bases})
        ifaces.append(i)
    classes = []
    objects = []
    if with_classes and n_classes:
        obj_spec = len(specs)
        specs.append({"kind": "object"})
        for _ in range(n_classes):
            i = len(specs)
            cb = [c for c in reversed(classes) if rng.random() < 0.5][:2]
            cb = [c for k, c in enumerate(cb) if not any(c in _cancestors(specs, d) for d in cb[:k] + cb[k + 1:])]
            impl = [x for x in ifaces if rng.random() < 0.35][:3]
            impl = _consistent_bases(specs, impl)
            specs.append({"kind": "class", "cbases": cb, "implements": impl, "only": False})
            classes.append(i)
        for _ in range(n_objects):
            c = rng.choice(classes)
            direct = [x for x in ifaces if rng.random() < 0.25][:2]
            direct = _consistent_bases(specs, direct)
            objects.append({"cls": c, "direct": direct})
    return {"specs": specs, "objects": objects}, ifaces, classes


def _ancestors(specs, x, acc=None):
    acc = set() if acc is None else acc
    for b in specs[x].get("bases", []):
        if b not in acc:
            acc.add(b)
            _ancestors(specs, b, acc)
    return acc


def _cancestors(specs, x, acc=None):
    acc = set() if acc is None else acc
    for b in specs[x].get("cbases", []):
        if b not in acc:
            acc.add(b)
            _cancestors(specs, b, acc)
    return acc


def _consistent_bases(specs, bases):
    """Drop a base that is an ancestor of a later-listed base (keeps most DAGs C3-consistent;
    inconsistent orders are C03's subject, registries only need *some* sro)."""
    out = []
    for i, b in enumerate(bases):
        later = bases[i + 1:]
        if any(b in _ancestors(specs, l) for l in later):
            continue
        if b not in out:
            out.append(b)
    return out


# --------------------------------------------------------------------------- Coq emission

def c_ospec(x):
    return "None" if x is None else "(Some %d)" % x


def c_value(v):
    return "(mkV %d %d)" % (v[0], v[1])


def c_ovalue(v):
    return "None" if v is None else "(Some %s)" % c_value(v)


def c_name_arg(n):
    return "NotAString" if n == "X" else "(NStr %d)" % n


def c_lnat(l):
    return "[" + "; ".join(str(x) for x in l) + "]"


def c_obj(world_obs, j, objects):
    o = objects[j]
    sup = "None" if "super_of" not in o else "(Some %d)" % o["super_of"]
    return "(mkObj %d %d %s)" % (world_obs["obj_provides"][j], j, sup)


def c_op(op, world_obs, objects):
    k = op[0]
    if k == "newreg":
        return "(ONewReg %s %s)" % ("Push" if op[1] == "push" else "Verifying", c_lnat(op[2]))
    if k == "setregbases":
        return "(OSetRegBases %d %s)" % (op[1], c_lnat(op[2]))
    req = lambda l: "[" + "; ".join(c_ospec(x) for x in l) + "]"   # noqa
    if k == "register":
        return "(ORegister %d %s %d %d %s)" % (op[1], req(op[2]), op[3], op[4], c_ovalue(op[5]))
    if k == "unregister":
        return "(OUnregister %d %s %d %d %s)" % (op[1], req(op[2]), op[3], op[4], c_ovalue(op[5]))
    if k == "subscribe":
        return "(OSubscribe %d %s %s %s)" % (op[1], req(op[2]), c_ospec(op[3]), c_value(op[4]))
    if k == "unsubscribe":
        return "(OUnsubscribe %d %s %s %s)" % (op[1], req(op[2]), c_ospec(op[3]), c_ovalue(op[4]))
    if k == "rebuild":
        return "(ORebuild %d)" % op[1]
    if k == "lookup":
        return "(QLookup %d %s %d %s)" % (op[1], c_lnat(op[2]), op[3], c_name_arg(op[4]))
    if k == "lookup1":
        return "(QLookup1 %d %d %d %s)" % (op[1], op[2], op[3], c_name_arg(op[4]))
    if k == "lookupAll":
        return "(QLookupAll %d %s %d)" % (op[1], c_lnat(op[2]), op[3])
    if k == "names":
        return "(QNames %d %s %d)" % (op[1], c_lnat(op[2]), op[3])
    if k == "subscriptions":
        return "(QSubscriptions %d %s %s)" % (op[1], c_lnat(op[2]), c_ospec(op[3]))
    if k == "registered":
        return "(QRegistered %d %s %d %d)" % (op[1], req(op[2]), op[3], op[4])
    if k == "subscribed":
        return "(QSubscribed %d %s %s %s)" % (op[1], req(op[2]), c_ospec(op[3]), c_value(op[4]))
    if k == "allRegistrations":
        return "(QAllRegistrations %d)" % op[1]
    if k == "allSubscriptions":
        return "(QAllSubscriptions %d)" % op[1]
    if k == "queryAdapter":
        return "(QQueryAdapter %d %s %d %s)" % (op[1], c_obj(world_obs, op[2], objects), op[3], c_name_arg(op[4]))
    if k == "adapter_hook":
        return "(QAdapterHook %d %s %d %s)" % (op[1], c_obj(world_obs, op[2], objects), op[3], c_name_arg(op[4]))
    if k == "queryMultiAdapter":
        return "(QQueryMultiAdapter %d %s %d %s)" % (
            op[1], "[" + "; ".join(c_obj(world_obs, j, objects) for j in op[2]) + "]", op[3], c_name_arg(op[4]))
    if k == "subscribers":
        return "(QSubscribers %d %s %s)" % (
            op[1], "[" + "; ".join(c_obj(world_obs, j, objects) for j in op[2]) + "]", c_ospec(op[3]))
    raise ValueError(k)


def c_graph(world_obs):
    return "[" + "; ".join("(%d, %s)" % (i, c_lnat(s["bases"])) for i, s in enumerate(world_obs["specs"])) + "]"


def c_ifaces(world_obs):
    return "[" + "; ".join("true" if s["kind"] in ("iface", "root") else "false" for s in world_obs["specs"]) + "]"


def c_answers(ans):
    return "[" + "; ".join(c_lnat(a) for a in ans) + "]"


def coq_hist_case(case, obs):
    """Coq term of type Tie.RegCommon.hist_case."""
    ops = "[" + ";\n    ".join(c_op(op, obs, case.get("objects", [])) for op in case["ops"]) + "]"
    return "(%s, %s,\n   %s,\n   %s)" % (c_graph(obs), c_ifaces(obs), ops, c_answers(obs["answers"]))


# --------------------------------------------------------------------------- histories

def gen_value(rng, nvals=5):
    vid = rng.randrange(1, nvals + 1)
    # equality classes: values 1,2 are equal-but-distinct; the others only equal themselves
    veq = 1 if vid in (1, 2) else vid
    return [vid, veq]


def gen_req(rng, pool, arity, none_ok=True):
    out = []
    for _ in range(arity):
        if none_ok and rng.random() < 0.12:
            out.append(None)
        else:
            out.append(rng.choice(pool))
    return out


class Rel:
    """ancestor / descendant relation of the generated world (spec ids), for targeted keys"""

    def __init__(self, world):
        specs = world["specs"]
        self.n = len(specs)
        self.anc = {}
        obj = [i for i, sp in enumerate(specs) if sp["kind"] == "object"]
        for i, sp in enumerate(specs):
            k = sp["kind"]
            if k == "iface":
                ds = list(sp["bases"]) or [0]
            elif k == "class":
                ds = list(sp["implements"]) + list(sp["cbases"]) + ([] if sp["cbases"] else obj)
            elif k == "object":
                ds = [0]
            else:
                ds = []
            a = {i, 0}
            for d in ds:
                a |= self.anc[d]
            self.anc[i] = a

    def ancestors(self, x):            # x and everything it extends (incl. Interface)
        return sorted(self.anc[x])

    def descendants(self, x):          # x and everything extending it
        return [i for i in range(self.n) if x in self.anc[i]]


def gen_history(rng, world, ifaces, classes, n_ops=20, flavours=("push", "verifying"), n_regs=None,
                weights=None, rebase=True, max_arity=2, targeted=0.75):
    """A mixed history over a registry DAG of one flavour.  With probability [targeted] a query is
    derived from an earlier registration/subscription (required positions replaced by random
    descendants, provided by a random ancestor, same name) and a registration is derived from an
    earlier one by moving one required position up or down the hierarchy, so that several
    applicable candidates compete."""
    rel = Rel(world)
    fl = rng.choice(list(flavours))
    n_regs = n_regs or rng.choice([1, 2, 3, 3, 4])
    ops = []
    for r in range(n_regs):
        bs = [b for b in range(r) if rng.random() < 0.6][-2:]
        bs.reverse()
        ops.append(["newreg", fl, bs])
    key_pool = list(ifaces) + list(classes) + [0]
    look_pool = list(ifaces) + list(classes)
    nobj = len(world.get("objects", []))
    w = {"register": 6, "unregister": 3, "subscribe": 4, "unsubscribe": 2, "rebuild": 0, "setregbases": 1 if rebase else 0,
         "lookup": 5, "lookup1": 2, "lookupAll": 2, "names": 1, "subscriptions": 3, "registered": 1,
         "subscribed": 1, "allRegistrations": 0.5, "allSubscriptions": 0.5,
         "queryAdapter": 2 if nobj else 0, "adapter_hook": 1 if nobj else 0,
         "queryMultiAdapter": 1 if nobj else 0, "subscribers": 1 if nobj else 0}
    if weights:
        w.update(weights)
    kinds = list(w)
    ws = [w[k] for k in kinds]
    names = [0, 0, 0, 1, 2]
    regs_seen = []     # (req, provided, name)
    subs_seen = []     # (req, provided-or-None)

    def conv(x):
        return 0 if x is None else x

    def derive_req(req):
        out = list(req)
        if out and rng.random() < 0.8:
            j = rng.randrange(len(out))
            x = conv(out[j])
            cand = rel.ancestors(x) if rng.random() < 0.5 else rel.descendants(x)
            cand = [c for c in cand if c in key_pool] or [x]
            out[j] = rng.choice(cand)
        return out

    def look_req(req):
        return [rng.choice([d for d in rel.descendants(conv(x)) if d in look_pool] or look_pool) for x in req]

    for _ in range(n_ops):
        k = rng.choices(kinds, ws)[0]
        r = rng.randrange(n_regs)
        ar = min(rng.choice([0, 1, 1, 1, 2, 2, 3]), max_arity)
        tgt = rng.random() < targeted
        if k == "register":
            v = gen_value(rng) if rng.random() > 0.08 else None
            if tgt and regs_seen:
                req0, p0, n0 = rng.choice(regs_seen)
                req = derive_req(req0)
                p = rng.choice([x for x in rel.ancestors(p0) + rel.descendants(p0) if x in ifaces] or [p0])
                nm = n0 if rng.random() < 0.8 else rng.choice(names)
            else:
                req, p, nm = gen_req(rng, key_pool, ar), rng.choice(ifaces), rng.choice(names)
            regs_seen.append((req, p, nm))
            ops.append([k, r, req, p, nm, v])
        elif k == "unregister":
            v = gen_value(rng) if rng.random() < 0.5 else None
            if tgt and regs_seen:
                req, p, nm = rng.choice(regs_seen)
            else:
                req, p, nm = gen_req(rng, key_pool, ar), rng.choice(ifaces), rng.choice(names)
            ops.append([k, r, req, p, nm, v])
        elif k == "subscribe":
            if tgt and subs_seen:
                req0, p0 = rng.choice(subs_seen)
                req = derive_req(req0)
                p = p0 if (p0 is None or rng.random() < 0.5) else rng.choice(
                    [x for x in rel.ancestors(p0) + rel.descendants(p0) if x in ifaces] or [p0])
            else:
                req = gen_req(rng, key_pool, ar)
                p = rng.choice(ifaces) if rng.random() > 0.2 else None
            subs_seen.append((req, p))
            ops.append([k, r, req, p, gen_value(rng)])
        elif k == "unsubscribe":
            v = gen_value(rng) if rng.random() < 0.6 else None
            if tgt and subs_seen:
                req, p = rng.choice(subs_seen)
            else:
                req = gen_req(rng, key_pool, ar)
                p = rng.choice(ifaces) if rng.random() > 0.2 else None
            ops.append([k, r, req, p, v])
        elif k == "rebuild":
            ops.append([k, r])
        elif k == "setregbases":
            cand = [b for b in range(n_regs) if b < r]
            rng.shuffle(cand)
            bs = sorted(cand[: rng.choice([0, 1, 1, 2])], reverse=True)
            ops.append([k, r, bs])
        elif k in ("lookup", "lookupAll", "names", "lookup1"):
            if tgt and regs_seen:
                req0, p0, n0 = rng.choice(regs_seen)
                req = look_req(req0)
                p = rng.choice([x for x in rel.ancestors(p0) if x in ifaces or x == 0])
                nm = n0
            else:
                req = [rng.choice(look_pool) for _ in range(ar)]
                p, nm = rng.choice(ifaces + [0]), rng.choice(names)
            if rng.random() < 0.03:
                nm = "X"
            if k == "lookup":
                ops.append([k, r, req, p, nm])
            elif k == "lookup1":
                ops.append([k, r, req[0] if req else rng.choice(look_pool), p, nm])
            else:
                ops.append([k, r, req, p])
        elif k == "subscriptions":
            if tgt and subs_seen:
                req0, p0 = rng.choice(subs_seen)
                req = look_req(req0)
                p = None if p0 is None else rng.choice([x for x in rel.ancestors(p0) if x in ifaces or x == 0])
            else:
                req = [rng.choice(look_pool) for _ in range(ar)]
                p = rng.choice(ifaces + [0]) if rng.random() > 0.2 else None
            ops.append([k, r, req, p])
        elif k == "registered":
            if tgt and regs_seen:
                req, p, nm = rng.choice(regs_seen)
            else:
                req, p, nm = gen_req(rng, key_pool, ar), rng.choice(ifaces), rng.choice(names)
            ops.append([k, r, req, p, nm])
        elif k == "subscribed":
            if tgt and subs_seen:
                req, p = rng.choice(subs_seen)
            else:
                req = gen_req(rng, key_pool, ar)
                p = rng.choice(ifaces) if rng.random() > 0.2 else None
            ops.append([k, r, req, p, gen_value(rng)])
        elif k in ("allRegistrations", "allSubscriptions"):
            ops.append([k, r])
        elif k in ("queryAdapter", "adapter_hook"):
            nm = rng.choice(names) if rng.random() > 0.03 else "X"
            p = rng.choice(ifaces + [0])
            if tgt and regs_seen:
                _req0, p0, nm = rng.choice(regs_seen)
                p = rng.choice([x for x in rel.ancestors(p0) if x in ifaces or x == 0])
            ops.append([k, r, rng.randrange(nobj), p, nm])
        elif k == "queryMultiAdapter":
            nm = rng.choice(names) if rng.random() > 0.03 else "X"
            p = rng.choice(ifaces + [0])
            n_o = max(ar, 1)
            if tgt and regs_seen:
                req0, p0, nm = rng.choice(regs_seen)
                p = rng.choice([x for x in rel.ancestors(p0) if x in ifaces or x == 0])
                n_o = len(req0)
            ops.append([k, r, [rng.randrange(nobj) for _ in range(n_o)], p, nm])
        elif k == "subscribers":
            p = rng.choice(ifaces + [0]) if rng.random() > 0.2 else None
            n_o = max(ar, 1)
            if tgt and subs_seen:
                req0, p0 = rng.choice(subs_seen)
                n_o = len(req0)
                p = None if p0 is None else rng.choice([x for x in rel.ancestors(p0) if x in ifaces or x == 0])
            ops.append([k, r, [rng.randrange(nobj) for _ in range(n_o)], p])
    return ops
