"""C19 — super() proxies see only the remainder of the MRO (DESIGN.md section 5, C19)."""
import json
import os
import re
from .. import common as C
from . import regcommon as RC

ID = "C19"
COQ_TARGETS = ["Tie/C19.vo", "Properties/C19.vo"]
PROPERTY_FILE = "Properties/C19.v"
TIE = "Tie.C19"
DRIVER = "c19_driver.py"
SHARD = 40
THEOREMS = [
    "C19_mro_is_c3", "C19_super_spec_exact", "C19_super_excludes_self_and_earlier",
    "C19_super_without_remainder_raises", "C19_super_ignores_instance_declarations",
    "C19_super_cache_transparent", "C19_earlier_queries_irrelevant",
    "C19_implementedBy_eq_providedBy_on_super", "C19_super_adaptation", "C19_super_multi_adaptation",
    "C19_super_adapter_selected", "C19_flat_semantics", "C19_notified_exactly_dependents",
    "C19_histories_keep_specs_acyclic", "C19_class_bound_same_as_instance_bound", "C19_class_bound_spec_exact",
    "C19_class_bound_adapter_selected", "C19_unbound_proxy_is_empty",
    "C19_generated_next_super_class_eq_model", "C19_generated_implementedBy_super_eq_model",
    "C19_generated_changed_eq_model", "C19_generated_entry_points_eq_model",
    "C19_generated_adapter_hook_eq_model", "C19_generated_queryMultiAdapter_eq_model",
    "C19_generated_c_implementedBy_eq_model", "C19_generated_c_providedBy_eq_model",
    "C19_generated_c_adapter_hook_eq_model",
]
GEN_C_FILE = os.path.join(C.COQ, "Gen", "SuperC.v")
GEN_FILE = os.path.join(C.COQ, "Gen", "SuperKernel.v")


def regenerate(run):
    """Re-translate the super kernel (declarations.py: _next_super_class, _implementedBy_super,
    Implements.changed, the super branches of implementedBy / providedBy; adapter.py: adapter_hook,
    queryMultiAdapter) into coq/Gen/SuperKernel.v, fail closed.  When the translator refuses the
    current text the pinned kernel is written instead, so that Properties/C19.v still compiles,
    and the refusal is returned as a broken obligation."""
    from ..translate import super_kernel as T
    src = os.path.join(C.REPO, "src", "zope", "interface")
    errs = []
    try:
        text = T.translate_files(os.path.join(src, "declarations.py"), os.path.join(src, "adapter.py"))
    except Exception as e:  # noqa: TranslationError, SyntaxError, OSError -- refuse, report, keep the pipeline alive
        text = T.pinned()
        errs.append("harness/translate/super_kernel.py refused the current declarations.py / adapter.py (%s: %s); "
                    "coq/Gen/SuperKernel.v holds the pinned kernel, so the C19_generated_*_eq_model theorems are "
                    "NOT about the current source" % (type(e).__name__, e))
    # the C twins: data-level kernel (which object is tested / unwrapped / passed on)
    from ..translate import super_c as TC
    c_ok = True
    try:
        ctext = TC.extract(C.REPO)
    except Exception as e:  # noqa: Abort, OSError ...
        ctext = TC.PINNED
        c_ok = False
        errs.append("harness/translate/super_c.py refused the current _zope_interface_coptimizations.c (%s: %s); "
                    "coq/Gen/SuperC.v holds the pinned kernel, so the C19_generated_c_*_eq_model theorems are NOT "
                    "about the current source" % (type(e).__name__, e))
    with C.CoqLock():
        C.write_if_changed(GEN_FILE, text)
        C.write_if_changed(GEN_C_FILE, ctext)
    run.coverage["translated_kernel"] = {"source": src, "generated": "coq/Gen/SuperKernel.v, coq/Gen/SuperC.v",
                                         "ok": not errs,
                                         "c_ok": c_ok}
    # the Tie (model + Spec oracle) does not depend on the generated kernel and must exist even when
    # the equality proofs over a changed kernel fail
    ok, out = C.coq_make(["Tie/C19.vo"])
    if not ok:
        errs.append("Tie/C19.vo does not build:\n" + out[-2000:])
    return errs


RULE = ("class DAGs of 1-6 classes above object (chains, diamonds, mixins without declarations, "
        "implementer_only classes) over 2-5 interfaces, 1-3 instances with direct declarations; "
        "every (C, ob) along every MRO is queried with providedBy, implementedBy and I.providedBy "
        "before and after declaration changes on classes of the MRO (query, change, query again), "
        "and adapted through queryAdapter / adapter_hook / queryMultiAdapter of a real AdapterRegistry. "
        "A case is non-trivial when a super answer omits an interface the instance provides and a "
        "declaration changed on a class strictly after some already queried C; distinct = distinct "
        "(diamond?, undeclared mixin?, only-class?, change-after-warm below an only class?, "
        "adaptation hit/miss pattern, #classes) signature")
TRUSTED_BASE = [
    "harness/translate/super_kernel.py (fail-closed ast translator) and its vocabulary coq/Model/SuperPrims.v: "
    "one total function per accepted Python construct; harness/translate/super_c.py (template match over C11's "
    "tokeniser) and coq/Model/SuperCPrims.v for the C twins (reference counting not translated: C11); "
    "Specification.changed's walk over the dependents is tied by the correspondence only",
    "Model/Ro.v C3 resolver as Python's MRO (validated against every class's real __mro__ on every run)",
    "content of a specification = recomputation from the live declarations (property C02: change propagation "
    "keeps the cached __sro__/_implied equal to it); order inside __iro__ not modelled",
    "set-level reading of the uncached registry lookup (the tie registers adapters under pairwise different names)",
]
ASSUMPTIONS = ["interface __bases__ are not changed during a history",
               "a class declares another class's specification only if that class was created before it "
               "(declaring a subclass's specification makes the specification graph cyclic; the real code recurses)",
               "re-basing a class (K.__bases__ = ...) is not a declaration change and lies outside the quantifier: "
               "implementedBy(K) is not notified, keeps the specifications of the old bases, and cached super "
               "specifications keep the old remainder of the MRO (replay: corpus/C19/class_rebase_outside_quantifier.py); "
               "not generated, not judged",
               "subscribers() hands the objects over as they are (no unwrapping in adapter.py); it is exercised on "
               "instance-bound proxies by the shared registry stream only"]


# --------------------------------------------------------------------------- generator

def c3(bases_of, c, memo):
    """Python's MRO of class c, or None when there is none."""
    if c in memo:
        return memo[c]
    bs = bases_of[c]
    seqs = []
    for b in bs:
        m = c3(bases_of, b, memo)
        if m is None:
            memo[c] = None
            return None
        seqs.append(list(m))
    seqs.append(list(bs))
    out = [c]
    seqs = [s for s in seqs if s]
    while seqs:
        for s in seqs:
            h = s[0]
            if not any(h in t[1:] for t in seqs):
                break
        else:
            memo[c] = None
            return None
        out.append(h)
        seqs = [[x for x in s if x != h] for s in seqs]
        seqs = [s for s in seqs if s]
    memo[c] = out
    return out


SHAPES = [
    # (bases of class 1..n); 0 = object
    [[0], [1], [1], [2, 3]],                       # diamond
    [[0], [1], [1], [2, 3], [0], [4, 5]],          # diamond + mixin at the bottom
    [[0], [0], [1, 2]],                            # two roots
    [[0], [1], [2], [3]],                          # chain
    [[0], [0], [1], [1, 2], [3, 4]],               # mixin inside a diamond
    [[0], [1], [1], [1], [2, 3], [5, 4]],          # wide diamond
    [[0], [0], [0], [1, 2], [2, 3], [4, 5]],       # overlapping diamonds
]


def gen_classes(rng):
    if rng.random() < 0.5:
        return [list(b) for b in rng.choice(SHAPES)]
    for _ in range(50):
        n = rng.choice([2, 3, 4, 5, 6, 6])
        bases_of = {0: []}
        ok = True
        for c in range(1, n + 1):
            k = rng.choice([1, 1, 2, 2, 3])
            pool = list(range(1, c))
            rng.shuffle(pool)
            bs = pool[:k] or [0]
            bases_of[c] = bs
            if c3(bases_of, c, {}) is None:
                # drop bases that are ancestors of other bases, most derived first
                bs2 = sorted(set(bs), reverse=True)
                bases_of[c] = bs2
                if c3(bases_of, c, {}) is None:
                    bases_of[c] = [bs2[0]]
        if ok:
            return [bases_of[c] for c in range(1, n + 1)]
    return [[0]]


def gen_ifaces(rng):
    n = rng.choice([2, 3, 4, 5])
    out = []
    for i in range(1, n + 1):
        pool = list(range(1, i))
        rng.shuffle(pool)
        bs = pool[:rng.choice([0, 0, 1, 1, 2])]
        # drop a base that another listed base already extends
        anc = {}
        for j in range(1, i):
            a = {j}
            for b in out[j - 1]:
                a |= anc[b]
            anc[j] = a
        bs = [b for b in bs if not any(b != o and b in anc[o] for o in bs)]
        out.append(bs)
    return out


# builtin types as the first classes of a world: (name, bases) chains; class 0 is ``object``
FAMILIES = {
    "bytearray": [("bytearray", [0])],
    "dict": [("dict", [0])],
    "list": [("list", [0])],
    "exc": [("BaseException", [0]), ("Exception", [1]), ("ValueError", [2])],
    "type": [("type", [0])],              # heap classes deriving from it are metaclasses
}


def gen_builtin_classes(rng, fam):
    """the builtin chain followed by 2-4 heap classes, some deriving from a builtin of the chain, some
    plain mixins; a valid C3 order throughout"""
    chain = FAMILIES[fam]
    k = len(chain)
    for _ in range(200):
        bases_of = {0: []}
        for i, (_n, bs) in enumerate(chain):
            bases_of[i + 1] = list(bs)
        n_heap = rng.choice([2, 3, 3, 4])
        ok = True
        for c in range(k + 1, k + n_heap + 1):
            heap = list(range(k + 1, c))
            r = rng.random()
            if c == k + 1 or r < 0.35:
                bs = [rng.randrange(1, k + 1) if rng.random() < 0.8 else k]       # a builtin of the chain
                if heap and rng.random() < 0.4:
                    bs = [rng.choice(heap)] + bs if rng.random() < 0.5 else bs + [rng.choice(heap)]
            elif r < 0.5:
                bs = [0]                                                            # a plain mixin
            else:
                rng.shuffle(heap)
                bs = heap[:rng.choice([1, 1, 2])]
                if rng.random() < 0.3:
                    bs.append(k)
            bases_of[c] = bs
            if len(set(bs)) != len(bs) or c3(bases_of, c, {}) is None:
                ok = False
                break
        if ok:
            return [bases_of[c] for c in range(1, k + n_heap + 1)], {str(i + 1): n for i, (n, _b) in enumerate(chain)}
    raise C.HarnessError("could not generate a class DAG over the %s family" % fam)


def gen_case(rng, tier):
    ifaces = gen_ifaces(rng)
    fam = rng.choice(sorted(FAMILIES)) if rng.random() < 0.35 else None
    builtins = {}
    if fam:
        classes, builtins = gen_builtin_classes(rng, fam)
    else:
        classes = gen_classes(rng)
    nb = len(builtins)                     # classes 1..nb are builtin types
    no_decl = {int(i) for i, n in builtins.items() if n == "type"}      # process-global and pre-existing: never declared on
    ni, nc = len(ifaces), len(classes)
    bases_of = {0: []}
    for k, bs in enumerate(classes):
        bases_of[k + 1] = bs
    memo = {}
    mro = {c: c3(bases_of, c, memo) for c in bases_of}
    assert all(m is not None for m in mro.values())
    some_ifaces = lambda k: rng.sample(range(1, ni + 1), min(k, ni))   # noqa
    # instances: mostly of the most derived classes; [class, direct, falsy?, own __implemented__, is a class object?]
    objects = []
    leaves = sorted(range(nb + 1, nc + 1), key=lambda c: -len(mro[c]))
    for _ in range(rng.choice([1, 2, 2, 3])):
        c = leaves[0] if rng.random() < 0.6 else rng.choice(leaves)
        meta = fam == "type" and any(builtins.get(str(x)) == "type" for x in mro[c])
        # an instance of a metaclass is a class object; an instance may carry its own __implemented__
        # (``implementer(IX)(ob)`` on a factory instance, ``classImplements(Klass, IX)`` on a class object)
        own = some_ifaces(rng.choice([1, 1, 2])) if rng.random() < (0.7 if meta else 0.4) else None
        objects.append([c, [] if meta else some_ifaces(rng.choice([0, 1, 1, 2])), False, own, meta])
    falsy = None
    if not fam and rng.random() < 0.3:
        # instances that are false in a boolean context (empty containers, __bool__ False): the
        # underlying object of a proxy must reach the factory whatever its truth value
        falsy = rng.choice(["len", "bool"])
        for o in objects:
            o[2] = rng.random() < 0.7
    ops = []
    # initial declarations; some classes stay undeclared mixins, some are *only* classes
    for c in range(1, nc + 1):
        r = rng.random()
        if r < 0.3 or c in no_decl:
            continue
        if r < 0.45:
            ops.append(["only", c, some_ifaces(rng.choice([0, 1, 2]))])
        else:
            ops.append(["impl", c, some_ifaces(rng.choice([1, 1, 2]))])
        if c > 1 and rng.random() < 0.12:
            ops.append(["implspec", c, rng.randrange(1, c)])      # classImplements(c, implementedBy(b)), b older
    names = [rng.choice([-1, 0])]       # pairwise different names; name 0 is the empty string

    def reg():
        ar = 1 if rng.random() < 0.8 else 2
        req = [rng.choice(range(0, ni + 1)) for _ in range(ar)]
        names[0] += 1
        ops.append(["reg", req, rng.choice(range(1, ni + 1)), names[0], names[0] + 1])
        return [req, names[0]]

    regs = [reg() for _ in range(rng.choice([1, 2, 3]))]

    def sweep(p_each=1.0):
        for j, t in enumerate(o[0] for o in objects):
            for cc in mro[t]:
                if cc == 0 and rng.random() < 0.8:
                    continue
                if rng.random() > p_each:
                    continue
                ops.append(["prov", ["super", cc, j]])
                if rng.random() < 0.5:
                    ops.append(["implby", ["super", cc, j]])
            if rng.random() < 0.5 and not objects[j][4]:
                ops.append(["prov", ["obj", j]])
        # class-bound proxies super(C, T) for classes with and without instances
        for t in range(1, nc + 1):
            if rng.random() < 0.35:
                for cc in mro[t]:
                    if cc == 0 and rng.random() < 0.8:
                        continue
                    if rng.random() < 0.6:
                        ops.append([rng.choice(["prov", "prov", "implby"]), ["superc", cc, t]])
        # unbound proxies super(C)
        if rng.random() < 0.3:
            ops.append([rng.choice(["prov", "implby"]), ["unbound", rng.randrange(0, nc + 1)]])

    def adapts(k):
        for _ in range(k):
            req, nm = rng.choice(regs)
            j = rng.randrange(len(objects))
            t = objects[j][0]
            cc = rng.choice(mro[t][:-1])
            p = rng.choice(range(0, ni + 1))
            def proxy(j_, cc_):
                r_ = rng.random()
                if r_ < 0.25:
                    return ["superc", cc_, objects[j_][0]]          # bound to the class object
                if r_ < 0.33:
                    return ["unbound", cc_]                         # stands for no object at all
                return ["super", cc_, j_]
            if len(req) == 1:
                via = rng.choice(["qa", "hook", "multi"])
                a = proxy(j, cc) if rng.random() < 0.85 or objects[j][4] else ["obj", j]
                ops.append(["adapt", via, [a], p, nm])
            else:
                j2 = rng.randrange(len(objects))
                a1 = proxy(j, cc)
                a2 = (["obj", j2] if rng.random() < 0.5 and not objects[j2][4]
                      else proxy(j2, rng.choice(mro[objects[j2][0]][:-1])))
                pair = [a1, a2] if rng.random() < 0.5 else [a2, a1]
                ops.append(["adapt", "multi", pair, p, nm])
            if rng.random() < 0.5:
                # the same adaptation again, nothing changed in between: the registry answers from its cache
                ops.append(json.loads(json.dumps(ops[-1])))
            elif rng.random() < 0.4:
                # ... or after the registry changed (its lookup caches are flushed and the specifications
                # it had subscribed to - the shared empty declaration among them - are let go)
                again = json.loads(json.dumps(ops[-1]))
                regs.append(reg())
                ops.append(again)

    def change():
        j = rng.randrange(len(objects))
        m = mro[objects[j][0]]
        c = rng.choice(m[:-1]) if rng.random() < 0.85 else rng.randrange(1, nc + 1)
        if c in no_decl:
            c = objects[j][0]
        r = rng.random()
        if r < 0.18 and c > 1:
            ops.append(["implspec", c, rng.randrange(1, c)])
        elif r < 0.6:
            ops.append(["impl", c, some_ifaces(rng.choice([1, 1, 2]))])
        elif r < 0.8:
            ops.append(["only", c, some_ifaces(rng.choice([0, 1, 2]))])
        else:
            ops.append(["first", c, rng.choice(range(0, ni + 1))])

    # observers: dependents subscribed to implementedBy(type(ob)) that look at super(C, ob) DURING the
    # change notification; held specifications: results of earlier queries looked at again later
    observe = []
    if rng.random() < 0.35:
        for j in rng.sample(range(len(objects)), min(len(objects), rng.choice([1, 1, 2]))):
            m = mro[objects[j][0]][:-1]
            observe.append([j, rng.sample(m, min(len(m), rng.choice([1, 2, 3])))])

    def held():
        cands = [i for i, o in enumerate(ops) if o[0] in ("prov", "implby") and o[1][0] in ("super", "superc")
                 and o[1][1] != 0]
        for i in rng.sample(cands, min(len(cands), rng.choice([1, 2, 3]))):
            ops.append(["held", i])

    sweep()
    adapts(rng.choice([1, 2, 3]))
    rounds = rng.choice([1, 2, 3]) if tier == "quick" else rng.choice([2, 3, 4, 5])
    for _ in range(rounds):
        for _ in range(rng.choice([1, 1, 2, 3])):
            change()
        if rng.random() < 0.4:
            held()                           # before anything asks again: nothing but the notification refreshed them
        if rng.random() < 0.3:
            regs.append(reg())
        if rng.random() < 0.5:
            adapts(rng.choice([1, 2]))       # adaptation first: the registry itself meets the cold cache
        sweep(rng.choice([1.0, 1.0, 0.5]))
        adapts(rng.choice([1, 2]))
    case = {"ifaces": ifaces, "classes": classes, "objects": objects, "ops": ops}
    if falsy:
        case["falsy"] = falsy
    if builtins:
        case["builtins"] = builtins
    if observe:
        case["observe"] = observe
    if rng.random() < 0.3:
        # every proxy of the case is an instance of a subclass of ``super`` (plain, with extra attributes
        # and a method, with __slots__): a super proxy all the same
        case["supercls"] = rng.choice(["plain", "attrs", "slots"])
    return case


def gen_reg_case(rng):
    """A registry history over a static world with super proxies, for the shared ordered registry
    model (harness/drivers/reg_common.py, Tie/RegCommon.v)."""
    for _ in range(100):
        world, ifaces, classes = RC.gen_world(rng, n_ifaces=rng.choice([3, 4]), n_classes=rng.choice([2, 3, 4]),
                                              n_objects=2)
        specs = world["specs"]
        obj_spec = [i for i, sp in enumerate(specs) if sp["kind"] == "object"][0]
        bases_of = {obj_spec: []}
        for i, sp in enumerate(specs):
            if sp["kind"] == "class":
                bases_of[i] = list(sp["cbases"]) or [obj_spec]
                if rng.random() < 0.2:
                    sp["only"] = True
        memo = {}
        mro = {c: c3(bases_of, c, memo) for c in bases_of}
        if any(m is None for m in mro.values()):
            continue
        objects = world["objects"]
        for j in range(len(objects)):
            for cc in mro[objects[j]["cls"]][:-1]:
                if rng.random() < 0.7 and len(objects) < 8:
                    objects.append({"super_of": j, "at": cc})
        if not any("super_of" in o for o in objects):
            continue
        world["ops"] = RC.gen_history(
            rng, world, ifaces, classes, n_ops=rng.choice([12, 20]), n_regs=rng.choice([1, 1, 2]), rebase=False,
            weights={"register": 8, "unregister": 1, "subscribe": 3, "unsubscribe": 0.3, "rebuild": 0.1,
                     "lookup": 1, "lookup1": 0.5, "lookupAll": 0.5, "names": 0.2, "subscriptions": 0.3,
                     "registered": 0.2, "subscribed": 0.1, "allRegistrations": 0.1, "allSubscriptions": 0.1,
                     "queryAdapter": 5, "adapter_hook": 4, "queryMultiAdapter": 4, "subscribers": 3})
        world["kind"] = "reg"
        return world
    raise C.HarnessError("could not generate a registry world with super proxies")


def generate(run, tier):
    rng = run.rng("gen")
    n = 260 if tier == "quick" else 4000
    cases = [gen_case(rng, tier) for _ in range(n)]
    rng2 = run.rng("reg")
    cases += [gen_reg_case(rng2) for _ in range(60 if tier == "quick" else 800)]
    return cases


# --------------------------------------------------------------------------- Coq emission

def _lnat(l):
    return "[" + "; ".join(str(x) for x in l) + "]"


def _arg(a):
    if a[0] == "obj":
        return "(AObj %d)" % a[1]
    if a[0] == "superc":
        return "(ASuperC %d %d)" % (a[1], a[2])
    if a[0] == "unbound":
        return "(AUnbound %d)" % a[1]
    return "(ASuper %d %d)" % (a[1], a[2])


VIA = {"qa": "ViaQueryAdapter", "hook": "ViaAdapterHook", "multi": "ViaMulti"}


def _op(op):
    k = op[0]
    if k == "impl":
        return "(OImplements %d %s)" % (op[1], _lnat(op[2]))
    if k == "only":
        return "(OOnly %d %s)" % (op[1], _lnat(op[2]))
    if k == "first":
        return "(OFirst %d %d)" % (op[1], op[2])
    if k == "implspec":
        return "(OImplSpec %d %d)" % (op[1], op[2])
    if k == "prov":
        return "(OProvidedBy %s)" % _arg(op[1])
    if k == "implby":
        return "(OImplementedBy %s)" % _arg(op[1])
    if k == "reg":
        return "(ORegister (mkR %s %d %d (mkV %d %d)))" % (_lnat(op[1]), op[2], op[3], op[4], op[4])
    if k == "adapt":
        return "(OAdapt %s [%s] %d %d)" % (VIA[op[1]], "; ".join(_arg(a) for a in op[2]), op[3], op[4])
    raise ValueError(k)


def _judged_firings(case, obs, k):
    """What the observers saw during operation k, as (arg, answer, I.providedBy set) of ordinary
    providedBy queries made right after it.  Kept only where the code as pinned is coherent in the middle
    of a notification pass: an ADDITIVE declaration on a class X strictly after C in type(ob)'s MRO (the
    specification of X is recomputed before anything hears about it and is itself a base of the proxy's
    specification; what other classes still show is a subset of the final answer).  classImplementsOnly
    notifies twice with an empty intermediate state and is not judged."""
    op = case["ops"][k]
    out = []
    if op[0] not in ("impl", "first", "implspec"):
        return out
    for j, c, a, ip in (obs.get("fired") or [[]] * len(case["ops"]))[k]:
        m = obs["mros"][case["objects"][j][0]]
        if a[:1] == [1] and c in m and op[1] in m[m.index(c) + 1:]:
            out.append((["super", c, j], a, ip))
    return out


def _env(case):
    cg = ["(0, [])"] + ["(%d, %s)" % (k + 1, _lnat(bs)) for k, bs in enumerate(case["classes"])]
    ig = ["(%d, %s)" % (k + 1, _lnat(bs)) for k, bs in enumerate(case["ifaces"])]
    objs = ["(%d, %s)" % (o[0], _lnat(o[1])) for o in case["objects"]]
    return "(mkEnv [%s] [%s] [%s])" % ("; ".join(cg), "; ".join(ig), "; ".join(objs))


_REGSYS = re.compile(r"\b(ONewReg|OSetRegBases|ORegister|OUnregister|OSubscribe|OUnsubscribe|ORebuild|QLookup1|"
                     r"QLookupAll|QLookup|QNames|QSubscriptions|QRegistered|QSubscribed|QAllRegistrations|"
                     r"QAllSubscriptions|QQueryAdapter|QAdapterHook|QQueryMultiAdapter|QSubscribers|Push|Verifying)\b")


def coq_case(case, obs, mode):
    if "error" in obs:
        raise C.HarnessError("driver error: " + obs["error"])
    if case.get("kind") == "reg":
        return "(CReg %s)" % _REGSYS.sub(lambda m: "RegSys." + m.group(1), RC.coq_hist_case(case, obs))
    tops, answers, ipl, pos = [], [], [], {}
    for k, op in enumerate(case["ops"]):
        pos[k] = len(tops)
        tops.append("(THeld %d)" % pos[op[1]] if op[0] == "held" else "(TOp %s)" % _op(op))
        answers.append(obs["ans"][k])
        ipl.append(obs["ip"][k])
        for a, ans, ip in _judged_firings(case, obs, k):
            tops.append("(TOp (OProvidedBy %s))" % _arg(a))
            answers.append(ans)
            ipl.append(ip)
    # identities of synthesized specifications: first appearance among the answers that are judged
    # (the driver also numbers what observers saw during operations that are not judged)
    remap = {}
    for n, a in enumerate(answers):
        if a[:2] == [1, 0]:
            answers[n] = [1, 0, remap.setdefault(a[2], len(remap))] + list(a[3:])
    ips = "[" + "; ".join("None" if ip is None else "(Some %s)" % _lnat(ip) for ip in ipl) + "]"
    return "(CDecl (%s, %s,\n  [%s],\n  [%s],\n  [%s],\n  %s))" % (
        C.cbool(mode == "c"), _env(case), "; ".join(_lnat(m) for m in obs["mros"]),
        ";\n   ".join(tops), "; ".join(_lnat(a) for a in answers), ips)


# --------------------------------------------------------------------------- coverage bookkeeping

def _features(case, obs):
    classes = case["classes"]
    nc = len(classes)
    mros = obs.get("mros") or []
    diamond = any(len(bs) > 1 for bs in classes) and any(
        sum(1 for bs in classes if c in bs) > 1 for c in range(1, nc + 1))
    declared, only = set(), set()
    warm = set()                 # (T, C) queried so far
    change_after_warm = change_below_only = False
    omitted = False
    hits = misses = 0
    provides = {}
    for op, a in zip(case["ops"], obs.get("ans") or []):
        k = op[0]
        if k in ("impl", "only", "first", "implspec"):
            c = op[1]
            declared.add(c)
            if k == "only":
                only.add(c)
            for (t, cc) in warm:
                m = mros[t] if t < len(mros) else []
                if cc in m and c in m[m.index(cc) + 1:]:
                    change_after_warm = True
                    if t in only or any(x in only for x in m[:m.index(c)]):
                        change_below_only = True
        elif k in ("prov", "implby") and op[1][0] in ("super", "superc"):
            t = case["objects"][op[1][2]][0] if op[1][0] == "super" else op[1][2]
            warm.add((t, op[1][1]))
            full = provides.get(op[1][2]) if op[1][0] == "super" else None
            if full is not None and a[:1] == [1] and set(full) - set(a[3:]):
                omitted = True
        elif k == "prov" and op[1][0] == "obj" and a[:1] == [1]:
            provides[op[1][1]] = a[3:]
        elif k == "adapt":
            if a[:1] == [3]:
                hits += 1
            elif a[:1] == [2]:
                misses += 1
    mixin = any(c not in declared for c in range(1, nc + 1))
    return dict(diamond=diamond, mixin=mixin, only=bool(only), change_after_warm=change_after_warm,
                change_below_only=change_below_only, omitted=omitted, hits=min(hits, 3), misses=min(misses, 3), nc=nc)


def classify(case, obs):
    if "error" in obs:
        return None
    if case.get("kind") == "reg":
        sup = [j for j, o in enumerate(case["objects"]) if "super_of" in o]
        hit = sorted(set(op[0] for op, a in zip(case["ops"], obs["answers"])
                         if op[0] in ("queryAdapter", "adapter_hook", "queryMultiAdapter") and a[:1] == [1]
                         and (op[2] in sup if isinstance(op[2], int) else any(x in sup for x in op[2]))))
        return ("reg", tuple(hit)) if hit else None
    f = _features(case, obs)
    if not (f["omitted"] and f["change_after_warm"]):
        return None
    return (f["diamond"], f["mixin"], f["only"], f["change_below_only"], f["hits"], f["misses"], f["nc"])


def kind(case, obs):
    if "error" in obs:
        return "error"
    if case.get("kind") == "reg":
        return "registry history over super proxies"
    f = _features(case, obs)
    return "%s%s%s%s" % ("diamond " if f["diamond"] else "linear ", "mixin " if f["mixin"] else "",
                         "only " if f["only"] else "", "change-below-only" if f["change_below_only"] else
                         ("change-after-warm" if f["change_after_warm"] else "static"))


def finding_key(case, obs, mode):
    if case.get("kind") == "reg":
        return "super-registry/%s" % mode
    return "super/%s/%d-classes" % (mode, len(case["classes"]))


def _name(n):
    return "" if n == 0 else "n%d" % n


def replay_text(case, obs, mode):
    if case.get("kind") == "reg":
        return ("# PURE_PYTHON=%s ; registry history in the format of harness/drivers/reg_common.py (objects with "
                "'super_of' are super(cls, ob) proxies); answers [1, r]: r = factory*1000 + one digit per object the "
                "factory received (must be the underlying instances)\n# observed answers: %s"
                % ("1" if mode == "py" else "0", json.dumps(obs.get("answers"))))
    L = ["# PURE_PYTHON=%s" % ("1" if mode == "py" else "0"),
         "from zope.interface import (Interface, implementedBy, providedBy, directlyProvides,",
         "                            classImplements, classImplementsOnly, classImplementsFirst)",
         "from zope.interface.interface import InterfaceClass",
         "from zope.interface.adapter import AdapterRegistry",
         "from zope.interface import implementer",
         "OWN = lambda ob, *ifs: classImplements(ob, *ifs) if isinstance(ob, type) else implementer(*ifs)(ob)",
         "I = [Interface]; K = [object]; registry = AdapterRegistry()",
         "show = lambda spec: sorted(I.index(i) for i in spec.flattened())",
         "def factory(vid):", "    return lambda *obs: (vid, ['proxy' if isinstance(o, super) else O.index(o) if o in O else o for o in obs])"]
    for k, bs in enumerate(case["ifaces"]):
        L.append("I.append(InterfaceClass('I%d', (%s), {}))" % (k + 1, "".join("I[%d], " % b for b in bs) or "Interface,"))
    for k, bs in enumerate(case["classes"]):
        if str(k + 1) in case.get("builtins", {}):
            L.append("K.append(%s)" % case["builtins"][str(k + 1)])
        else:
            L.append("K.append(type('C%d', (%s), {}))" % (k + 1, "".join("K[%d], " % b for b in bs)))
    if case.get("falsy"):
        L.append("# every class defines %s reading a per-instance flag; falsy instances: %s" % (
            {"len": "__len__ (0 when flagged)", "bool": "__bool__ (False when flagged)"}[case["falsy"]],
            [j for j, o in enumerate(case["objects"]) if len(o) > 2 and o[2]]))
    L.append("O = [K[c]('K', (object,), {}) if issubclass(K[c], type) else K[c]() for c in %r]" % [o[0] for o in case["objects"]])
    for j, o in enumerate(case["objects"]):
        if len(o) > 3 and o[3]:
            L.append("%s   # the object's own __implemented__" % (
                ("classImplements(O[%d], %s)" if o[4] else "implementer(%s)(O[%d])" if False else "OWN(O[%d], %s)")
                % (j, ", ".join("I[%d]" % i for i in o[3]))))
    for j, o in enumerate(case["objects"]):
        d = o[1]
        if d:
            L.append("directlyProvides(O[%d], %s)" % (j, ", ".join("I[%d]" % i for i in d)))
    if case.get("supercls"):
        L.append("class super(super): pass   # every proxy below is an instance of a subclass of super (%s)" % case["supercls"])
    L.append("# real __mro__ (class numbers): %s" % json.dumps(obs.get("mros")))

    def arg(a):
        if a[0] == "obj":
            return "O[%d]" % a[1]
        if a[0] == "superc":
            return "super(K[%d], K[%d])" % (a[1], a[2])
        if a[0] == "unbound":
            return "super(K[%d])" % a[1]
        return "super(K[%d], O[%d])" % (a[1], a[2])

    for j, cs in case.get("observe", []):
        L.append("# observer: an object with changed(spec) subscribed via implementedBy(type(O[%d])).subscribe(...) "
                 "that calls providedBy(super(K[c], O[%d])) for c in %s inside changed(); what it saw is listed "
                 "after each declaration as 'during:'" % (j, j, cs))
    fired = obs.get("fired") or [[] for _ in case["ops"]]
    for n, (op, a, ip) in enumerate(zip(case["ops"], obs.get("ans", []), obs.get("ip", []))):
        k = op[0]
        if n and fired[n - 1]:
            L.append("#   during: %s" % json.dumps(fired[n - 1]))
        if k == "held":
            L.append("print(show(<the specification returned by step %d above, held since>))   # observed %s" % (op[1], a))
        elif k == "impl":
            L.append("classImplements(K[%d], %s)" % (op[1], ", ".join("I[%d]" % i for i in op[2])))
        elif k == "only":
            L.append("classImplementsOnly(K[%d], %s)" % (op[1], ", ".join("I[%d]" % i for i in op[2])))
        elif k == "first":
            L.append("classImplementsFirst(K[%d], I[%d])" % (op[1], op[2]))
        elif k == "implspec":
            L.append("classImplements(K[%d], implementedBy(K[%d]))" % (op[1], op[2]))
        elif k == "prov":
            L.append("print(show(providedBy(%s)))   # observed %s ; I.providedBy set %s" % (arg(op[1]), a, ip))
        elif k == "implby":
            L.append("print(show(implementedBy(%s)))   # observed %s" % (arg(op[1]), a))
        elif k == "reg":
            L.append("registry.register([%s], I[%d], %r, factory(%d))" % (
                ", ".join("I[%d]" % i for i in op[1]), op[2], _name(op[3]), op[4]))
        elif k == "adapt":
            args = [arg(x) for x in op[2]]
            call = {"qa": "registry.queryAdapter(%s, I[%d], %r)" % (args[0], op[3], _name(op[4])),
                    "hook": "registry.adapter_hook(I[%d], %s, %r)" % (op[3], args[0], _name(op[4])),
                    "multi": "registry.queryMultiAdapter([%s], I[%d], %r)" % (", ".join(args), op[3], _name(op[4]))}[op[1]]
            L.append("print(%s)   # observed %s  ([2] = default, [3, vid*1000 + object digits], 9 = proxy passed)" % (call, a))
    L.append("# expected: providedBy(super(C, ob)) = union of implementedBy(c).flattened() for c strictly after C "
             "in type(ob).__mro__; factories receive ob itself")
    return "\n".join(L)


TECHNIQUE = ("Coq proof over a Gallina kernel regenerated from the source text by a fail-closed ast translator (proved equal "
             "to the model on every run) and a Gallina transcription of _implementedBy_super / _next_super_class / Implements.changed / "
             "the super branches of implementedBy and providedBy (Python and C) on top of Model/Ro.v's C3 and "
             "Model/Lookup.v's adapter_hook / queryMultiAdapter; vm_compute correspondence with both implementations")
LEVEL_TEXT = ("On every run _next_super_class, _implementedBy_super, Implements.changed, the super branches of implementedBy / "
              "providedBy and adapter_hook / queryMultiAdapter are re-translated from the current source text into "
              "Gen/SuperKernel.v, the PySuper_Type branches of the C providedBy / implementedBy and the C _adapter_hook into "
              "the data-level Gen/SuperC.v, and both are proved equal to the model for all inputs and states "
              "(C19_generated_*_eq_model, C19_generated_c_*_eq_model). "
              "Machine-checked theorems (Properties/C19.v, 27 theorems, closed under the global context) state for every class DAG "
              "with a C3 MRO, every (C, ob) along the MRO and every history of declarations, registrations and queries "
              "that the specification answered for super(C, ob) contains exactly the interfaces implemented by the "
              "classes strictly after C, that the _super_cache never changes an answer (also when type(ob) was "
              "declared with an *only* form and its cache survives changes below it), that implementedBy and providedBy "
              "agree on proxies in both implementations, and that adapter_hook / queryMultiAdapter look up with that "
              "specification and call the factory with the underlying object; the model's executable definitions are "
              "compared with both implementations on generated class DAGs and histories on every run (incl. each "
              "class's real __mro__), and the raw answers are judged by an independent replay inside Coq.")
LEVEL_NOTE = ("Trusted: Coq kernel/vm_compute; the hand-written transcription (validated by the correspondence); content of "
              "a specification is modelled as recomputation from live declarations (C02), order inside __iro__ is not "
              "modelled; the registry lookup is read at set level (unique names in the tie). Not modelled: reassignment of __bases__, "
              "declared specifications of later-created classes.")
