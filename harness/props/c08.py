"""C08 — all lookup entry points agree with lookup() and subscriptions() (DESIGN.md section 5, C08)."""
from .. import common as C
from ..translate import lookup_c, lookup_py
from . import regcommon as RC

ID = "C08"
COQ_TARGETS = ["Tie/C08.vo", "Properties/C08.vo"]
PROPERTY_FILE = "Properties/C08.v"
TIE = "Tie.C08"
DRIVER = "c08_driver.py"
SHARD = 8
THEOREMS = [
    "C08_lookup1_eq_lookup", "C08_adapter_hook_eq", "C08_queryAdapter_eq", "C08_queryMultiAdapter_eq",
    "C08_subscribers_eq", "C08_names_eq_keys_of_lookupAll", "C08_nonstring_name_rejected",
    "C08_CacheValid_empty", "C08_CacheValid_preserved", "C08_CacheValid_reachable", "C08_lookup_answer",
    "C08_results_independent_of_cache", "C08_results_independent_of_warmup",
    "C08_lookupAll_is_map_of_lookup", "C08_names_eq_keys", "C08_lookupAll_agrees_with_lookup",
    "C08_adapters_wf_storage", "C08_adapters_wf_reachable", "C08_sys_lookup1_eq_lookup",
    "C08_c_lookup_eq_py", "C08_c_lookup1_eq_py", "C08_c_adapter_hook_eq_py", "C08_c_queryAdapter_eq_py",
    "C08_c_lookupAll_subscriptions_eq_py", "C08_c_default_by_identity",
    "C08_generated_py_eq_model", "C08_generated_c_eq_model", "C08_generated_c_wrappers",
    "C08_generated_c_lookup1_eq_generated_py_lookup",
]
RULE = ("worlds of 3-5 interfaces, 2-3 classes, 3 instances (some directly providing) plus 1-2 super proxies; "
        "1-3 registries of one flavour; rounds of 1-8 mutations (register/unregister/subscribe/unsubscribe, "
        "occasionally rebuild / __bases__ change) targeted at what the objects provide, each followed by 1-2 query "
        "groups: for one key (registry, arity 0-3 objects or bare specifications, provided, name) EVERY entry point "
        "(lookup for 4 names, lookup1, queryAdapter, adapter_hook, queryMultiAdapter, lookupAll, names, subscriptions, "
        "subscribers, handlers, truthy and falsy non-string names (42, b'', 0, (), None, ...) on every path) in random order from the cold cache and again in another "
        "random order from the warm cache; with probability 0.6 per round a MUTATION block: a registration / subscription in the registry or in a registry above it that hits for one key, one warm call through ONE entry point (each of the nine), a mutation of the registry holding it (a verifying sub-registry is not told), the SAME entry point again first, then the whole group; every group also repeats five of its calls with arguments passed by keyword (any split, default possibly omitted); factories return None, FALSY non-None results (0, (), '', 0.0, an empty container-like object) or numbers; with probability 0.4 per round a DYNAMIC block: registrations that hit for one key, exactly one warm call through one entry point (each of the nine in turn), an in-place change of a class declaration the key depends on (classImplements / classImplementsFirst / classImplementsOnly on the class of the object, of a base class, of the class behind a super proxy), then every entry point for the same key; a case is non-trivial when some lookup in it found a factory; distinct = "
        "distinct (flavour, arities, first entry point of each group) signature")
TRUSTED_BASE = ["the cache layer Model/Lookup.v (shared) and Model/CLookup.v are proved equal, on every run, to kernels regenerated "
                "from adapter.py (LookupBase, AdapterLookupBase) and from the C functions _getcache/_lookup/_lookup1/"
                "_adapter_hook/_lookupAll/_subscriptions; trusted there: the translators harness/translate/lookup_py.py, "
                "lookup_c.py (+ the tokenizer/parser of cskeleton.py) and their stated abstraction - nested cache "
                "dictionaries = flat finite maps (Model/LookupPrims.v), _uncached_* = parameter + _subscribe, objects and "
                "factories as oracles, a non-string name read as falsy, no reference counting, no failure paths of "
                "allocation / foreign exceptions, single-threaded changed()",
                "storage, uncached walkers and registry systems Model/Adapter.v + RegSys.v: hand transcription of adapter.py, "
                "validated by this correspondence and by the REG fidelity test"]
ASSUMPTIONS = ["the uncached computations are deterministic functions of the registry state (no mutation during a lookup; "
               "re-entrancy is C11's subject)",
               "in-place changes of required specifications are classImplements* on classes (directlyProvides/alsoProvides "
               "replace the instance's declaration object, so no cache key survives them; interface __bases__ changes are "
               "C02's subject); the tie models them as: every lookup object subscribed to a specification extending the "
               "changed one drops caches and subscriptions (Tie/C08.invalidate)",
               "cache invalidation on mutation is C05's subject: C08's cache theorems are about all cache states reachable "
               "by entry-point calls since the last changed()"]

NAMES = [0, 0, 0, 1, 2]
KW_ARITY = {"lookup": "rpnd", "lookup1": "rpnd", "queryAdapter": "opnd", "adapter_hook": "pond", "queryMultiAdapter": "opnd",
            "lookupAll": "rp", "names": "rp", "subscriptions": "rp", "subscribers": "op"}
# stand-ins for non-string names (harness/drivers/c08_driver.py NONSTRINGS); the model has one NotAString
TRUTHY_NONSTR = ["X", "X4"]          # 42, b"n1"
FALSY_NONSTR = ["X0", "X1", "X2", "X3", "X5"]   # b"", 0, (), None, 0.0


def regenerate(run):
    """Re-translate the cache layer from the current source text (fail closed): adapter.py -> Gen/LookupPy.v,
    _zope_interface_coptimizations.c -> Gen/LookupC.v.  A refusal leaves the pinned kernel in place (so that the tie
    and the Spec oracle still run) and is reported as a broken proof obligation."""
    errs = lookup_py.regenerate() + lookup_c.regenerate()
    # the tie must not depend on the generated-kernel proofs: build it first, on its own
    ok, out = C.coq_make(["Tie/C08.vo"])
    if not ok:
        errs.append("Tie/C08.vo does not build:\n" + out[-1500:])
    return errs


def _add_supers(rng, world, classes):
    specs, objects = world["specs"], world["objects"]
    n_plain = len(objects)
    for _ in range(rng.choice([1, 1, 2])):
        j = rng.randrange(n_plain)
        cls = objects[j]["cls"]
        cands = [cls] + sorted(RC._cancestors(specs, cls))
        cands = [c for c in cands if specs[c]["kind"] == "class"]
        objects.append({"super_of": j, "at": rng.choice(cands)})


def _obj_specs(rel, world, j):
    """specifications a registration could be keyed on to apply to object j (approximation)"""
    o = world["objects"][j]
    if "super_of" in o:
        base = world["objects"][o["super_of"]]
        return sorted(set(rel.ancestors(base["cls"])) - {base["cls"]}) or [0]
    s = set(rel.ancestors(o["cls"]))
    for d in o.get("direct", []):
        s |= set(rel.ancestors(d))
    return sorted(s)


def gen_ops(rng, world, ifaces, classes):
    import copy
    wdyn = copy.deepcopy(world)          # the world as the in-place changes below leave it (for targeting only)
    rel = RC.Rel(wdyn)
    nobj = len(world["objects"])
    fl = rng.choice(["push", "verifying"])
    n_regs = rng.choice([1, 2, 2, 3])
    ops = []
    for r in range(n_regs):
        bs = [b for b in range(r) if rng.random() < 0.7][-2:]
        bs.reverse()
        ops.append(["newreg", fl, bs])
    key_pool = list(ifaces) + list(classes) + [0]
    regs_seen, subs_seen = [], []      # (objs-or-None, req, p, name) / (objs-or-None, req, p)

    def pick_objs(ar):
        return [rng.randrange(nobj) for _ in range(ar)]

    def req_for(objs):
        out = []
        for j in objs:
            if rng.random() < 0.1:
                out.append(None)
            else:
                out.append(rng.choice(_obj_specs(rel, wdyn, j)))
        return out

    def mutation():
        x = rng.random()
        r = rng.randrange(n_regs)
        ar = rng.choice([0, 1, 1, 1, 2, 2, 3])
        if x < 0.50:
            if regs_seen and rng.random() < 0.55:
                # compete with an earlier registration: same objects, other specificity / registry
                objs, _req0, p0, n0 = rng.choice(regs_seen)
                req = req_for(objs)
                p = rng.choice([y for y in rel.ancestors(p0) + rel.descendants(p0) if y in ifaces] or [p0])
                nm = n0 if rng.random() < 0.8 else rng.choice(NAMES)
            else:
                objs = pick_objs(ar)
                req, p, nm = req_for(objs), rng.choice(ifaces), rng.choice(NAMES)
            regs_seen.append((objs, req, p, nm))
            v = RC.gen_value(rng) if rng.random() > 0.06 else None
            return ["register", r, req, p, nm, v]
        if x < 0.60:
            v = RC.gen_value(rng) if rng.random() < 0.4 else None
            if regs_seen:
                _o, req, p, nm = rng.choice(regs_seen)
            else:
                req, p, nm = RC.gen_req(rng, key_pool, ar), rng.choice(ifaces), rng.choice(NAMES)
            return ["unregister", r, req, p, nm, v]
        if x < 0.86:
            if subs_seen and rng.random() < 0.5:
                objs, _req0, p = rng.choice(subs_seen)
                req = req_for(objs)
            else:
                objs = pick_objs(ar)
                req = req_for(objs)
                p = rng.choice(ifaces) if rng.random() > 0.25 else None
            subs_seen.append((objs, req, p))
            return ["subscribe", r, req, p, RC.gen_value(rng)]
        if x < 0.93:
            v = RC.gen_value(rng) if rng.random() < 0.6 else None
            if subs_seen:
                _o, req, p = rng.choice(subs_seen)
            else:
                req, p = RC.gen_req(rng, key_pool, ar), rng.choice(ifaces)
            return ["unsubscribe", r, req, p, v]
        if x < 0.97 and n_regs > 1:
            r = rng.randrange(1, n_regs)
            cand = list(range(r))
            rng.shuffle(cand)
            return ["setregbases", r, sorted(cand[: rng.choice([0, 1, 1, 2])], reverse=True)]
        return ["rebuild", r]

    def group(forced=None):
        # the key
        r = rng.choice([n_regs - 1, n_regs - 1, rng.randrange(n_regs)])
        src = rng.random()
        objs, p, nm = None, None, None
        if forced is not None:
            r, objs, p, nm = forced
        elif src < 0.55 and regs_seen:
            objs, _req, p0, nm = rng.choice(regs_seen)
            p = rng.choice([y for y in rel.ancestors(p0) if y in ifaces or y == 0])
        elif src < 0.8 and subs_seen:
            objs, _req, p0 = rng.choice(subs_seen)
            p = rng.choice(ifaces + [0]) if p0 is None else rng.choice([y for y in rel.ancestors(p0) if y in ifaces or y == 0])
            nm = rng.choice(NAMES)
        else:
            objs = pick_objs(rng.choice([0, 1, 1, 1, 2, 2, 3]))
            p, nm = rng.choice(ifaces + [0]), rng.choice(NAMES)
        objs = list(objs)
        if forced is None and objs and rng.random() < 0.3:       # another object in one position (e.g. the super proxy of it)
            objs[rng.randrange(len(objs))] = rng.randrange(nobj)
        bare = forced is None and rng.random() < 0.2             # bare specifications instead of objects
        if bare:
            req = [rng.choice([c for c in _obj_specs(rel, wdyn, j) if c in classes or c in ifaces] or classes) for j in objs]
        else:
            req = [{"prov": j} for j in objs]
        calls = []
        for n in sorted({nm, 0, 1, 2, 3}):
            calls.append(["lookup", r, req, p, n])
        calls += [["lookupAll", r, req, p], ["names", r, req, p], ["subscriptions", r, req, p]]
        hand = rng.random() < 0.5
        if hand:
            calls.append(["subscriptions", r, req, None])
        other = rng.choice([n for n in (0, 1, 2) if n != nm])
        if len(req) == 1:
            calls += [["lookup1", r, req[0], p, nm], ["lookup1", r, req[0], p, other]]
        if not bare:
            if len(objs) == 1:
                calls += [["queryAdapter", r, objs[0], p, nm], ["adapter_hook", r, objs[0], p, nm],
                          [rng.choice(["queryAdapter", "adapter_hook"]), r, objs[0], p, other]]
            calls += [["queryMultiAdapter", r, objs, p, nm], ["queryMultiAdapter", r, objs, p, other],
                      ["subscribers", r, objs, p]]
            if hand:
                calls.append(["subscribers", r, objs, None])
        # non-string names on every path: one truthy and one falsy stand-in (the falsy ones share the
        # cache dictionary of name '' which the lookups above warm), cold and warm
        for x in ([rng.choice(TRUTHY_NONSTR), rng.choice(FALSY_NONSTR)] if rng.random() < 0.8 else []):
            calls.append(["lookup", r, req, p, x])
            if len(req) == 1:
                calls.append(["lookup1", r, req[0], p, x])
            if not bare:
                if len(objs) == 1:
                    calls += [["queryAdapter", r, objs[0], p, x], ["adapter_hook", r, objs[0], p, x]]
                calls.append(["queryMultiAdapter", r, objs, p, x])
        # the same calls with arguments passed BY KEYWORD (the first [pos] positionally), default possibly left out:
        # must answer like the positional spelling
        def kw(call):
            n = len(KW_ARITY[call[0]])
            return list(call) + [{"pos": rng.randrange(n), "nodefault": n == 4 and rng.random() < 0.3}]

        cold = list(calls) + [kw(c) for c in rng.sample(calls, min(5, len(calls)))]
        rng.shuffle(cold)
        warm = list(calls) + [kw(c) for c in rng.sample(calls, min(5, len(calls)))]
        rng.shuffle(warm)
        return cold + warm

    def dynamic_block():
        """registrations that HIT for one key, ONE warm call through one entry point, an in-place change of a
        class declaration the key's required specification depends on (the lookup object must have become a
        dependent through that single call), then every entry point for the same key"""
        nonlocal rel
        objects = world["objects"]
        ar = rng.choice([1, 1, 1, 2])
        objs = pick_objs(ar)
        j = objs[0]
        base = objects[j].get("super_of", j)
        cls = objects[base]["cls"]
        cands = [c for c in [cls] + sorted(RC._cancestors(wdyn["specs"], cls)) if wdyn["specs"][c]["kind"] == "class"]
        target = rng.choice(cands)
        new = [i for i in ifaces if i not in rel.ancestors(target)]
        if not new:
            return []
        iface = rng.choice(new)
        r = rng.randrange(n_regs)
        p, nm = rng.choice(ifaces), rng.choice(NAMES)
        out = []
        rest = [rng.choice(_obj_specs(rel, wdyn, k)) for k in objs[1:]]
        hit = rng.choice([x for x in _obj_specs(rel, wdyn, j)])
        out.append(["register", r, [hit] + rest, p, nm, RC.gen_value(rng)])
        for _ in range(rng.choice([1, 1, 2])):
            out.append(["register", rng.choice([r, rng.randrange(n_regs)]),
                        [rng.choice(rel.ancestors(iface))] + rest, p, nm if rng.random() < 0.8 else rng.choice(NAMES),
                        RC.gen_value(rng)])
        if rng.random() < 0.5:
            out.append(["subscribe", r, [rng.choice(rel.ancestors(iface))] + rest, rng.choice([p, None]), RC.gen_value(rng)])
        for x in out:
            if x[0] == "register":
                regs_seen.append((objs, x[2], x[3], x[4]))
        req = [{"prov": k} for k in objs]
        pq = rng.choice([y for y in rel.ancestors(p) if y in ifaces or y == 0])
        warm = [["lookup", r, req, pq, nm], ["queryMultiAdapter", r, objs, pq, nm], ["lookupAll", r, req, pq],
                ["names", r, req, pq], ["subscriptions", r, req, pq], ["subscribers", r, objs, pq]]
        if ar == 1:
            warm += [["lookup1", r, req[0], pq, nm], ["queryAdapter", r, j, pq, nm], ["adapter_hook", r, j, pq, nm]] * 2
        out.append(rng.choice(warm))
        kind_ = rng.choice(["classImplements", "classImplements", "classImplementsFirst", "classImplementsOnly"])
        out.append([kind_, target, iface])
        sp = wdyn["specs"][target]
        sp["implements"] = [iface] if kind_ == "classImplementsOnly" else list(sp["implements"]) + [iface]
        rel = RC.Rel(wdyn)
        return out + group(forced=(r, objs, pq, nm))

    def chain(r):
        """registry r and the registries above it (as created; __bases__ changes may have moved them)"""
        seen, todo = [], [r]
        while todo:
            x = todo.pop(0)
            if x not in seen:
                seen.append(x)
                todo += ops[x][2]
        return seen

    def mutation_block():
        """a registration (subscription) in registry r or in a registry ABOVE it that hits for one key, ONE warm
        call through one entry point of r, a mutation of the registry holding it (re-register another value /
        unregister / a more specific registration / (un)subscribe) - for a verifying registry nobody tells r -,
        then the SAME entry point first, then every entry point for the same key"""
        r = rng.choice([n_regs - 1, rng.randrange(n_regs)])
        src = rng.choice(chain(r))
        ar = rng.choice([1, 1, 1, 2, 0])
        objs = pick_objs(ar)
        p, nm = rng.choice(ifaces), rng.choice(NAMES)
        key = [rng.choice(_obj_specs(rel, wdyn, k)) for k in objs]
        sub = rng.random() < 0.3
        out = []
        if sub:
            sp = rng.choice([p, p, None])
            out.append(["subscribe", src, key, sp, RC.gen_value(rng)])
            subs_seen.append((objs, key, sp))
        else:
            out.append(["register", src, key, p, nm, RC.gen_value(rng)])
            regs_seen.append((objs, key, p, nm))
        req = [{"prov": k} for k in objs]
        pq = rng.choice([y for y in rel.ancestors(p) if y in ifaces or y == 0])
        if sub:
            warm = [["subscriptions", r, req, sp and pq], ["subscribers", r, objs, sp and pq]]
        else:
            warm = [["lookup", r, req, pq, nm], ["queryMultiAdapter", r, objs, pq, nm], ["lookupAll", r, req, pq],
                    ["names", r, req, pq]]
            if ar == 1:
                warm += [["lookup1", r, req[0], pq, nm], ["queryAdapter", r, objs[0], pq, nm],
                         ["adapter_hook", r, objs[0], pq, nm]] * 2
        e = rng.choice(warm)
        out.append(e)
        x = rng.random()
        if sub:
            out.append(["subscribe", src, key, sp, RC.gen_value(rng)] if x < 0.5 else ["unsubscribe", src, key, sp, None])
        elif x < 0.4:
            out.append(["register", src, key, p, nm, RC.gen_value(rng)])
        elif x < 0.7:
            out.append(["unregister", src, key, p, nm, None])
        else:
            key2 = [rng.choice(_obj_specs(rel, wdyn, k)) for k in objs]
            out.append(["register", rng.choice(chain(r)), key2, p, nm, RC.gen_value(rng)])
            regs_seen.append((objs, key2, p, nm))
        out.append(list(e))
        return out + group(forced=(r, objs, pq, nm))

    for rnd in range(rng.choice([2, 3, 3, 4])):
        for _ in range(rng.choice([3, 5, 8]) if rnd == 0 else rng.choice([1, 1, 2, 3])):
            ops.append(mutation())
        for _ in range(rng.choice([1, 1, 2])):
            ops += group()
        if rng.random() < 0.4:
            ops += dynamic_block()
        if rng.random() < 0.6:
            ops += mutation_block()
    return ops


def generate(run, tier):
    rng = run.rng("gen")
    cases = []
    for _ in range(64 if tier == "quick" else 900):
        world, ifaces, classes = RC.gen_world(rng, n_ifaces=rng.choice([3, 4, 5]), n_classes=rng.choice([2, 3]),
                                              n_objects=3)
        _add_supers(rng, world, classes)
        world["ops"] = gen_ops(rng, world, ifaces, classes)
        cases.append(world)
    return cases


WORLD_STEPS = ("classImplements", "classImplementsFirst", "classImplementsOnly")


def coq_case(case, obs, mode):
    if "error" in obs:
        raise C.HarnessError("driver error: " + obs["error"])
    # split the executed history at the world steps: one phase per observed world
    chunks, cur = [], []
    for op in obs["ops"]:
        if op[0] in WORLD_STEPS:
            chunks.append(cur)
            cur = []
        else:
            # the keyword spelling of a call is the same model operation
            if isinstance(op[-1], dict):
                op = op[:-1]
            # every non-string stand-in is the model's NotAString (RC.c_name_arg knows "X")
            cur.append([("X" if isinstance(x, str) and x.startswith("X") and i == 4 else x) for i, x in enumerate(op)])
    chunks.append(cur)
    assert len(chunks) == len(obs["phases"])
    phases = []
    for ph, ops in zip(obs["phases"], chunks):
        phases.append("(%s, %s, %s,\n    [%s])" % (
            RC.c_graph(ph), RC.c_ifaces(ph), RC.c_lnat(ph["changed"]),
            ";\n     ".join(RC.c_op(op, ph, case.get("objects", [])) for op in ops)))
    # the separator 999999 is a unary nat in Coq (16 MB each): name the shared constant instead
    return "([%s],\n   %s)" % (";\n   ".join(phases), RC.c_answers(obs["answers"]).replace("999999", "MARK"))


QUERY_KINDS = ("lookup", "lookup1", "queryAdapter", "adapter_hook", "queryMultiAdapter", "lookupAll", "names",
               "subscriptions", "subscribers")


def classify(case, obs):
    if "error" in obs:
        return None
    rops = [op for op in obs["ops"] if op[0] not in WORLD_STEPS]
    found = any(op[0] == "lookup" and a[:1] == [1] for op, a in zip(rops, obs["answers"]))
    if not found:
        return None
    firsts, prev_mut = [], True
    for op in case["ops"]:
        q = op[0] in QUERY_KINDS
        if q and prev_mut:
            firsts.append(op[0])
        prev_mut = not q
    ar = tuple(sorted({len(op[2]) for op in case["ops"] if op[0] == "lookup"}))
    return (case["ops"][0][1], ar, tuple(firsts[:4]))


def kind(case, obs):
    return "%s/%d-regs" % (case["ops"][0][1], sum(1 for op in case["ops"] if op[0] == "newreg"))


def finding_key(case, obs, mode):
    return None


def _py_spec(world, i):
    return "S[%d]" % i


def replay_text(case, obs, mode):
    """A readable trace of the history with the observed answers (the exact construction of the world is
    harness/drivers/reg_common.World; replay with bin/check C08 --replay <file>)."""
    lines = ["# PURE_PYTHON=%s ; world: specs=%r objects=%r" % ("1" if mode == "py" else "0", case["specs"], case["objects"]),
             "# answers: lookup*/query*: [0]=default [1,x]=value/result x [2]=ValueError [3,h]=other exception;",
             "#          lookupAll: name,value pairs; subscribers: results, 999999, called subscriptions"]
    if "error" in obs:
        return "\n".join(lines + ["# driver error: " + obs["error"]])
    answers = iter(obs["answers"])
    for op in obs["ops"]:
        a = None if op[0] in WORLD_STEPS else next(answers)
        lines.append("%-70r -> %r" % (op, a) if op[0] in QUERY_KINDS else "%r" % (op,))
    return "\n".join(lines)


TECHNIQUE = ("Coq proofs over the shared Gallina model of LookupBase / AdapterLookupBase (Python) and of the C functions "
             "_lookup/_lookup1/_adapter_hook/_lookupAll/_subscriptions, both proved equal to kernels regenerated from the "
             "source text by fail-closed translators on every run; vm_compute correspondence of whole "
             "registry histories with both implementations; the implementation's answers are judged against each other "
             "in Coq per the property statement")
LEVEL_TEXT = ("Machine-checked theorems (Properties/C08.v, 29 theorems, closed under the global context) state, for all "
              "uncached computations, factory behaviours, objects and ALL cache states (relations between entry points) "
              "resp. all cache states reachable by any sequence of entry-point calls (cache independence), that lookup1, "
              "queryAdapter, adapter_hook, queryMultiAdapter, names and subscribers are the stated functions of lookup / "
              "lookupAll / subscriptions, that non-string names are rejected on every path, that the lookupAll walker maps "
              "every name to what the lookup walker finds (first match forward = last write backward; side condition "
              "proved for every reachable registry system), and that the C functions equal the Python ones for every "
              "shape of the optional arguments.  The Python cache layer (13 methods) and the 6 C functions are re-translated from "
              "the current source on every run and proved equal to the model functions the theorems are about, so a change "
              "of the text either keeps the theorems or breaks a proof / aborts a translator.  The model is compared with both implementations on generated histories "
              "that call every entry point cold and warm, and the raw answers are judged against each other in Coq.")
LEVEL_NOTE = ("Trusted: Coq kernel/vm_compute; the two translators and their abstraction (nested dictionaries as flat "
              "finite maps; reference counting, allocation failures and concurrency not translated); the hand transcription "
              "of the storage / uncached walkers / registry systems (validated by the correspondence in both modes).  Cache invalidation after mutations is C05's subject; here the caches "
              "are arbitrary valid ones / arbitrary ones.  'Default by identity' is modelled by a token and checked on the "
              "code with a fresh sentinel object.")
