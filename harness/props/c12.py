"""C12 — total, hash-consistent, process-independent order (DESIGN.md section 5, C12)."""
import json
import os
from .. import common as C

ID = "C12"
COQ_TARGETS = ["Tie/C12.vo", "Properties/C12.vo"]   # Properties/C12 requires Gen/Compare (regenerated)
PROPERTY_FILE = "Properties/C12.v"
TIE = "Tie.C12"
DRIVER = "c12_driver.py"
THEOREMS = [
    "C12_eq_iff_key", "C12_hash_respects_eq", "C12_ne_is_negb_eq", "C12_lt_irrefl", "C12_lt_trans",
    "C12_lt_trichotomy", "C12_order_ops_consistent", "C12_reflected_agree", "C12_none_is_greatest",
    "C12_impl_eq_identity", "C12_incomparable_iff_key", "C12_sort_sorted", "C12_sort_deterministic",
    "C12_c_richcompare_eq_py", "C12_binop_c_eq_py",
    "C12_generated_compare_eq_model", "C12_generated_methods_eq_model",
    "C12_generated_c_richcompare_eq_model", "C12_generated_c_method_table",
]


def regenerate(run):
    """Re-derive Gen/Compare.v from the current interface.py (fail closed)."""
    from ..translate import compare
    try:
        text = compare.translate(os.path.join(C.REPO, "src", "zope", "interface", "interface.py"))
    except compare.TranslationError as e:
        return ["_compare / comparison methods no longer have the translatable shape: %s" % e]
    C.write_if_changed(os.path.join(C.COQ, "Gen", "Compare.v"), text)
    from ..translate import compare_c
    try:
        ctext = compare_c.translate(os.path.join(C.REPO, "src", "zope", "interface", "_zope_interface_coptimizations.c"))
    except compare_c.TranslationError as e:
        # keep the last accepted Gen/CompareC.v (or the pinned copy) so that the development still builds
        cpath = os.path.join(C.COQ, "Gen", "CompareC.v")
        if not os.path.exists(cpath):
            C.write_if_changed(cpath, open(os.path.join(os.path.dirname(compare_c.__file__), "compare_c.pinned.v")).read())
        return ["C IB_richcompare is no longer translatable: %s" % e]
    C.write_if_changed(os.path.join(C.COQ, "Gen", "CompareC.v"), ctext)
    return []

RULE = ("operand pairs drawn from a pool of interfaces / class specifications (of plain classes and, kind 'implold', "
        "materialised from an old-style __implemented__ in the class body; their Coq operands carry the STATED key "
        "'<module>.<class>' in zope.interface.declarations, not the observed one) / None / foreign objects "
        "with names and modules that are empty, equal, prefix-related, non-ASCII and non-BMP; a case is "
        "non-trivial when at least one operand is an interface or class specification; distinct = "
        "distinct (kinds, same-object?, name-order, module-order) signature")
TRUSTED_BASE = ["CPython rich-comparison protocol as modelled in Model/Order.v binop (validated by this correspondence)",
                "harness/translate/compare.py (Python ast) and harness/translate/compare_c.py (token template of IB_richcompare; "
                "reads PyObject_RichCompareBool on two str objects as the code-point comparison str_cmp; reference counting not translated)"]
ASSUMPTIONS = ["interface __name__/__module__ are str (or None for a descriptive name, only compared with other None names) and immutable after creation",
               "hash seed independence is observed over 4 processes, and by construction in the model"]

NAMES = ["", "I", "IA", "IB", "IAB", "J", "Ié", "I\U0001F600", "m.C", "m.IA"]
# same-width non-ASCII strings whose byte-wise (little-endian memcmp) order differs from code-point order
WIDE = ["I\u0101", "I\u0200", "\u03a9", "\u4e2d", "I\u00ff", "I\u0100x", "I\U00010301", "I\U0001F600", "\U00010301", "\U0001F600a"]
MODS = ["", "m", "m.n", "mn", "n", "zope.interface.declarations", "é"]
KINDS = ["iface", "iface", "iface", "impl", "impl", "implold", "none", "named", "anon"]
# "descriptive" names: Element.__init__ turns a name containing a space (and no docstring) into __doc__ and
# leaves __name__ = None, so all such interfaces of one module have EQUAL keys (None, module); the key is
# observed on the object, and None is written to Coq as a reserved string no generated name equals.
SPACED = ["I A", "two words", " ", "I  ", " IA", "Marker for things", "é b"]
NONE_NAME = "\x00None"


def _nn(x):
    return NONE_NAME if x is None else x


def _operand(rng, i):
    k = rng.choice(KINDS)
    if k == "none":   # a singleton
        return {"kind": k, "id": 0, "name": "", "module": ""}
    if k == "anon":
        return {"kind": k, "id": i, "name": "", "module": ""}
    return {"kind": k, "id": i, "name": rng.choice(NAMES), "module": rng.choice(MODS)}


def generate(run, tier):
    rng = run.rng("gen")
    n = 1500 if tier == "quick" else 12000
    cases = []
    # exhaustive block: all pairs over a structured pool
    pool = []
    i = 0
    for kind in ("iface", "impl", "named", "implold"):
        for nm in ("", "I", "IA", "m.IA"):
            for md in ("", "m", "zope.interface.declarations"):
                pool.append({"kind": kind, "id": i, "name": nm, "module": md})
                i += 1
    # class "IA" in module "m" gives the Implements name "m.IA" in zope.interface.declarations: key collision stream
    pool.append({"kind": "none", "id": 0, "name": "", "module": ""})
    pool.append({"kind": "anon", "id": i, "name": "", "module": ""}); i += 1
    for a in pool:
        for b in pool:
            cases.append({"a": a, "b": b})
            if a["kind"] == b["kind"] and a["kind"] != "none" and a["id"] == b["id"]:
                # a distinct object with the same key
                cases.append({"a": a, "b": dict(b, id=b["id"] + 1000)})
    # descriptive-name stream: only paired with each other, None and key-less foreign objects (a None name
    # against a str name raises TypeError in both implementations and is outside the property's domain)
    sp = 0
    for na in SPACED:
        for nb in SPACED[:4]:
            for ma, mb in (("m", "m"), ("m", "n"), ("", ""), ("n", "m")):
                cases.append({"a": {"kind": "iface", "id": 5000 + sp, "name": na, "module": ma},
                              "b": {"kind": "iface", "id": 5001 + sp, "name": nb, "module": mb}})
                sp += 2
        for other in ({"kind": "none", "id": 0, "name": "", "module": ""}, {"kind": "anon", "id": 7000, "name": "", "module": ""}):
            cases.append({"a": {"kind": "iface", "id": 5000 + sp, "name": na, "module": "m"}, "b": other}); sp += 1
        d = {"kind": "iface", "id": 5000 + sp, "name": na, "module": "m"}; sp += 1
        cases.append({"a": d, "b": d})
    # wide-character stream: every ordered pair of WIDE strings as names (equal modules) and as modules (equal names)
    wi = 0
    for kinds in (("iface", "iface"), ("iface", "impl"), ("impl", "impl")):
        for x in WIDE:
            for y in WIDE:
                cases.append({"a": {"kind": kinds[0], "id": 8000 + wi, "name": x, "module": "m"},
                              "b": {"kind": kinds[1], "id": 8001 + wi, "name": y, "module": "m"}})
                cases.append({"a": {"kind": kinds[0], "id": 8002 + wi, "name": "I", "module": x},
                              "b": {"kind": kinds[1], "id": 8003 + wi, "name": "I", "module": y}})
                wi += 4
    for k in range(n):
        a = _operand(rng, 1)
        if rng.random() < 0.15:
            b = a
        else:
            b = _operand(rng, 2)
            if b["kind"] in ("none", "anon"):
                pass
            elif rng.random() < 0.3:
                b["name"] = a["name"]
            if b["kind"] not in ("none", "anon") and rng.random() < 0.3:
                b["module"] = a["module"]
        cases.append({"a": a, "b": b})
    return cases


KMAP = {"iface": "KIface", "impl": "KImpl", "implold": "KImpl", "none": "KNone", "named": "KNamed", "anon": "KAnon"}


def expected_key(desc, key):
    """the (name, module) key the property states for a specification: an interface's own __name__ / __module__
    as given at creation; a class specification's '<module>.<class name>' in zope.interface.declarations whichever
    way the specification came to be ('implold': materialised from an old-style __implemented__ in the class body;
    round-6 seed C12/a6 left those with the class-level default name '?').  The Coq operands carry THIS key, so an
    implementation that orders by anything else contradicts both the model and the Spec."""
    if desc["kind"] == "iface" and " " not in desc["name"]:     # a descriptive name becomes the doc, __name__ None
        return [desc["name"], desc["module"]]
    if desc["kind"] in ("impl", "implold"):
        return [(desc["module"] or "?") + "." + (desc["name"] or "?"), "zope.interface.declarations"]
    return key


def _op(desc, key):
    key = expected_key(desc, key)
    return "(mkOp %s %d %s %s)" % (KMAP[desc["kind"]], desc["id"], C.cstr_codes(_nn(key[0])), C.cstr_codes(_nn(key[1])))


def coq_case(case, obs, mode):
    if 3 in obs["rab"] or 3 in obs["rba"]:
        # a comparison returned a non-bool: encode as 3 so that both checks fail
        pass
    return "(%s, %s, %s, %s, %s, %s)" % (
        C.cbool(mode == "c"), _op(case["a"], obs["ka"]), _op(case["b"], obs["kb"]),
        C.clist([C.cN(x) for x in obs["rab"]]), C.clist([C.cN(x) for x in obs["rba"]]), C.cbool(obs["heq"]))


def _cmp(x, y):
    return (x > y) - (x < y)


def classify(case, obs):
    a, b = case["a"], case["b"]
    if a["kind"] not in ("iface", "impl", "implold") and b["kind"] not in ("iface", "impl", "implold"):
        return None
    return (a["kind"], b["kind"], a["id"] == b["id"] and a["kind"] == b["kind"],
            _cmp(_nn(obs["ka"][0]), _nn(obs["kb"][0])), _cmp(_nn(obs["ka"][1]), _nn(obs["kb"][1])),
            obs["ka"][0] is None, obs["kb"][0] is None)


def kind(case, obs):
    return case["a"]["kind"] + "/" + case["b"]["kind"]


def replay_text(case, obs, mode):
    return ("# PURE_PYTHON=%s\nfrom zope.interface import Interface, implementedBy\n"
            "from zope.interface.interface import InterfaceClass\n# operands: a=%r b=%r\n"
            "# observed rows (< <= > >= == !=; 2=TypeError): a?b=%r b?a=%r hash_equal=%r"
            % ("1" if mode == "py" else "0", case["a"], case["b"], obs["rab"], obs["rba"], obs["heq"]))


def extra(run, impl, known):
    """Process / hash-seed independence: sort one mixed collection in 4 processes with different
    PYTHONHASHSEED in both modes; all eight key sequences must be identical and equal to the
    model's sort_k of the keys (evaluated in Coq)."""
    rng = run.rng("sort")
    items = []
    for i in range(40):
        k = rng.choice(["iface", "impl"])
        items.append({"kind": k, "id": i, "name": rng.choice(NAMES[:9]), "module": rng.choice(MODS)})
    results = {}
    for mode in ("c", "py"):
        for hs in ("0", "1", "12345", "random"):
            st, res = impl.run("c12_sort_driver.py", {"items": items}, mode, env={"PYTHONHASHSEED": hs})
            if st != "ok":
                raise C.HarnessError("sort driver failed: %r" % (res,))
            results[(mode, hs)] = res
    failed = {k: v["error"] for k, v in results.items() if v.get("sorted_keys") is None}
    if failed:
        run.add_violation("sorted() of a mixed collection of specifications raised: %s" % sorted(set(failed.values()))[:2],
                          {"property": ID, "kind": "sorting a mixed collection failed", "items": items,
                           "errors": {"%s/%s" % k: e for k, e in failed.items()},
                           "python": "sorted(<the interfaces / implementedBy specs built from 'items'>)"},
                          "sort_raises", no_input=False)
        return
    first = results[("c", "0")]
    diff = [k for k, v in results.items() if v["sorted_keys"] != first["sorted_keys"]]
    run.coverage["sort_processes"] = len(results)
    run.coverage["sort_items"] = len(items)
    # the model's answer
    keys = first["input_keys"]
    term = C.clist(["(%s, %s)" % (C.cstr_codes(n), C.cstr_codes(m)) for n, m in keys])
    want = C.clist(["(%s, %s)" % (C.cstr_codes(n), C.cstr_codes(m)) for n, m in first["sorted_keys"]])
    import tempfile, shutil
    d = tempfile.mkdtemp(prefix="zi_verif_sort_")
    path = os.path.join(d, "sortcase.v")
    with open(path, "w") as fh:
        fh.write("From Coq Require Import List NArith Bool.\nImport ListNotations.\n"
                 "From ZI Require Import Lib.Str Lib.Util Model.Order Proofs.Order.\n"
                 "Definition keq (a b : key) := str_eqb (fst a) (fst b) && str_eqb (snd a) (snd b).\n"
                 "Eval vm_compute in (list_eqb keq (sort_k %s) %s).\n" % (term, want))
    rc, out, err = C.coqc_file(path, cwd=d)
    shutil.rmtree(d, ignore_errors=True)
    model_ok = rc == 0 and "= true" in out
    if diff or not model_ok:
        run.add_violation("sorted() of a mixed collection differs across processes/modes or from the model's sort",
                          {"property": ID, "kind": "sort determinism", "differing_runs": [list(k) for k in diff],
                           "model_agrees": model_ok, "items": items,
                           "results": {"%s/%s" % k: v["sorted_keys"] for k, v in results.items()}},
                          "sort", no_input=not diff)

TECHNIQUE = "Coq proof over a Gallina model of _compare / IB_richcompare + CPython's comparison protocol; vm_compute correspondence with both implementations"
LEVEL_TEXT = ("Machine-checked theorems (Properties/C12.v, 19 theorems, closed under the global context; the Python _compare/comparison methods AND the C slot IB_richcompare are regenerated from the source text on every run and proved equal to the model) state the order/"
              "equality/hash laws for all operands and strings with no bound; the model's executable definitions are "
              "compared with the C and Python implementations on generated operand pairs on every run, and the "
              "implementation's raw answers are additionally judged by the key-order Spec inside Coq.")
LEVEL_NOTE = ("Trusted: Coq kernel/vm_compute; the hand-written model of CPython's operator dispatch (validated by the "
              "correspondence, incl. foreign operands); hash-seed independence is observed over 8 processes, not proved "
              "(partial there). Strings are modelled as code-point lists.")
