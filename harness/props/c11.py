"""C11 — memory safety and atomicity of lookups under concurrent / re-entrant mutation
(DESIGN.md section 5, C11)."""
import concurrent.futures
import json
import os
import shutil
import tempfile

from .. import common as C
from ..translate import cskeleton

ID = "C11"
COQ_TARGETS = ["Tie/C11.vo", "Properties/C11.vo"]
PROPERTY_FILE = "Properties/C11.v"
TIE = "Tie.C11"
DRIVER = "c11_driver.py"
DRIVER_TIMEOUT = 1500
THEOREMS = ["C11_discipline_safe", "C11_skeleton_disciplined", "C11_inlining_preserves_discipline",
            "C11_call_trees_safe", "C11_inlined_paths_safe", "C11_loops_safe_for_any_count", "C11_todays_loops_safe",
            "C11_todays_code_safe", "C11_no_stale_survivor",
            "C11_store_detached", "C11_atomic_answer", "C11_readers_only_safe"]
RULE = ("one case = lookup flavour (LookupBase / VerifyingBase subclass) x entry point (lookup, lookup1, adapter_hook, "
        "queryAdapter, lookupAll, subscriptions, Interface.__call__ through adapter_hooks) x callback point out of the "
        "lookup code (lazy required, provided/name/required key __hash__, name __bool__, overridden _uncached_*, "
        "_generation property, __providedBy__ descriptor, __conform__, factory, destructor) x what the callback does "
        "(bump the state and re-enter changed(), optionally raise) plus the error paths (unhashable provided, "
        "non-string name); a case is non-trivial when the callback actually ran inside the entry point; distinct = "
        "distinct (flavour, entry, point, action, named, variant)")
TRUSTED_BASE = [
    "harness/translate/cskeleton.py: tokenizer, C-subset parser, path enumeration and the table classifying every "
    "CPython API call (returns new/borrowed, steals, may run Python); fail-closed on anything unknown",
    "the event semantics of Model/Own.v as a model of CPython reference counting under the GIL (C code is atomic "
    "between may-call points; the environment is reference-count correct)",
    "the extractor's correlation of NULL arguments with the callee paths that do not touch that parameter, and its "
    "modelling of a constant argument (Py_None) as a temporary reference held by the caller",
    "sys.getrefcount / gc.get_referents as observations of ownership",
]
ASSUMPTIONS = [
    "tuples are immutable (modelled: the environment never adds to or removes from a tuple object); applying "
    "PyTuple_GET_ITEM to something that is not a tuple is outside the model (such an execution is 'infeasible')",
    "a loop body is executed symbolically once, from the state at the loop head; the theorem then covers every "
    "number and order of iterations",
    "the uncached computation reads one registry state (its linearisation point); mutators end with changed(); "
    "the extendors list handed to a running Python walker is an immutable snapshot (add_extendor / remove_extendor "
    "assign a new list: shape-checked on adapter.py on every run, fail closed); every mutator of "
    "BaseAdapterRegistry ends with self.changed(self) and nothing switches ``changed`` off (shape-checked likewise); "
    "answers given in the MIDDLE of rebuild() are those of a half-replayed registry: judged, recorded as known "
    "finding F14 (exact key; only rebuild, only strictly inside the call, only answers a prefix of the replay gives)",
    "memory exhaustion (an unchecked PyTuple_New in _generations_tuple is reported in coverage, not judged)",
]
TECHNIQUE = ("Coq proof of an ownership discipline over a reference-counting machine with an adversarial environment; "
             "the discipline is evaluated (vm_compute) on the event skeleton extracted from the C source on every "
             "run; refcount audit of the real extension at every callback point; thread stress and re-entrancy "
             "probes on plain and AddressSanitizer builds")
LEVEL_TEXT = ("Machine-checked: a path that keeps to the ownership discipline D never uses a freed object, never "
              "over-releases and returns balanced under EVERY environment behaviour (C11_discipline_safe, induction over "
              "the event list); today's extracted skeleton of 23 C functions (the lookup code and providedBy / implementedBy / "
              "getObjectSpecification / __call__ / __adapt__ / the descriptors) satisfies D, and the stronger Dc, on every "
              "path, key __hash__/__eq__ callbacks included (C11_skeleton_disciplined, recomputed from the C text on "
              "every run); inlining a disciplined callee path at a call site preserves the discipline "
              "(C11_inlining_preserves_discipline), so whole call trees to any depth are safe (C11_call_trees_safe); loops "
              "are safe for every iteration count (C11_loops_safe_for_any_count, by induction over the iterations; "
              "C11_todays_loops_safe for the extracted loops); borrowed container items follow per-container rules "
              "(tuple: valid while the tuple is owned; dict value / list item: until the next may-call point); "
              "in the handle model of cached lookups no pre-mutation answer is reachable after changed(), interrupted "
              "stores go to a detached dictionary, every returned answer is the uncached answer of a state inside the "
              "lookup's window, readers alone always get the one right answer — for any number of threads and any "
              "schedule.  Checked on every run: the extraction, a deterministic refcount audit of the real extension "
              "and of the Python reference implementation at every callback point (compared with the model's "
              "prediction and judged by the Spec oracle), leak counts over 10^4 calls incl. error paths.")
LEVEL_NOTE = ("partial: (1) the machine is a model of CPython: real preemption inside the interpreter, allocator / free-list "
              "reuse and what a stray write actually destroys are not modelled — supporting evidence only: 3 readers + 1 "
              "mutator thread stress, a readers-only stress, and re-entrancy probes without protective references on a "
              "plain and an AddressSanitizer build, in extra(); (2) compositionality of calls is now PROVED "
              "(C11_inlining_preserves_discipline, C11_call_trees_safe: whole call trees, any depth); what stays an "
              "assumption there is the extractor's pairing of call sites with callee paths (a NULL argument <-> the "
              "callee paths that never touch that parameter) and that a constant argument is modelled as a temporary "
              "reference; (3) no longer partial: tuple items are borrowed references of their own (valid while the tuple "
              "is OWNED, rule SVia), dict values and list items are good only until the next may-call point, and loops "
              "are covered for EVERY iteration count (C11_loops_safe_for_any_count: each extracted iteration "
              "re-establishes the discipline state of the loop head, checked on every run); what remains there: a "
              "tuple-item borrow is given up at every call of another skeleton function (EForget, stricter than "
              "necessary), an index into a list whose length was cached is not expressible (the extractor poisons such "
              "an iteration instead), the loop theorem is stated for a function's own paths (call trees contain the "
              "callee's loop run zero times or left by a return), nested loops are refused; "
              "(4) key __hash__/__eq__ callbacks are over-approximated: every dictionary operation on a non-static key "
              "is a may-call point; (5) providedBy, implementedBy(+Fallback), getObjectSpecification, SB_extends, "
              "_foreign_decl_implies, CPB_descr_get, OSD_descr_get, IB__adapt__, IB__call__ are now extracted too (23 "
              "functions); still table entries: CPython's own API and _get_module/_zic_state*/_get_adapter_hooks/"
              "_get_specification_base_class (module state, no references); PyArg_ParseTuple* outputs are treated as "
              "borrowed parameters; a function of that list that stops being extractable is reported, never silently "
              "downgraded; (6) the atomic-answer theorem is about a model in which the uncached computation reads one "
              "state; that intermediate states of a mutator answer like the state before or after it is C04's subject.")

FN = dict(cskeleton.FN_ID)
# functions of cskeleton.EXT_FUNCS that are allowed to stay entries of the API table (none: each of them is
# extracted from today's source; one that stops being extractable is a broken obligation, fail closed)
EXPECTED_TABLE_ENTRIES = set()
PROVIDED_BY = ["providedBy", "implementedBy", "implementedByFallback", "getObjectSpecification"]
ENTRY_FNS = {
    "lookup": ["_lookup", "_getcache", "_subcache"],
    "lookup1": ["_lookup1", "_lookup", "_getcache", "_subcache"],
    "adapter_hook": ["_adapter_hook", "_lookup1", "_lookup", "_getcache", "_subcache"] + PROVIDED_BY,
    "queryAdapter": ["_adapter_hook", "_lookup1", "_lookup", "_getcache", "_subcache"] + PROVIDED_BY,
    "iface_call": ["IB__call__", "IB__adapt__", "SB_extends", "_foreign_decl_implies", "_adapter_hook", "_lookup1",
                   "_lookup", "_getcache", "_subcache"] + PROVIDED_BY,
    "lookupAll": ["_lookupAll", "_subcache"],
    "subscriptions": ["_subscriptions", "_subcache"],
    "queryMultiAdapter": ["_lookup", "_getcache", "_subcache"] + PROVIDED_BY,
    "changed": [],
}
FLAVOUR_FNS = {"LB": ["LB_changed", "LB_clear"], "AR": ["LB_changed", "LB_clear"],
               "VB": ["_verify", "_generations_tuple", "verify_changed", "VB_clear", "LB_clear"]}
POINTS = {
    "lookup": ["lazy_required", "provided_hash", "name_bool", "name_hash", "required_hash", "uncached", "destructor"],
    "lookup1": ["provided_hash", "name_bool", "name_hash", "required_hash", "uncached"],
    "adapter_hook": ["provided_hash", "name_bool", "name_hash", "required_hash", "uncached", "providedBy_desc", "factory"],
    "queryAdapter": ["provided_hash", "name_bool", "name_hash", "required_hash", "uncached", "providedBy_desc", "factory"],
    "lookupAll": ["lazy_required", "provided_hash", "required_hash", "uncached", "destructor"],
    "subscriptions": ["lazy_required", "provided_hash", "required_hash", "uncached", "destructor"],
    "iface_call": ["conform", "providedBy_desc", "uncached", "factory"],
    "changed": [],
}
PY_ENTRY = {"changed": 5, "queryMultiAdapter": 0, "lookup": 0, "lookup1": 1, "adapter_hook": 2, "queryAdapter": 2, "iface_call": 2, "lookupAll": 3,
            "subscriptions": 4}


def generate(run, tier):
    big = 10000
    small = 1000 if tier == "quick" else big
    cases = []
    for flavour in ("LB", "VB"):
        for entry, points in POINTS.items():
            if entry == "changed" and flavour != "VB":
                continue
            pts = list(points) + (["generation"] if flavour == "VB" else [])
            for point in pts:
                for action in ("changed", "raise"):
                    if point == "destructor" and action == "raise":
                        continue
                    nameds = [False]
                    if point in ("uncached", "required_hash") and entry not in ("lookupAll", "subscriptions", "iface_call"):
                        nameds = [False, True]
                    for named in nameds:
                        rep = big if (action == "raise" or point in ("uncached", "lazy_required", "generation")) else small
                        cases.append({"flavour": flavour, "entry": entry, "point": point, "action": action,
                                      "named": named, "variant": "", "repeat": rep})
            # error paths and the undisturbed call
            for variant in ("", "unhashable_provided", "bad_name"):
                if entry == "changed":
                    continue
                if variant == "bad_name" and entry in ("lookupAll", "subscriptions", "iface_call"):
                    continue
                if variant == "unhashable_provided" and entry == "iface_call":
                    continue
                cases.append({"flavour": flavour, "entry": entry, "point": "none", "action": "none", "named": False,
                              "variant": variant, "repeat": big})
    # failing calls after a successful one: whatever they leak keeps the detached cache alive
    for flavour in ("LB", "VB", "AR"):
        for entry in ("lookup", "lookup1", "adapter_hook", "queryAdapter", "lookupAll", "subscriptions"):
            for fail in (("uncached", "lazy") if flavour != "AR" else ("notspec", "lazy")):
                if fail == "lazy" and entry in ("lookup1", "adapter_hook", "queryAdapter"):
                    continue
                if fail == "notspec" and entry in ("adapter_hook", "queryAdapter", "lookup1"):
                    continue
                cases.append({"flavour": flavour, "entry": entry, "point": "none", "action": "none", "named": False,
                              "variant": "fail_after_success", "fail": fail, "repeat": 1000})
    # super proxies as looked-up objects: the unwrapped object must not gain references
    for flavour in ("LB", "VB", "AR"):
        for entry in ("adapter_hook", "queryAdapter") + (("queryMultiAdapter", "subscriptions") if flavour == "AR" else ()):
            for kind in ("inst", "cls", "sub"):
                for fac in ("adapter", "none", "raise", "mutate"):
                    cases.append({"flavour": flavour, "entry": "subscriptions" if entry == "subscriptions" else entry,
                                  "point": "none", "action": "none", "named": False, "variant": "super_proxy",
                                  "kind": kind, "fac": fac, "repeat": 2000})
    return cases


_STATE = {"skeleton_broken": False}


def _fns(case):
    # When today's skeleton already fails the discipline (or could not be extracted) that broken
    # obligation is reported once by regenerate(); the audit cases are then judged by the Spec oracle
    # alone instead of repeating the same disagreement for every case.
    if _STATE["skeleton_broken"]:
        return []
    names = ENTRY_FNS[case["entry"]] + FLAVOUR_FNS[case["flavour"]]
    return sorted({FN[n] for n in names})


def coq_case(case, obs, mode):
    if "skip" in obs:
        return None
    if "error" in obs:
        # the driver could not run the case: both checks must fail
        return "(mkCase %s [] %d true false 4%%N false false 0%%Z 0%%Z 0)" % (C.cbool(mode == "c"), PY_ENTRY[case["entry"]])
    return "(mkCase %s %s %d %s %s %s %s %s %s %s %d)" % (
        C.cbool(mode == "c"), C.clist([str(i) for i in _fns(case)]), PY_ENTRY[case["entry"]],
        C.cbool(bool(obs["fired"])), C.cbool(obs["owned"]), C.cN(obs["answer"]),
        C.cbool(case["action"] == "raise" or case["point"] == "destructor" or bool(case["variant"]) or case.get("fac") == "raise"),
        C.cbool(obs["second"]), C.cZ(obs["growth_objs"]), C.cZ(obs["growth_refs"]), obs.get("repeat", 0))


def classify(case, obs):
    if "skip" in obs or "error" in obs or not obs.get("fired") or case["point"] == "none":
        return None
    return (case["flavour"], case["entry"], case["point"], case["action"], case["named"], case["variant"], case.get("fail"),
            case.get("kind"), case.get("fac"))


def kind(case, obs):
    return "%s/%s/%s" % (case["flavour"], case["point"], case["action"])


def finding_key(case, obs, mode):
    what = "uaf" if not obs.get("owned", True) else "leak" if (abs(obs.get("growth_objs", 0)) > 8 or obs.get("growth_refs", 0) > 8) else "answer"
    return "%s:%s:%s:%s:%s" % (what, mode, case["flavour"], case["entry"], case["point"])


def replay_text(case, obs, mode):
    return ("# PURE_PYTHON=%s ; run harness/drivers/c11_driver.py with this case (see the module docstring):\n"
            "#   echo '{\"cases\": [%s]}' | ZI_SCRATCH=<scratch build> ZI_MODE=%s PYTHONPATH=harness/drivers "
            "python harness/drivers/c11_driver.py\n"
            "# flavour=%s entry=%s callback point=%s action=%s named=%s variant=%r\n"
            "# observed: callback ran=%s, in-use objects still owned by the lookup code after changed()=%s (extra "
            "refcounts %s), answer code=%s (%s), second call returns the post-mutation value=%s, growth over %s calls: "
            "%s objects / %s references"
            % ("1" if mode == "py" else "0", json.dumps(case), mode, case["flavour"], case["entry"], case["point"],
               case["action"], case["named"], case["variant"], obs.get("fired"), obs.get("owned"), obs.get("extras"),
               obs.get("answer"), obs.get("shown"), obs.get("second"), obs.get("repeat"), obs.get("growth_objs"),
               obs.get("growth_refs")))


def on_driver_crash(run, mode, res, cases):
    """The audit died (a crash the probe's protective references could not prevent, or a hang): run
    every case in its own process to name the cases that kill the interpreter, and judge the others
    by the same rule as the Spec oracle."""
    impl = C.Impl()
    try:
        def one(case):
            try:
                return impl.run(DRIVER, {"cases": [dict(case, repeat=min(int(case.get("repeat", 1000)), 1000))]}, mode, timeout=300)
            except Exception as e:   # noqa
                return ("crash", {"returncode": -999, "stderr": repr(e)})
        with concurrent.futures.ThreadPoolExecutor(max_workers=C.NCPU) as ex:
            results = list(ex.map(one, cases))
    finally:
        impl.cleanup()
    crashed = unowned = 0
    for case, (st, r) in zip(cases, results):
        tag = "%s_%s_%s_%s_%s" % (mode, case["flavour"], case["entry"], case["point"], case["action"])
        if st != "ok":
            crashed += 1
            run.add_violation("the interpreter died (rc=%s) in audit case %s/%s/%s/%s (mode %s)"
                              % (r.get("returncode"), case["flavour"], case["entry"], case["point"], case["action"], mode),
                              {"property": ID, "kind": "interpreter crashed during a re-entrant lookup", "mode": mode, "case": case,
                               "returncode": r.get("returncode"), "stderr_tail": r.get("stderr", "")[-2000:],
                               "python": replay_text(case, {}, mode)}, "crash_" + tag)
            continue
        o = r["obs"][0]
        if "skip" in o:
            continue
        bad = ("error" in o) or (o.get("fired") and (not o["owned"] or o["answer"] in (2, 5) or not o["second"]
                                                    or abs(o["growth_objs"]) > 8 or o["growth_refs"] > 8))
        if bad:
            unowned += 1
            run.add_violation("audit case %s/%s/%s/%s (mode %s): %s" % (case["flavour"], case["entry"], case["point"], case["action"], mode,
                                                                      "not owned" if not o.get("owned", True) else "wrong answer / leak"),
                              {"property": ID, "kind": "implementation contradicts Spec on this input", "mode": mode, "case": case,
                               "observed": o, "python": replay_text(case, o, mode)}, "audit_" + tag)
    run.coverage["audit_crashed_%s" % mode] = {"cases_killing_the_interpreter": crashed, "other_failing_cases": unowned,
                                               "first_crash": res.get("returncode")}
    if not crashed and not unowned:
        run.add_violation("the audit driver died as a whole (rc=%s) but no single case reproduces it" % res.get("returncode"),
                          {"property": ID, "kind": "driver crash", "mode": mode, "stderr_tail": res.get("stderr", "")[-3000:]},
                          "crash_%s_all" % mode)


# --------------------------------------------------------------------------- the extractor tie

MUTATING_METHODS = {"append", "remove", "insert", "pop", "extend", "sort", "reverse", "clear", "setdefault", "update",
                    "popitem", "__setitem__", "__delitem__", "__iadd__"}


def extendors_are_snapshots():
    """Fail-closed shape check of adapter.py: the Python walkers (_lookup / _lookupAll / _subscriptions)
    iterate ``_extendors[i]`` while other code may run (key __hash__/__eq__, other threads), which is only
    sound if every update of an extendors list ASSIGNS A NEW LIST (``_extendors[i] = [..]``) instead of
    mutating the list a walker may be iterating.  Accepted shape of add_extendor / remove_extendor /
    init_extendors: assignments, ``for``, expression statements that are docstrings or calls of
    add_extendor; no mutating method call, no ``del``, no augmented assignment; at least one assignment
    ``_extendors[..] = <list display / comprehension / concatenation of those>``.  -> list of errors"""
    import ast
    path = os.path.join(C.REPO, "src", "zope", "interface", "adapter.py")
    try:
        tree = ast.parse(open(path).read())
    except Exception as e:   # noqa
        return ["adapter.py does not parse: %r" % (e,)]
    cls = [n for n in tree.body if isinstance(n, ast.ClassDef) and n.name == "AdapterLookupBase"]
    if len(cls) != 1:
        return ["class AdapterLookupBase not found in adapter.py"]
    fns = {n.name: n for n in cls[0].body if isinstance(n, ast.FunctionDef)}
    errs = []

    def fresh_list(e):
        if isinstance(e, (ast.List, ast.ListComp)):
            return True
        if isinstance(e, ast.BinOp) and isinstance(e.op, ast.Add):
            return fresh_list(e.left) and fresh_list(e.right)
        return False

    for name in ("add_extendor", "remove_extendor"):
        fn = fns.get(name)
        if fn is None:
            errs.append("AdapterLookupBase.%s not found" % name)
            continue
        stores = 0
        for node in ast.walk(fn):
            if isinstance(node, (ast.AugAssign, ast.Delete, ast.While, ast.Try, ast.With, ast.Global, ast.Nonlocal)):
                errs.append("%s: statement %s at line %d is not of the accepted shape" % (name, type(node).__name__, node.lineno))
            if isinstance(node, ast.Call) and isinstance(node.func, ast.Attribute) and node.func.attr in MUTATING_METHODS:
                errs.append("%s: in-place mutation .%s() at line %d (a running walker may be iterating that list)"
                            % (name, node.func.attr, node.lineno))
            if isinstance(node, ast.Assign):
                for t in node.targets:
                    if isinstance(t, ast.Subscript):
                        base = t.value
                        if isinstance(base, ast.Name) and base.id == "_extendors":
                            if fresh_list(node.value):
                                stores += 1
                            else:
                                errs.append("%s: _extendors[..] is assigned something that is not a new list (line %d)" % (name, node.lineno))
                        else:
                            errs.append("%s: item assignment to %s at line %d" % (name, ast.dump(base)[:40], node.lineno))
                    elif isinstance(t, ast.Attribute):
                        errs.append("%s: attribute assignment at line %d" % (name, node.lineno))
        if not stores:
            errs.append("%s: no assignment ``_extendors[i] = <new list>`` found" % name)
    # the walkers must iterate the list they were given, nothing else mutates it
    walkers = {n.name: n for n in tree.body if isinstance(n, ast.FunctionDef) and n.name in ("_lookup", "_lookupAll", "_subscriptions")}
    for name in ("_lookup", "_lookupAll", "_subscriptions"):
        fn = walkers.get(name)
        if fn is None:
            errs.append("walker %s not found" % name)
            continue
        for node in ast.walk(fn):
            if isinstance(node, ast.Call) and isinstance(node.func, ast.Attribute) and isinstance(node.func.value, ast.Name) \
                    and node.func.value.id == "provided" and node.func.attr in MUTATING_METHODS:
                errs.append("%s mutates the extendors list it iterates (line %d)" % (name, node.lineno))
    return errs


def mutators_end_with_changed():
    """Fail-closed shape check of adapter.py: every mutator of BaseAdapterRegistry invalidates LAST.
    register / unregister / subscribe / unsubscribe / _setBases: the last top-level statement is
    ``self.changed(self)``, or ``return <constant>`` right after it; nothing in the module assigns, deletes
    or setattr's an attribute called ``changed`` (the notification cannot be switched off); no ``try`` /
    ``with`` wraps the tail.  rebuild(): calls ``self.__init__(..)`` and ends with top-level loops whose
    bodies are exactly ``self.register(*args)`` / ``self.subscribe(*args)`` (each of which ends with
    changed()), again outside any ``try``.  Early returns before the storage is touched are allowed and not
    analysed further.  -> list of errors"""
    import ast
    path = os.path.join(C.REPO, "src", "zope", "interface", "adapter.py")
    try:
        tree = ast.parse(open(path).read())
    except Exception as e:   # noqa
        return ["adapter.py does not parse: %r" % (e,)]
    errs = []
    for node in ast.walk(tree):
        targets = []
        if isinstance(node, ast.Assign):
            targets = node.targets
        elif isinstance(node, (ast.AugAssign, ast.AnnAssign)):
            targets = [node.target]
        elif isinstance(node, ast.Delete):
            targets = node.targets
        for t in targets:
            if isinstance(t, ast.Attribute) and t.attr == "changed":
                errs.append("line %d: the attribute ``changed`` is assigned or deleted" % node.lineno)
        if isinstance(node, ast.Call) and isinstance(node.func, ast.Name) and node.func.id in ("setattr", "delattr"):
            if len(node.args) > 1 and isinstance(node.args[1], ast.Constant) and node.args[1].value == "changed":
                errs.append("line %d: %s(.., 'changed')" % (node.lineno, node.func.id))
        if isinstance(node, ast.Subscript) and isinstance(node.slice, ast.Constant) and node.slice.value == "changed" \
                and isinstance(getattr(node, "ctx", None), (ast.Store, ast.Del)):
            errs.append("line %d: __dict__['changed'] is written" % node.lineno)
    cls = [n for n in tree.body if isinstance(n, ast.ClassDef) and n.name == "BaseAdapterRegistry"]
    if len(cls) != 1:
        return errs + ["class BaseAdapterRegistry not found in adapter.py"]
    fns = {n.name: n for n in cls[0].body if isinstance(n, ast.FunctionDef)}

    def is_changed_call(st):
        return (isinstance(st, ast.Expr) and isinstance(st.value, ast.Call) and isinstance(st.value.func, ast.Attribute)
                and st.value.func.attr == "changed" and isinstance(st.value.func.value, ast.Name)
                and st.value.func.value.id == "self")

    for name in ("register", "unregister", "subscribe", "unsubscribe", "_setBases"):
        fn = fns.get(name)
        if fn is None:
            errs.append("BaseAdapterRegistry.%s not found" % name)
            continue
        body = [st for st in fn.body if not (isinstance(st, ast.Expr) and isinstance(st.value, ast.Constant))]
        tail = body[-2:] if (body and isinstance(body[-1], ast.Return)) else body[-1:]
        if tail and isinstance(tail[-1], ast.Return):
            ok = len(tail) == 2 and is_changed_call(tail[0]) and (tail[1].value is None or isinstance(tail[1].value, ast.Constant))
        else:
            ok = bool(tail) and is_changed_call(tail[-1])
        if not ok:
            errs.append("%s does not end with ``self.changed(self)`` (line %d)" % (name, fn.lineno))
    fn = fns.get("rebuild")
    if fn is None:
        errs.append("BaseAdapterRegistry.rebuild not found")
    else:
        if any(isinstance(n, (ast.Try, ast.With)) for st in fn.body for n in ast.walk(st)
               if not isinstance(st, ast.FunctionDef)):
            errs.append("rebuild: try / with around the replay (line %d)" % fn.lineno)
        body = [st for st in fn.body if not (isinstance(st, ast.Expr) and isinstance(st.value, ast.Constant))]
        tail = []
        while body and isinstance(body[-1], ast.For):
            tail.append(body.pop())
        called = set()
        for st in tail:
            b = st.body
            if len(b) == 1 and isinstance(b[0], ast.Expr) and isinstance(b[0].value, ast.Call) \
                    and isinstance(b[0].value.func, ast.Attribute) and isinstance(b[0].value.func.value, ast.Name) \
                    and b[0].value.func.value.id == "self" and b[0].value.func.attr in ("register", "subscribe"):
                called.add(b[0].value.func.attr)
            else:
                errs.append("rebuild: a trailing loop does something else than self.register / self.subscribe (line %d)" % st.lineno)
        if called != {"register", "subscribe"}:
            errs.append("rebuild does not end with the replay loops over self.register(*args) and self.subscribe(*args)")
        if not any(isinstance(n, ast.Call) and isinstance(n.func, ast.Attribute) and n.func.attr == "__init__" for n in ast.walk(fn)):
            errs.append("rebuild does not re-initialise the registry through self.__init__")
    return errs


def regenerate(run):
    errs = cskeleton.regenerate()
    shape = extendors_are_snapshots()
    run.coverage["extendors_updates_assign_new_lists"] = not shape
    errs += ["adapter.py extendors: " + e for e in shape]
    shape2 = mutators_end_with_changed()
    run.coverage["mutators_end_with_changed"] = not shape2
    errs += ["adapter.py mutators: " + e for e in shape2]
    try:
        desc = json.load(open(cskeleton.OUT_JSON))
    except Exception:   # noqa
        desc = {}
    if isinstance(desc, list):
        run.coverage["skeleton_paths"] = {f["name"]: len(f["paths"]) for f in desc if "table_entry" not in f}
        run.coverage["skeleton_notes"] = [f["name"] + ": " + n for f in desc for n in f["notes"]]
        run.coverage["skeleton_loops"] = {f["name"]: ["line %d: %d way(s) of reaching the head / %d iteration shape(s)"
                                                     % (lp["line"], 1, len(lp["iterations"])) for lp in f.get("loops", [])]
                                          for f in desc if f.get("loops")}
        table = {f["name"]: f["table_entry"] for f in desc if "table_entry" in f}
        run.coverage["api_table_entries_instead_of_extraction"] = table
        for name, why in sorted(table.items()):
            if name not in EXPECTED_TABLE_ENTRIES:
                errs.append("%s can no longer be extracted (%s): it would silently fall back to an API-table entry" % (name, why))
    # the Tie module must exist even when the proof obligation over today's skeleton breaks
    ok, out = C.coq_make(["Tie/C11.vo"])
    if not ok:
        errs.append("Tie/C11.v does not build: " + out[-1500:])
    elif not [e for e in errs if "aborted" in e]:
        fails = _d_failures(desc)
        run.coverage["discipline_failures"] = fails
        if fails:
            errs.append("ownership discipline D violated by today's C source on %d path(s), first: %s"
                        % (len(fails), fails[0]))
    _STATE["skeleton_broken"] = bool([e for e in errs if not e.startswith("adapter.py ")])
    return errs


def _d_failures(desc):
    """Which extracted paths break D (strict / key callbacks ignored): diagnostics for the evidence."""
    import re
    d = tempfile.mkdtemp(prefix="zi_verif_c11_")
    path = os.path.join(d, "dfail.v")
    with open(path, "w") as fh:
        fh.write("From Coq Require Import List.\nImport ListNotations.\nFrom ZI Require Import Model.Own Gen.CSkeleton.\n"
                 "Eval vm_compute in (D_failures true skeleton).\nEval vm_compute in (D_failures false skeleton).\n")
    rc, out, err = C.coqc_file(path, cwd=d)
    shutil.rmtree(d, ignore_errors=True)
    if rc != 0:
        return ["could not evaluate D: " + err[-300:]]
    res = re.findall(r"= (\[.*?\])\s*:", out, re.S)
    strict = re.findall(r"\((\d+), (\d+)\)", res[0]) if res else []
    loose = set(re.findall(r"\((\d+), (\d+)\)", res[1])) if len(res) > 1 else set()
    msgs = []
    for f, p in strict:
        fn = desc[int(f)]
        msgs.append("%s path %s%s: %s" % (fn["name"], p, "" if (f, p) in loose else " (only with key __hash__/__eq__ callbacks)",
                                          "; ".join(fn["paths"][int(p)]["trail"])[:400]))
    return msgs


# --------------------------------------------------------------------------- supporting runs

HAZARDS = ["provided_hash_lookup", "provided_hash_lookupAll", "provided_hash_subscriptions", "name_bool_lookup",
           "name_hash_lookup", "required_hash_lookup1", "required_hash_adapter_hook", "super_self_property",
           "uncached_lookup", "uncached_lookupAll", "uncached_subscriptions", "generation_verify",
           "generation_changed_leak", "provides_leak", "destructor_lookup", "long_required_hit", "adapter_hooks_mutation",
           "destructor_reenters_during_changed"]


# deterministic interleavings (a simulated thread switch), run on both implementations
BOTH_MODE_HAZARDS = ["stale_ro_after_reader_refresh", "concurrent_changed_unsubscribe",
                     "mutation_from_key_hash_during_walk", "lookup_during_mutator"]


def _asan_env():
    import subprocess
    lib = subprocess.run(["gcc", "-print-file-name=libasan.so"], capture_output=True, text=True).stdout.strip()
    if not lib or not os.path.exists(lib):
        return None
    return {"LD_PRELOAD": lib, "ASAN_OPTIONS": "detect_leaks=0:abort_on_error=0:exitcode=99", "PYTHONMALLOC": "malloc"}


def extra(run, impl, known):
    quick = run.tier == "quick"
    secs = 15 if quick else 300
    asan_env = _asan_env()
    asan_impl = None
    if asan_env:
        old = os.environ.get("VERIF_CFLAGS")
        os.environ["VERIF_CFLAGS"] = "-fsanitize=address -fno-omit-frame-pointer"
        try:
            asan_impl = C.Impl()
        finally:
            if old is None:
                os.environ.pop("VERIF_CFLAGS", None)
            else:
                os.environ["VERIF_CFLAGS"] = old
        if not asan_impl.c_ok:
            asan_impl = None
    run.coverage["asan_build"] = bool(asan_impl)
    jobs = []   # (label, impl, driver, payload, mode, env, timeout)
    for mode in ("c", "py"):
        jobs.append(("stress/%s" % mode, impl, "c11_stress.py", {"seconds": secs, "readers": 3, "mutator": True, "seed": run.seed}, mode, None))
        jobs.append(("readers-only/%s" % mode, impl, "c11_stress.py", {"seconds": max(5, secs // 3), "readers": 4, "mutator": False, "seed": run.seed}, mode, None))
    for hz in HAZARDS:
        jobs.append(("hazard/%s" % hz, impl, "c11_hazard.py", {"which": hz, "n": 300 if quick else 3000}, "c", None))
    for hz in BOTH_MODE_HAZARDS:
        jobs.append(("hazard/%s" % hz, impl, "c11_hazard.py", {"which": hz, "n": 1}, "c", None))
        jobs.append(("hazard-py/%s" % hz, impl, "c11_hazard.py", {"which": hz, "n": 1}, "py", None))
    if asan_impl:
        jobs.append(("stress/asan", asan_impl, "c11_stress.py", {"seconds": secs, "readers": 3, "mutator": True, "seed": run.seed}, "c", asan_env))
        for hz in HAZARDS:
            jobs.append(("hazard-asan/%s" % hz, asan_impl, "c11_hazard.py", {"which": hz, "n": 60 if quick else 600}, "c", asan_env))

    def one(job):
        label, im, driver, payload, mode, env = job
        try:
            return job, im.run(driver, payload, mode, env=env, timeout=(secs * 3 + 120) if "stress" in driver else 120)
        except Exception as e:   # noqa (timeout)
            return job, ("crash", {"returncode": -999, "stderr": repr(e), "stdout": ""})

    results = {}
    try:
        with concurrent.futures.ThreadPoolExecutor(max_workers=8) as ex:
            for job, (st, res) in ex.map(one, jobs):
                results[job[0]] = (job, st, res)
    finally:
        if asan_impl:
            asan_impl.cleanup()
    summary = {}
    for label, (job, st, res) in sorted(results.items()):
        _l, _im, driver, payload, mode, env = job
        how = ("ZI_SCRATCH=<scratch build of the working tree%s> ZI_MODE=%s PYTHONPATH=harness/drivers %s"
               "python harness/drivers/%s   # stdin: %s"
               % (" with VERIF_CFLAGS='-fsanitize=address -fno-omit-frame-pointer'" if env else "", mode,
                  ("LD_PRELOAD=$(gcc -print-file-name=libasan.so) ASAN_OPTIONS=detect_leaks=0 PYTHONMALLOC=malloc " if env else ""),
                  driver, json.dumps(payload)))
        if st != "ok":
            summary[label] = "CRASH rc=%s" % res.get("returncode")
            rp = {"property": ID, "kind": "interpreter crashed / sanitizer report / driver died", "run": label,
                  "returncode": res.get("returncode"), "stderr_tail": res.get("stderr", "")[-3000:], "replay": how}
            run.add_violation("%s: process died (rc=%s)" % (label, res.get("returncode")), rp,
                              "extra_" + label.replace("/", "_"), key="crash:" + label, known=known)
            continue
        summary[label] = res.get("summary", "ok")
        for f in res.get("findings") or []:
            rp = {"property": ID, "kind": "concrete failing run (misbehaviour with a stable signature)", "run": label,
                  "finding": f, "replay": how}
            run.add_violation("%s: %s" % (label, f["text"][:300]), rp, "extra_" + label.replace("/", "_") + "_" + f["key"][:12],
                              key=f["key"], known=known)
        if res.get("failures"):
            rp = {"property": ID, "kind": "concrete failing run", "run": label, "failures": res["failures"][:10],
                  "stats": res.get("stats"), "replay": how}
            run.add_violation("%s: %s" % (label, res["failures"][0]), rp, "extra_" + label.replace("/", "_"),
                              key="fail:" + label, known=known)
    run.coverage["supporting_runs"] = summary
