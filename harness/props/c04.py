"""C04 — adapter lookup returns the most specific applicable registration (DESIGN.md section 5, C04)."""
import itertools
import json
import os

from .. import common as C
from ..translate import walkers as WK
from . import regcommon as RC

ID = "C04"
COQ_TARGETS = ["Tie/C04.vo", "Properties/C04.vo"]
PROPERTY_FILE = "Properties/C04.v"
TIE = "Tie.C04"
DRIVER = "c04_driver.py"
THEOREMS = ["C04_lookup_sound", "C04_lookup_complete", "C04_lookup_least", "C04_none_means_any",
            "C04_extendors_inv", "C04_system_inv",
            "C04_generated_walkers_eq_trie", "C04_generated_extendors_eq_model", "C04_generated_walkers_eq_model",
            "C04_generated_lookup_meets_spec"]
ADAPTER_PY = os.path.join(C.REPO, "src", "zope", "interface", "adapter.py")
GEN_KERNEL = os.path.join(C.COQ, "Gen", "WalkersKernel.v")


def regenerate(run):
    """Re-translate the walkers / extendors bookkeeping of adapter.py into coq/Gen/WalkersKernel.v (fail closed:
    a refusal is reported, and the pinned kernel is written so that the rest of the development still builds and
    the correspondence + Spec oracle can look for a concrete failing input)."""
    errors = []
    try:
        text = WK.translate_file(ADAPTER_PY)
    except Exception as e:  # noqa
        text = WK.pinned()
        errors.append("harness/translate/walkers.py refused %s (%s: %s); coq/Gen/WalkersKernel.v holds the pinned "
                      "kernel, so the C04_generated_* theorems are NOT about the current source"
                      % (ADAPTER_PY, type(e).__name__, e))
    C.write_if_changed(GEN_KERNEL, text)
    return errors
SHARD = 10
RULE = ("worlds of <= 8 specifications (interfaces and class declarations, multiple inheritance), registry DAGs of "
        "1-4 registries of one flavour, <= 25 register/unregister/subscribe/unsubscribe operations of arity 0-3 over "
        "<= 3 names (targeted: derived from earlier registrations by moving one required position or the provided "
        "interface along the hierarchy; no rebuild, see report).  One lookup block per case (for 2-3 (registry, "
        "provided, name) combinations ALL required keys of arity <= 2 over the world, sampled arity-3 keys, "
        "registered()) is replayed VERBATIM three times: after 2/3 of the history, again after ONE mutator that "
        "overwrites / unregisters a live key the block resolves to (registry itself or a base registry), and at the "
        "end; in between 6-8 churn steps = lookups around a live key (exact and derived keys, generalised provided, "
        "through sub-registries), one overwrite / unregister / re-register of that key (None/Interface respelled), "
        "the same lookups again; then RE-BASING (60% of the 4+-registry cases are a chain top <- mid <- leaf of depth >= 3 "
        "whose top is given __bases__ only after the chain exists, plus random __bases__ assignments): lookups of live "
        "keys on EVERY registry, one assignment, the same lookups; and, in worlds with classes, 1-3 DYNAMIC blocks: "
        "registrations needing IB at a later position, a lookup that subscribes the earlier-position spec (or the same "
        "spec twice), the multi-arity lookups, classImplements*(B, IB), the same lookups, classImplementsOnly, again "
        "(each world step starts a new phase with its own observed world); and ARITY-0 blocks: a sub-registry is "
        "queried with arity-0 lookups only (no specification to subscribe to) around register / overwrite / unregister "
        "in one of its bases and around a new grand-base assigned to that base.  Non-trivial = at least two different values and the default were returned; "
        "distinct = (registries, arities registered, number of distinct values returned)")
TRUSTED_BASE = [
    "harness/translate/walkers.py (fail-closed Python-ast translator of _lookup/_lookupAll/_subscriptions, "
    "_uncached_*, add/remove/init_extendors, _convert_None_to_Interface) and the meaning it gives to the accepted "
    "constructs (Model/WalkersVocab.v: dict.get, truthiness, reversed, for-with-early-return = first_some, "
    "for-mutating-result = fold_left, recursion on (i, l) = explicit fuel proved sufficient)",
    "Model/Trie.v + Spec/TrieRel.v + Proofs/TrieRefines.v (C09): nested dictionaries and their refinement of the flat map",
    "Model/Adapter.v abstraction: nested dictionaries represented by the finite map from full keys to values "
    "(validated against the implementation by this correspondence and by bin/check REG)",
    "Ro.fresh_sro / Ro.ro reproduce __sro__ and registry.ro from the observed __bases__ (validated by the "
    "correspondence: answers depend on them; world well-formedness is re-checked per case inside check_model)",
]
ASSUMPTIONS = [
    "provided interfaces of registrations and lookups are interfaces (the requested provided spec must be in its own __iro__)",
    "in-place changes of the specification graph are classImplements / classImplementsFirst / classImplementsOnly on "
    "classes whose declarations are required specifications (general re-basing of specifications is C02/C05's subject)",
]


def _conv(x):
    return 0 if x is None else x


def _key(op):
    return (tuple(_conv(x) for x in op[2]), op[3], op[4])


def _apply(net, op):
    """net effect of a mutator on the generator's own picture of the live registrations"""
    k = op[0]
    if k == "register":
        if op[5] is None:
            net[op[1]].pop(_key(op), None)
        else:
            net[op[1]][_key(op)] = op[5][0]
    elif k == "unregister":
        cur = net[op[1]].get(_key(op))
        if cur is not None and (op[5] is None or op[5][0] == cur):
            del net[op[1]][_key(op)]


def _other_value(rng, cur):
    vid = rng.choice([x for x in range(1, 6) if x != cur])
    return [vid, 1 if vid in (1, 2) else vid]


def _block(rng, world, ifaces, regs_seen, n_regs, combos, arity3):
    """The exhaustive lookup block of a case: built ONCE, replayed verbatim at several points of the
    history, so that every key is looked up before and after the mutators in between."""
    rel = RC.Rel(world)
    pool = list(range(len(world["specs"])))
    ops = []
    names = [0, 0, 1, 2]
    chosen = []
    for _ in range(combos):
        if regs_seen and rng.random() < 0.85:
            _req0, p0, n0 = rng.choice(regs_seen)
            p = rng.choice([x for x in rel.ancestors(p0) if x in ifaces or x == 0])
            nm = n0
        else:
            p, nm = rng.choice(ifaces + [0]), rng.choice(names)
        r = n_regs - 1 if rng.random() < 0.6 else rng.randrange(n_regs)
        chosen.append((r, p, nm))
        ops.append(["lookup", r, [], p, nm])
        for a in pool:
            if rng.random() < 0.5:
                ops.append(["lookup", r, [a], p, nm])
            else:
                ops.append(["lookup1", r, a, p, nm])
        for a in pool:
            for b in pool:
                ops.append(["lookup", r, [a, b], p, nm])
        if rng.random() < 0.2:
            ops.append(["lookup", r, [rng.choice(pool)], p, "X"])
    three = [t for t in regs_seen if len(t[0]) == 3]
    for _ in range(arity3):
        if three and rng.random() < 0.8:
            req0, p0, n0 = rng.choice(three)
            req = [rng.choice(rel.descendants(_conv(x))) for x in req0]
            p = rng.choice([x for x in rel.ancestors(p0) if x in ifaces or x == 0])
            nm = n0
        else:
            req = [rng.choice(pool) for _ in range(3)]
            p, nm = rng.choice(ifaces + [0]), rng.choice(names)
        ops.append(["lookup", rng.randrange(n_regs), req, p, nm])
    for t in rng.sample(regs_seen, min(len(regs_seen), 6)):
        ops.append(["registered", rng.randrange(n_regs), t[0], t[1], t[2]])
    return ops, chosen


def _users(head):
    """users[r] = registries whose resolution order contains r (r itself and its sub-registries)"""
    anc = []
    for r, op in enumerate(head):
        a = {r}
        for b in op[2]:
            a |= anc[b]
        anc.append(a)
    return [[x for x in range(len(head)) if r in anc[x]] for r in range(len(head))]


def _respell(rng, req):
    """an equivalent spelling of the required key: None <-> Interface"""
    return [(None if rng.random() < 0.5 else 0) if _conv(x) == 0 and rng.random() < 0.4 else x for x in req]


def _churn_mutation(rng, net, removed, prefer):
    """one mutator aimed at a key that is (or just was) live: overwrite with another value, unregister,
    or re-register a key removed earlier.  [prefer] restricts the registries when possible."""
    live = [(r, k) for r in range(len(net)) for k in net[r]]
    pick = [x for x in live if x[0] in prefer] or live
    kind = rng.choice(["overwrite", "overwrite", "overwrite", "unregister", "reregister"])
    if kind == "reregister" and removed:
        r, k = rng.choice(removed)
        return ["register", r, _respell(rng, list(k[0])), k[1], k[2], _other_value(rng, 0)]
    if not pick:
        return None
    r, k = rng.choice(pick)
    if kind == "unregister":
        removed.append((r, k))
        v = None if rng.random() < 0.5 else [net[r][k], 1 if net[r][k] in (1, 2) else net[r][k]]
        return ["unregister", r, _respell(rng, list(k[0])), k[1], k[2], v]
    return ["register", r, _respell(rng, list(k[0])), k[1], k[2], _other_value(rng, net[r][k])]


def _around(rng, world, ifaces, users, mut, extra):
    """lookups that resolve to the key a mutator touches: the key itself and keys below it, asked for
    the provided interface and for its generalisations, on the registry and on its sub-registries"""
    rel = RC.Rel(world)
    r0, req, p, nm = mut[1], [_conv(x) for x in mut[2]], mut[3], mut[4]
    out = []
    for j in range(extra):
        rl = rng.choice(users[r0])
        lreq = list(req) if j == 0 else [rng.choice(rel.descendants(x)) for x in req]
        lp = p if j % 2 == 0 else rng.choice([x for x in rel.ancestors(p) if x in ifaces or x == 0])
        if len(lreq) == 1 and rng.random() < 0.5:
            out.append(["lookup1", rl, lreq[0], lp, nm])
        else:
            out.append(["lookup", rl, lreq, lp, nm])
    return out


SHAPES = [(3, 0), (4, 0), (5, 0), (3, 2), (4, 2), (3, 3), (4, 2), (3, 2), (4, 3)]
WORLD_STEPS = ("classImplements", "classImplementsFirst", "classImplementsOnly")
NO_QUERIES = {"register": 9, "unregister": 2, "subscribe": 1.2, "unsubscribe": 0.8, "rebuild": 0,
              "setregbases": 0, "lookup": 0, "lookup1": 0, "lookupAll": 0, "names": 0, "subscriptions": 0,
              "registered": 0, "subscribed": 0, "allRegistrations": 0, "allSubscriptions": 0,
              "queryAdapter": 0, "adapter_hook": 0, "queryMultiAdapter": 0, "subscribers": 0}


def _users_of(bases):
    return _users([["newreg", "", b] for b in bases])


def _topology(rng, n_regs, fl):
    """-> (newreg ops, planned re-basings).  'chain': registry 0 stands alone, 1 <- 2 <- ... is a chain
    of depth >= 3 whose TOP (1) is given __bases__ = (0,) only after the chain exists."""
    if n_regs >= 4 and rng.random() < 0.6:
        bases = [[], []] + [[r - 1] for r in range(2, n_regs)]
        planned = [["setregbases", 1, [0]]]
        if rng.random() < 0.5:
            planned.append(["setregbases", 1, []])
            planned.append(["setregbases", 2, [1, 0]] if rng.random() < 0.5 else ["setregbases", 1, [0]])
    else:
        bases = []
        for r in range(n_regs):
            bs = [b for b in range(r) if rng.random() < 0.6][-2:]
            bs.reverse()
            bases.append(bs)
        planned = []
    return [["newreg", fl, list(b)] for b in bases], planned, bases


def _random_rebase(rng, n_regs):
    r = rng.randrange(1, n_regs)
    cand = list(range(r))
    rng.shuffle(cand)
    return ["setregbases", r, sorted(cand[: rng.choice([0, 1, 1, 2])], reverse=True)]


def _everywhere(rng, world, ifaces, net, n_regs, nkeys):
    """lookups of live keys (exact and one derived spelling) on EVERY registry"""
    rel = RC.Rel(world)
    live = [(r, k) for r in range(n_regs) for k in net[r]]
    out = []
    for r0, k in rng.sample(live, min(len(live), nkeys)):
        req, p, nm = list(k[0]), k[1], k[2]
        lreq = [rng.choice(rel.descendants(x)) for x in req]
        lp = rng.choice([x for x in rel.ancestors(p) if x in ifaces or x == 0])
        for rl in range(n_regs):
            out.append(["lookup", rl, req, p, nm])
            out.append(["lookup", rl, lreq, lp, nm])
    return out


def _anc_regs(bases):
    out = {}

    def go(r):
        if r not in out:
            out[r] = set()
            for b in bases[r]:
                out[r] |= {b} | go(b)
        return out[r]
    for r in range(len(bases)):
        go(r)
    return out


def _arity0(rng, world, ifaces, net, bases, n_regs):
    """A sub-registry queried with ARITY-0 lookups ONLY (such lookups subscribe to no specification) around
    mutations of one of its bases and a re-basing of that base: its own caches are cleared first by a
    registration of its own, then: lookups, register in the base, lookups, overwrite, lookups, unregister,
    lookups, a registration in a registry that is not yet above, the base gets it as a new base, lookups."""
    rel = RC.Rel(world)
    anc = _anc_regs(bases)
    pairs = [(r0, rl) for rl in range(n_regs) for r0 in anc[rl]]
    if not pairs:
        return []
    r0, rl = rng.choice(pairs)
    p = rng.choice(ifaces)
    nm = rng.choice([0, 0, 1, 2])
    gen = [y for y in rel.ancestors(p) if y in ifaces or y == 0]
    keys = [(p, nm), (rng.choice(gen), nm), (rng.choice(ifaces + [0]), rng.choice([0, 1, 2]))]
    looks = [["lookup", rl, [], q, n] for q, n in keys]
    ops = []

    def mut(m):
        _apply(net, m)
        ops.append(m)
        ops.extend(looks)

    clear = ["register", rl, [], rng.choice(ifaces), 3, _other_value(rng, net[rl].get(((), 0, 3), 0))]
    clear[3] = rng.choice(ifaces)
    mut(clear)
    cur = net[r0].get(((), p, nm), 0)
    mut(["register", r0, [], p, nm, _other_value(rng, cur)])
    mut(["register", r0, [], p, nm, _other_value(rng, net[r0][((), p, nm)])])
    if rng.random() < 0.7:
        mut(["unregister", r0, [], p, nm, None])
    # a new grand-base
    others = [g for g in range(n_regs) if g != r0 and r0 not in anc[g] and g not in anc[r0] and g < r0]
    if others:
        g = rng.choice(others)
        m = ["register", g, [], p, nm, _other_value(rng, net[g].get(((), p, nm), 0))]
        _apply(net, m)
        ops.append(m)
        ops.extend(looks)
        keep = [b for b in bases[r0] if b not in anc[g] and g not in anc[b]]
        nb = sorted(set(keep + [g]), reverse=True)
        ops.append(["setregbases", r0, nb])
        bases[r0] = nb
        ops.extend(looks)
    return ops


def _dynamic(rng, track, ifaces, classes, net, bases, n_regs):
    """An in-place change of a class declaration between repeated multi-arity lookups: registrations that
    need IB at a LATER position, a lookup that subscribes the lookup object to the spec of an EARLIER
    position (or the same spec repeated), the multi-arity lookups (answers cached), classImplements*(B, IB),
    the same lookups again; then the declaration is narrowed again (classImplementsOnly) and once more."""
    rel = RC.Rel(track)
    b = rng.choice(classes)
    cands = [i for i in ifaces if i not in rel.anc[b]]
    if not cands:
        return []
    ib = rng.choice(cands)
    pool = list(ifaces) + list(classes)
    sa = rng.choice(pool)
    x = rng.choice(rel.ancestors(sa))
    xs = None if (x == 0 and rng.random() < 0.5) else x
    p = rng.choice(ifaces)
    pq = rng.choice([y for y in rel.ancestors(p) if y in ifaces or y == 0])
    nm = rng.choice([0, 0, 1, 2])
    r0 = rng.randrange(n_regs)
    users = _users_of(bases)
    rl = rng.choice(users[r0])
    ops = []
    for req in ([xs, ib], [xs, xs, ib], [ib, xs]):
        m = ["register", r0, list(req), p, nm, _other_value(rng, 0)]
        _apply(net, m)
        ops.append(m)
    first = ["lookup1", rl, sa, pq, nm] if rng.random() < 0.5 else ["lookup", rl, [sa], pq, nm]
    variant = rng.choice("AABC")
    if variant == "A":      # an earlier arity-1 lookup saw sa; then sa sits at the earlier position
        look = [first, ["lookup", rl, [sa, b], pq, nm], ["lookup", rl, [sa, sa, b], pq, nm],
                ["lookup", rl, [sa, b], p, nm]]
    elif variant == "B":    # no warm-up: the same spec twice in one lookup
        look = [["lookup", rl, [sa, sa, b], pq, nm], ["lookup", rl, [sa, b], pq, nm]]
    else:                   # the changed class at the EARLIER position as well
        look = [first, ["lookup", rl, [b, sa], pq, nm], ["lookup", rl, [sa, b], pq, nm],
                ["lookup", rl, [sa, sa, b], pq, nm]]
    kind_ = rng.choice(["classImplements", "classImplements", "classImplementsFirst", "classImplementsOnly"])
    ops += look
    ops.append([kind_, b, ib])
    sp = track["specs"][b]
    sp["implements"] = [ib] if kind_ == "classImplementsOnly" else (
        [ib] + list(sp["implements"]) if kind_ == "classImplementsFirst" else list(sp["implements"]) + [ib])
    ops += look
    other = [i for i in ifaces if i != ib and ib not in RC.Rel(track).anc[i]]
    if other and rng.random() < 0.6:
        o = rng.choice(other)
        ops.append(["classImplementsOnly", b, o])
        sp["implements"] = [o]
        ops += look
    return ops


def gen_case(rng, big=False):
    import copy
    ni, nc = rng.choice(SHAPES)
    world, ifaces, classes = RC.gen_world(rng, n_ifaces=ni, n_classes=nc, n_objects=0)
    track = copy.deepcopy(world)          # the generator's picture of the (changing) world
    n_regs = rng.choice([1, 2, 3, 4, 4, 4])
    n_mut = rng.choice([8, 14, 20, 25])
    muts = RC.gen_history(rng, world, ifaces, classes, n_ops=n_mut, n_regs=n_regs, rebase=False, max_arity=3,
                          targeted=0.8, weights=NO_QUERIES)
    fl = muts[0][1]
    body = muts[n_regs:]
    head, planned, bases = _topology(rng, n_regs, fl)
    users = _users_of(bases)
    cut = (2 * len(body)) // 3
    seen = [(op[2], op[3], op[4]) for op in body[:cut] if op[0] == "register"]
    net = [dict() for _ in range(n_regs)]
    for op in body[:cut]:
        _apply(net, op)
    block, chosen = _block(rng, world, ifaces, seen, n_regs, 3 if big else 2, 30 if big else 16)
    ops = list(head) + body[:cut]
    # 1. the block, ONE mutator of a key the block resolves to, the SAME block again
    ops += block
    removed = []
    prefer = {b for (r, _p, _n) in chosen for b in range(n_regs) if r in users[b]}
    m = _churn_mutation(rng, net, removed, prefer)
    if m is not None:
        _apply(net, m)
        ops.append(m)
        ops += block
    # 2. churn: lookups around a key, one mutator of that key, the same lookups again
    for _ in range(8 if big else 6):
        m = _churn_mutation(rng, net, removed, set(range(n_regs)))
        if m is None:
            break
        around = _around(rng, world, ifaces, users, m, 5)
        ops += around
        ops.append(m)
        _apply(net, m)
        ops += around
    # 3. re-basing: lookups of live keys on every registry, ONE __bases__ assignment, the same lookups again
    if n_regs >= 2:
        steps = list(planned) + [_random_rebase(rng, n_regs) for _ in range(rng.choice([0, 1, 2]))]
        for st in steps:
            every = _everywhere(rng, world, ifaces, net, n_regs, 3)
            ops += every
            ops.append(st)
            bases[st[1]] = list(st[2])
            ops += every
        users = _users_of(bases)
    # 4. the rest of the history, then the same block again
    ops += body[cut:]
    for op in body[cut:]:
        _apply(net, op)
    ops += block
    # 5. arity-0 lookups only, through a sub-registry, around changes of a base
    if n_regs >= 2:
        for _ in range(rng.choice([1, 1, 2])):
            ops += _arity0(rng, world, ifaces, net, bases, n_regs)
    # 6. in-place changes of class declarations between repeated multi-arity lookups
    if classes:
        for _ in range(rng.choice([1, 2, 3])):
            ops += _dynamic(rng, track, ifaces, classes, net, bases, n_regs)
        if rng.random() < 0.3:
            ops += block
    world["ops"] = ops
    return world


def generate(run, tier):
    rng = run.rng("gen")
    n = 120 if tier == "quick" else 600
    return [gen_case(rng, big=(tier != "quick")) for _ in range(n)]


def coq_case(case, obs, mode):
    if "error" in obs:
        raise C.HarnessError("driver error: " + obs["error"])
    chunks, cur = [], []
    for op in case["ops"]:
        if op[0] in WORLD_STEPS:
            chunks.append(cur)
            cur = []
        else:
            cur.append(op)
    chunks.append(cur)
    assert len(chunks) == len(obs["phases"])
    phases = []
    for ph, ops in zip(obs["phases"], chunks):
        phases.append("(%s, %s, %s,\n    [%s])" % (
            RC.c_graph(ph), RC.c_ifaces(ph), RC.c_lnat(ph["changed"]),
            ";\n     ".join(RC.c_op(op, ph, []) for op in ops)))
    return "([%s],\n   %s)" % (";\n   ".join(phases), RC.c_answers(obs["answers"]))


def _reg_ops(case):
    return [op for op in case["ops"] if op[0] not in WORLD_STEPS]


def _lookup_answers(case, obs):
    return [a for op, a in zip(_reg_ops(case), obs["answers"]) if op[0] in ("lookup", "lookup1")]


def classify(case, obs):
    ans = _lookup_answers(case, obs)
    vals = {tuple(a) for a in ans}
    hits = {a for a in vals if a and a[0] == 1}
    if len(hits) < 2 or (0,) not in vals:
        return None
    ar = tuple(sorted({len(op[2]) for op in case["ops"] if op[0] == "register"}))
    nreg = sum(1 for op in case["ops"] if op[0] == "newreg")
    return (nreg, ar, len(hits), any(op[0] == "setregbases" for op in case["ops"]),
            sum(1 for op in case["ops"] if op[0] in WORLD_STEPS))


def kind(case, obs):
    nreg = sum(1 for op in case["ops"] if op[0] == "newreg")
    fl = case["ops"][0][1]
    return "%s/%d registries%s%s" % (fl, nreg, "/rebased" if any(op[0] == "setregbases" for op in case["ops"]) else "",
                                     "/dynamic world" if any(op[0] in WORLD_STEPS for op in case["ops"]) else "")


def _spec_expr(i, specs):
    k = specs[i]["kind"]
    if k == "root":
        return "Interface"
    if k == "iface":
        return "I%d" % i
    return "implementedBy(C%d)" % i if k == "class" else "implementedBy(object)"


def replay_text(case, obs, mode):
    """Self-contained script replaying the history; observed answers are appended as comments."""
    specs = case["specs"]
    L = ["# PURE_PYTHON=%s" % ("1" if mode == "py" else "0"),
         "from zope.interface import Interface, implementedBy, implementer",
         "from zope.interface.interface import InterfaceClass",
         "from zope.interface.adapter import AdapterRegistry, VerifyingAdapterRegistry",
         "class V:",
         "    def __init__(s, vid, veq): s.vid, s.veq = vid, veq",
         "    def __eq__(s, o): return isinstance(o, V) and o.veq == s.veq",
         "    def __hash__(s): return hash(s.veq)",
         "    def __repr__(s): return 'v%d' % s.vid",
         "vals = {}",
         "def v(x): return None if x is None else vals.setdefault(tuple(x), V(*x))",
         "def nm(n): return '' if n == 0 else 'n%d' % n"]
    for i, s in enumerate(specs):
        if s["kind"] == "iface":
            L.append("I%d = InterfaceClass('I%d', (%s), {})" % (
                i, i, "".join("I%d, " % b for b in s["bases"]) or "Interface,"))
        elif s["kind"] == "class":
            L.append("C%d = type('C%d', (%s), {})" % (i, i, "".join("C%d, " % b for b in s["cbases"]) or "object,"))
            if s["implements"]:
                L.append("implementer(%s)(C%d)" % (", ".join("I%d" % b for b in s["implements"]), i))
    L.append("S = [%s]" % ", ".join(_spec_expr(i, specs) for i in range(len(specs))))
    L.append("def sp(x): return None if x is None else S[x]")
    L.append("R = []")
    answers = iter(obs.get("answers", []))
    for op in case["ops"]:
        k = op[0]
        if k in WORLD_STEPS:
            L.append("from zope.interface import %s; %s(C%d, I%d)" % (k, k, op[1], op[2]))
            continue
        a = next(answers, None)
        if k == "newreg":
            L.append("R.append(%s(tuple(R[b] for b in %r)))" % (
                "AdapterRegistry" if op[1] == "push" else "VerifyingAdapterRegistry", op[2]))
        elif k in ("register", "unregister"):
            L.append("R[%d].%s([sp(x) for x in %r], S[%d], nm(%r), v(%r))" % (op[1], k, op[2], op[3], op[4], op[5]))
        elif k in ("subscribe", "unsubscribe"):
            L.append("R[%d].%s([sp(x) for x in %r], sp(%r), v(%r))" % (op[1], k, op[2], op[3], op[4]))
        elif k == "rebuild":
            L.append("R[%d].rebuild()" % op[1])
        elif k == "setregbases":
            L.append("R[%d].__bases__ = tuple(R[b] for b in %r)" % (op[1], op[2]))
        elif k == "lookup" and op[4] != "X":
            L.append("print(R[%d].lookup([S[x] for x in %r], S[%d], nm(%r)))   # observed %r  (0=default, [1, vid])" % (
                op[1], op[2], op[3], op[4], a))
        elif k == "lookup1" and op[4] != "X":
            L.append("print(R[%d].lookup1(S[%d], S[%d], nm(%r)))   # observed %r" % (op[1], op[2], op[3], op[4], a))
    return "\n".join(L)


TECHNIQUE = ("Gallina kernel regenerated from adapter.py on every run (walkers + extendors bookkeeping) proved equal to "
             "the nested-dictionary walkers and, through C09's refinement, to the flat model; Coq proof over a Gallina transcription of _uncached_lookup/_lookup/add_extendor/_provided counting "
             "(induction on the required list and on histories); vm_compute correspondence with both implementations "
             "and a brute-force Spec oracle inside Coq")
LEVEL_TEXT = ("Machine-checked theorems (Properties/C04.v, 10 theorems, closed under the global context); the last four tie "
              "them to the source TEXT: the Gallina regenerated from the current adapter.py (_lookup, _lookupAll, "
              "_subscriptions, _uncached_*, add/remove/init_extendors) equals the nested-dictionary walkers, the model's "
              "extendors surgery and, on registries reached by any history, Model.Adapter.uncached_lookup - so soundness, "
              "completeness and leastness hold of the generated _uncached_lookup.  For all worlds "
              "with reflexive, duplicate-free, transitively closed resolution orders, all registry lists, keys and "
              "arities, the model's uncached lookup is sound, complete and returns the preferred (least) applicable "
              "registration; the extendors invariant it relies on is proved for every registration history and every "
              "history of a system of registries.  On every run the model is compared with the C and Python "
              "implementations on generated worlds with exhaustive arity<=2 lookups, and the implementation's raw "
              "answers are judged by a brute-force enumeration of applicable registrations inside Coq.")
LEVEL_NOTE = ("Trusted: Coq kernel/vm_compute; the finite-map abstraction of the nested dictionaries and the shared "
              "registry model (validated by correspondence); the theorems are about the uncached walk (cache "
              "transparency is C05). 'Provided most general' is specified only up to strict extension: unrelated "
              "provided interfaces under identical required keys are left to registration order.")
