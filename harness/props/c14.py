"""C14 — calling an interface follows the PEP 246 adaptation order (DESIGN.md section 5, C14)."""
import itertools
import json
import os

from .. import common as C
from ..translate import adapt_py as TRPY
from ..translate import adapt_c as TRC

ID = "C14"
COQ_TARGETS = ["Tie/C14.vo", "Properties/C14.vo"]
PROPERTY_FILE = "Properties/C14.v"
TIE = "Tie.C14"
DRIVER = "c14_driver.py"
SHARD = 500
THEOREMS = [
    "C14_call_follows_precedence", "C14_c_call_follows_precedence", "C14_lazy", "C14_lazy_hooks",
    "C14_lazy_provided", "C14_steps_run_once", "C14_exceptions_propagate", "C14_no_other_exceptions",
    "C14_custom_adapt_replaces", "C14_providedBy_override_replaces", "C14_c_call_eq_py_call",
    "C14_hook_equals_queryAdapter", "C14_generated_py_eq_model", "C14_generated_c_eq_model",
    "C14_generated_new_eq_model", "C14_dag_follows_precedence",
]
RULE = ("interface DAGs (diamonds, triangles, two roots, creation by call) in both base orders; exhaustive product of __conform__ behaviour (11) x provided (2) x alternate (absent, None, object) x "
        "custom __adapt__ (absent, None, value, raises, delegates to super) x every hook list up to length 3 "
        "(thorough: 4; quick: length <= 1 under a non-delegating custom __adapt__) over {None, value, raises}; interfacemethod inheritance chains up to length 3 with every "
        "combination of __adapt__ / other interfacemethod / nothing per level; natural declarations "
        "(implementer, directlyProvides, alsoProvides, sub-interface, class objects with unbound __conform__); "
        "every way of attaching __conform__ (method, staticmethod, classmethod, function/lambda/partial/callable object "
        "in the instance __dict__, __getattr__, __slots__) x generic or overridden attribute lookup x its behaviours; "
        "a real AdapterRegistry.adapter_hook installed in adapter_hooks; a random stream with longer chains and "
        "hooks raising AttributeError/TypeError; hooks and registry adapter factories that start a nested adaptation "
        "J(other, None) before answering (every hook call at depth d is checked to be hook(I_d, obj_d), the nested call is "
        "judged like any other); the adapted object, the alternate and every value a step produces also range over falsy "
        "objects, tuples of every shape and objects with hostile __eq__/__ne__ (always True, always False, raising, "
        "unittest.mock.ANY), in every call shape (obj / alternate positional or keyword).  Every case is non-trivial (it runs the call); distinct = "
        "distinct (conform kind, provided, hook kinds, alternate given, chain shape) signature")
TRUSTED_BASE = ["interpreters Model/PyKernel.v and Model/CKernel.v (semantics of the statement languages and of the C API "
                "calls that occur in IB__call__/IB__adapt__) and the fail-closed translators harness/translate/adapt_py.py, adapt_c.py",
                "instrumentation of the external steps by side-effecting callables / __getattribute__ in "
                "harness/drivers/c14_driver.py (validated by the correspondence in both modes)"]
ASSUMPTIONS = ["hooks, __conform__ and custom __adapt__ do not mutate adapter_hooks or the object's declarations "
               "during the call (the C loop reads the list length once)",
               "values returned by hooks/__conform__/__adapt__ are distinct objects, distinct from obj and the alternate",
               "interface DAGs: class statements (any number of bases; the metaclass line decides, a metaclass conflict is "
               "predicted), InterfaceClass(...) / type(base)(...) calls with empty attrs; plain InterfaceClass subclasses "
               "only with a single base; a custom __call__ defined with interfacemethod is outside the model (it replaces "
               "the whole protocol)"]

INTERFACE_PY = os.path.join(C.REPO, "src", "zope", "interface", "interface.py")
COPT_C = os.path.join(C.REPO, "src", "zope", "interface", "_zope_interface_coptimizations.c")
GEN_PY = os.path.join(C.COQ, "Gen", "AdaptPy.v")
GEN_C = os.path.join(C.COQ, "Gen", "AdaptC.v")


def regenerate(run):
    """Re-translate the Python kernels (interface.py) and re-extract the C kernels
    (_zope_interface_coptimizations.c) into coq/Gen (fail closed: a refusal is reported and the
    pinned text is used so that the rest of the pipeline still runs)."""
    errors = []
    try:
        C.write_if_changed(GEN_PY, TRPY.translate_file(INTERFACE_PY))
    except Exception as e:  # noqa
        C.write_if_changed(GEN_PY, TRPY.pinned())
        errors.append("harness/translate/adapt_py.py refused %s (%s: %s); coq/Gen/AdaptPy.v holds the pinned kernels, so "
                      "C14_generated_py_eq_model is NOT about the current source" % (INTERFACE_PY, type(e).__name__, e))
    try:
        C.write_if_changed(GEN_C, TRC.extract_file(COPT_C))
    except Exception as e:  # noqa
        C.write_if_changed(GEN_C, TRC.pinned())
        errors.append("harness/translate/adapt_c.py refused %s (%s: %s); coq/Gen/AdaptC.v holds the pinned kernels, so "
                      "C14_generated_c_eq_model is NOT about the current source" % (COPT_C, type(e).__name__, e))
    return errors


CONFORMS = [["absent"], ["getraise", "attr", 100], ["getraise", "other", 100], ["getraise", "type", 100],
            ["getnone"], ["retnone"], ["retvalue", 50], ["raise", "other", 100], ["raise", "type", 100],
            ["raise", "attr", 100], ["te0"]]
CUSTOMS = [None, ["none"], ["value", 60], ["raise", "other", 200], ["delegate"]]
ALTS = [None, 0, 1]
ATTACH = ["method", "static", "classmethod", "inst_func", "inst_lambda", "inst_partial", "inst_callable",
          "getattr", "slots"]


def _hook(kind, i, ek="other"):
    if kind == "none":
        return ["none"]
    if kind == "value":
        return ["value", 10 + i]
    return ["raise", ek, i]


def _hook_lists(maxlen):
    for n in range(maxlen + 1):
        for kinds in itertools.product(("none", "value", "raise"), repeat=n):
            yield [_hook(k, i) for i, k in enumerate(kinds)]


def _case(kind, chain, conform, provides, hooks, alt, **kw):
    c = {"kind": kind, "chain": chain, "conform": conform, "provides": provides, "hooks": hooks, "alt": alt}
    c.update(kw)
    return c


def _lvl(adapt, other, prov=None, plain=False):
    return {"adapt": adapt, "other": other, "prov": prov, "plain": plain}


def generate(run, tier):
    rng = run.rng("gen")
    thorough = tier != "quick"
    cases = []
    # 1. the full finite product
    hook_lists = list(_hook_lists(4 if thorough else 3))
    for conform in CONFORMS:
        for provides in (False, True):
            for alt in ALTS:
                for cu in CUSTOMS:
                    chain = [] if cu is None else [_lvl(cu, False)]
                    # quick tier: a custom __adapt__ that does not delegate never looks at the hooks;
                    # lists up to length 1 are enough to see that (thorough: the full product)
                    short = not thorough and cu is not None and cu[0] != "delegate"
                    for hs in (hook_lists[:4] if short else hook_lists):
                        cases.append(_case("prod", chain, conform, provides, hs, alt))
    # 2. interfacemethod inheritance chains (the F8 shape): every level defines __adapt__, another
    #    interfacemethod, both or nothing
    def adapt_at(i, which):
        return {"none": ["none"], "value": ["value", 60 + i], "raise": ["raise", "other", 200 + i],
                "delegate": ["delegate"]}[which]
    behs = ("value", "none", "raise", "delegate") if thorough else ("value", "none", "delegate")
    opts = [(None, False), (None, True)] + [(b, False) for b in behs] + [(b, True) for b in (behs if thorough else ("value", "delegate"))]
    objs = [
        (["absent"], False, [["none"], ["value", 11]], 1),
        (["absent"], True, [["value", 10]], None),
        (["retnone"], False, [["none"], ["raise", "other", 1]], 0),
        (["te0"], False, [], None),
    ]
    if thorough:
        objs += [(["retvalue", 50], False, [["value", 10]], 1), (["getraise", "attr", 100], False, [["none"]], None)]
    for n in (1, 2, 3):
        for combo in itertools.product(opts, repeat=n):
            chain = [_lvl(None if a is None else adapt_at(i, a), o) for i, (a, o) in enumerate(combo)]
            for conform, provides, hs, alt in objs:
                cases.append(_case("chain", chain, conform, provides, hs, alt))
    # 3. natural declarations and class objects
    for how in ("directly", "also", "sub", "implementer"):
        for conform in (["absent"], ["retnone"], ["te0"], ["getnone"]):
            for hs in ([], [["none"], ["value", 11]], [["raise", "type", 0]]):
                for alt in ALTS:
                    for kw in (False, True):
                        cases.append(_case("natural", [], conform, True, hs, alt, how=how, kw=kw))
    for provides in (False, True):
        for hs in ([], [["none"]], [["none"], ["value", 11]], [["raise", "attr", 0]]):
            for alt in ALTS:
                for chain in ([], [_lvl(["delegate"], True)], [_lvl(["value", 60], False), _lvl(None, True)]):
                    cases.append(_case("natural", chain, ["te0"], provides, hs, alt, objkind="classobj"))
    # 3b. HOW __conform__ is attached x whether the class overrides attribute lookup (watch) x what it
    #     does: the property does not depend on the attachment, so the model ignores it
    for attach in ATTACH:
        for watch in (True, False):
            for conform in (["retnone"], ["retvalue", 50], ["raise", "type", 100], ["raise", "other", 100],
                            ["raise", "attr", 100], ["te0"], ["getnone"], ["absent"]):
                if conform[0] in ("getnone", "absent") and attach not in ("method", "inst_func", "slots"):
                    continue
                for provides in (False, True):
                    for alt in (None, 1):
                        for hs in ([], [["none"], ["value", 11]], [["raise", "other", 0]]):
                            cases.append(_case("attach", [], conform, provides, hs, alt, attach=attach, watch=watch,
                                               te0how="arity"))
    for attach in ("static", "inst_func", "inst_callable", "classmethod"):
        for conform in (["raise", "type", 100], ["retvalue", 50], ["te0"]):
            for chain in ([_lvl(["value", 60], False), _lvl(None, True)], [_lvl(["delegate"], False)]):
                for watch in (True, False):
                    cases.append(_case("attach", chain, conform, False, [["none"], ["value", 11]], 1,
                                       attach=attach, watch=watch))
    # 3c. providedBy overrides and plain InterfaceClass subclasses (the flags of __init_subclass__)
    provs = [None, ["true"], ["false"], ["raise", "other", 300], ["delegate"]]
    pobjs = [
        (["absent"], False, [["none"], ["value", 11]], 1),
        (["absent"], True, [["value", 10]], None),
        (["retnone"], True, [["raise", "other", 0]], 0),
    ]
    def prov_at(i, pv):
        return ["raise", "other", 300 + i] if pv is not None and pv[0] == "raise" else pv
    lvl_opts = []
    for plain in (False, True):
        for ad in (None, "value", "delegate"):
            for pv in provs:
                for other in ((False, True) if ad is None and pv is None else (False,)):
                    lvl_opts.append((ad, pv, other, plain))
    for n in (1, 2):
        combos = list(itertools.product(lvl_opts, repeat=n))
        if n == 2 and not thorough:
            combos = rng.sample(combos, 250)
        for combo in combos:
            chain = [_lvl(None if a is None else adapt_at(i, a), o, prov_at(i, pv), pl)
                     for i, (a, pv, o, pl) in enumerate(combo)]
            for conform, provides, hs, alt in pobjs:
                cases.append(_case("prov", chain, conform, provides, hs, alt))
    for _ in range(1500 if thorough else 150):
        chain = [_lvl(*[None if a is None else adapt_at(i, a), o, prov_at(i, pv), pl])
                 for i, (a, pv, o, pl) in enumerate(rng.choice(lvl_opts) for _ in range(3))]
        conform, provides, hs, alt = rng.choice(pobjs)
        cases.append(_case("prov", chain, conform, provides, hs, alt, watch=rng.random() < 0.7))
    # 3d. a hook that, before answering, adapts ANOTHER object to ANOTHER interface (J(other, None)): the
    #     nested call runs every hook again at depth 1; every hook call at depth d must be hook(I_d, obj_d)
    for hs in ([["none"], ["value", 11]], [["none"], ["none"], ["value", 12]], [["none"], ["raise", "other", 1]],
               [["value", 10], ["none"]], [["none"], ["none"]]):
        for at in range(len(hs)):
            for nprov in (False, True):
                for nconf in (["absent"], ["retvalue", 70], ["retnone"]):
                    for nlast in ("none", "value"):
                        for ret in (False, True):
                            nhooks = [["none"] for _ in hs]
                            if nlast == "value":
                                nhooks[-1] = ["value", 80]
                            nested = {"at": at, "provides": nprov, "conform": nconf, "nhooks": nhooks, "ret": ret}
                            for alt in (None, 1):
                                for chain in ([], [_lvl(["delegate"], False)]):
                                    cases.append(_case("nested", chain, ["absent"], False, hs, alt, nested=nested))
    # 3e. falsy and tuple-shaped participants: the adapted object, the alternate and every value a step
    #     can produce (__conform__ / custom __adapt__ / hook / factory result) range over (), 0, '', [],
    #     objects with __bool__ False / __len__ 0, singleton / pair / nested tuples; the protocol only
    #     distinguishes None from not-None
    k = 0
    for of in ("plain", "tuple0", "tuple1", "tuple2", "nested", "falsy", "len0"):
        for chain in ([], [_lvl(["value", 60], False)], [_lvl(["none"], False)], [_lvl(["delegate"], True)],
                      [_lvl(None, False, ["true"])], [_lvl(["value", 60], False, None, True)]):
            for conform in (["absent"], ["retvalue", 50], ["retnone"]):
                for hs in (([], [["value", 10]], [["none"], ["value", 11]], [["value", 10], ["value", 11]]) if thorough
                           else ([["value", 10]], [["none"], ["value", 11]])):
                    for alt in (None, 2, 3):
                        for provides in ((False, True) if of != "plain" else (False,)):
                            cases.append(_case("flav", chain, conform, provides, hs, alt, objflavour=of,
                                               flavour=k % 15, shape=("pp", "pk", "kk", "kk_rev")[(k // 15) % 4]))
                            k += 1
    # 3f. hostile comparison methods: identity, not equality, must decide everywhere.  Alternates, adapted
    #     objects and step results whose __eq__ / __ne__ always answer True, always False, or raise
    #     (and unittest.mock.ANY as alternate), in every call shape (obj / alternate positional or keyword)
    for of in ("plain", "eqtrue", "eqtruene", "eqfalse", "eqraise"):
        for alt in (None, 5, 6, 7, 8, 9, 1):
            for shape in ("pp", "pk", "kk", "kk_rev"):
                for chain in (([], [_lvl(["none"], False)], [_lvl(["delegate"], True)]) if thorough else ([], [_lvl(["delegate"], True)])):
                    for conform, provides, hs in ((["absent"], False, []), (["retnone"], False, [["none"], ["none"]]),
                                                  (["absent"], False, [["none"], ["value", 11]]),
                                                  (["retvalue", 50], False, []), (["absent"], True, [["value", 10]])):
                        cases.append(_case("hostile", chain, conform, provides, hs, alt, objflavour=of,
                                           flavour=11 + (k % 4), shape=shape))
                        k += 1
    for req in ("IReq", "ISubReq"):
        for reg in ("IReq", "Interface"):
            for fl in range(15):
                for alt in (None, 2):
                    cases.append({"kind": "registry", "req": req, "reg": reg, "factory_none": False,
                                  "provides": False, "alt": alt, "flavour": fl})
    # 3g. interface DAGs: multiple inheritance where several bases bring custom __adapt__ / providedBy
    #     (the metaclass line decides which one runs, or the class statement fails with a metaclass
    #     conflict), interfaces created by InterfaceClass(...) / type(base)(...) calls, sub-interfaces
    #     that add nothing
    def nd(bases, how="class", ad=None, pv=None, other=False):
        return {"bases": bases, "how": how, "adapt": ad, "prov": pv, "other": other}
    templates = [
        [[], [0], [0], [1, 2]], [[], [0], [0], [2, 1]],          # diamond, both base orders
        [[], [0], [0, 1]], [[], [0], [1, 0]],                    # triangle
        [[], [], [0, 1]], [[], [], [1, 0]],                      # two roots
        [[], [0], [1], [0, 2]], [[], [0], [0], [1], [3, 2]],
    ]
    dopts = [(None, None, False), (None, None, False), (None, None, False), (None, None, True), ("value", None, False), ("delegate", None, False),
             ("none", None, True), (None, ["true"], False), (None, ["delegate"], False), ("delegate", ["false"], False)]
    dobjs = [(["absent"], False, [["none"], ["value", 11]], 1), (["absent"], True, [["value", 10]], None),
             (["retnone"], False, [], None)]
    for tpl in templates:
        combos = list(itertools.product(dopts, repeat=len(tpl)))
        for combo in (combos if thorough and len(combos) <= 4096 else rng.sample(combos, min(len(combos), 55))):
            dag = [nd(b, "class", None if a is None else adapt_at(i, a), prov_at(i, pv), o)
                   for i, (b, (a, pv, o)) in enumerate(zip(tpl, combo))]
            for conform, provides, hs, alt in dobjs:
                cases.append(_case("dag", [], conform, provides, hs, alt, dag=dag))
    # creation by call: InterfaceClass(name, bases, {}) forgets the bases' custom class, type(base)(...) keeps it
    for how in ("call_ic", "call_type"):
        for a, pv, o in dopts:
            for a2, pv2, o2 in ((None, None, False), ("delegate", None, False), (None, None, True)):
                for shape in (0, 1, 2):
                    root = nd([], "class", None if a is None else adapt_at(0, a), prov_at(0, pv), o)
                    leaf = nd([1], "class", None if a2 is None else adapt_at(2, a2), None, o2)
                    if shape == 0:
                        dag = [root, nd([0], how)]
                    elif shape == 1:
                        dag = [root, nd([0], how), leaf]
                    else:
                        dag = [root, nd([0], how), nd([0, 1], "class", None if a2 is None else adapt_at(2, a2), None, o2)]
                    for conform, provides, hs, alt in dobjs[:2]:
                        cases.append(_case("dag", [], conform, provides, hs, alt, dag=dag))
    # 4. a real registry's adapter_hook
    for req in ("none", "IReq", "ISubReq"):
        for reg in ("none", "IReq", "Interface", "named", "None"):
            for fnone in (False, True):
                for provides in (False, True):
                    for alt in ALTS:
                        cases.append({"kind": "registry", "req": req, "reg": reg, "factory_none": fnone,
                                      "provides": provides, "alt": alt})
                        if reg in ("IReq", "Interface"):
                            # the adapter factory adapts another object first; a second hook follows the registry's
                            cases.append({"kind": "registry", "req": req, "reg": reg, "factory_none": fnone,
                                          "provides": provides, "alt": alt, "nested": True})
    # 5. random stream: longer chains, longer hook lists, every exception family everywhere
    n = 5000 if thorough else 800
    eks = ("other", "type", "attr")
    for _ in range(n):
        depth = rng.choice([0, 0, 1, 2, 3, 4, 5])
        chain = []
        for i in range(depth):
            a = rng.choice([None, None, "value", "none", "raise", "delegate", "delegate"])
            ad = None if a is None else adapt_at(i, a)
            if ad is not None and ad[0] == "raise":
                ad = ["raise", rng.choice(eks), 200 + i]
            pv = rng.choice([None, None, None, ["true"], ["false"], ["delegate"], ["raise", rng.choice(eks), 300 + i]])
            chain.append(_lvl(ad, rng.random() < 0.5, pv, rng.random() < 0.25))
        conform = list(rng.choice(CONFORMS))
        hs = []
        for i in range(rng.choice([0, 1, 2, 3, 5, 8])):
            hs.append(_hook(rng.choice(["none", "none", "none", "value", "raise"]), i, rng.choice(eks)))
        cases.append(_case("rand", chain, conform, rng.random() < 0.3, hs, rng.choice(ALTS),
                           how=rng.choice(["implementer", "directly", "also", "sub"]), kw=rng.random() < 0.3,
                           attach=rng.choice(ATTACH), watch=rng.random() < 0.6,
                           te0how=rng.choice(["partial", "arity"])))
        if rng.random() < 0.4:
            cases[-1]["flavour"] = rng.randrange(15)
            cases[-1]["alt"] = rng.choice([None, 0, 1, 2, 3, 4, 5, 6, 7, 8, 9])
            cases[-1]["shape"] = rng.choice(["pp", "pk", "kk", "kk_rev"])
            if cases[-1]["attach"] != "slots":
                cases[-1]["objflavour"] = rng.choice(["plain", "tuple0", "tuple1", "tuple2", "nested", "falsy", "len0",
                                                        "eqtrue", "eqtruene", "eqfalse", "eqraise"])
    return cases


# --------------------------------------------------------------------------- Coq terms

EK = {"attr": "EAttr", "type": "EType", "other": "EOther"}


def _exn(k, t):
    return "(mkExn %s %d)" % (EK[k], t)


def _conform(c):
    k = c[0]
    if k == "absent":
        return "CAbsent"
    if k == "getraise":
        return "(CGetRaise %s)" % _exn(c[1], c[2])
    if k == "getnone":
        return "CGetNone"
    if k == "retnone":
        return "CRetNone"
    if k == "retvalue":
        return "(CRetValue %d)" % c[1]
    if k == "raise":
        return "(CRaise %s)" % _exn(c[1], c[2])
    assert k == "te0"
    return "CTypeErr0"


def _hookt(h):
    if h[0] == "none":
        return "HNone"
    if h[0] == "value":
        return "(HValue %d)" % h[1]
    return "(HRaise %s)" % _exn(h[1], h[2])


def _cbeh(a):
    if a is None:
        return "None"
    return "(Some %s)" % {"none": lambda: "CANone", "value": lambda: "(CAValue %d)" % a[1],
                          "raise": lambda: "(CARaise %s)" % _exn(a[1], a[2]),
                          "delegate": lambda: "CADelegate"}[a[0]]()


def _pbeh(a):
    if a is None:
        return "None"
    return "(Some %s)" % {"true": lambda: "PBTrue", "false": lambda: "PBFalse",
                          "raise": lambda: "(PBRaise %s)" % _exn(a[1], a[2]),
                          "delegate": lambda: "PBDelegate"}[a[0]]()


def _ev(e):
    return {"P": lambda: "(EvCustomProv %d)" % e[1], "g": lambda: "EvGetConform", "c": lambda: "EvCallConform", "p": lambda: "EvProvided",
            "h": lambda: "(EvHook %d)" % e[1], "a": lambda: "(EvCustom %d)" % e[1]}[e[0]]()


def _outcome(o):
    k = o[0]
    if k == "val" and o[1] >= 0:
        return "(Return %d)" % o[1]
    if k == "obj":
        return "ReturnObj"
    if k == "alt":
        return "ReturnAlt"
    if k == "exc":
        return "(RaiseE (User %s))" % _exn(o[1], o[2])
    if k == "cna":
        return "RaiseCouldNotAdapt"
    return "(RaiseE InterpTE0)"     # unrecognised: equals nothing the Spec can yield


def _ares(o):
    k = o[0]
    if k == "none":
        return "(Ok None)"
    if k == "obj":
        return "(Ok (Some VObj))"
    if k == "val" and o[1] >= 0:
        return "(Ok (Some (VVal %d)))" % o[1]
    if k == "exc":
        return "(Raise (User %s))" % _exn(o[1], o[2])
    return "(Raise InterpTE0)"


def coq_case(case, obs, mode):
    uc = C.cbool(mode == "c")
    alt = "None" if case["alt"] is None else "(Some %d)" % case["alt"]
    if case["kind"] == "registry":
        q = obs.get("q")
        hooks = ["HNone" if q is None else "(HValue %d)" % q] if (q is None or q >= 0) else ["(HRaise (mkExn EOther 999))"]
        if case.get("nested"):
            hooks.append("(HValue 2)")
        o = "(mkObj CAbsent %s %s %s)" % (C.cbool(case["provides"]), C.clist(hooks), alt)
        return "(%s, [], %s, (true, false, false, true, %s), (%s, %s), None, None)" % (
            uc, o, C.cbool(obs["ok"]), C.clist([_ev(e) for e in obs["log"]]), _outcome(obs["out"]))
    chain = C.clist(["(mkLvl %s %s %s %s)" % (_cbeh(l["adapt"]), _pbeh(l.get("prov")), C.cbool(l["other"]),
                                               C.cbool(l.get("plain", False))) for l in case["chain"]])
    okterm = C.cbool(obs["ok"])
    if case.get("dag") is not None:
        HOW = {"class": "HClass", "call_ic": "HCallIC", "call_type": "HCallType"}
        dag = C.clist(["(mkNode %s %s %s %s %s)" % (C.clist(["%d" % b for b in n["bases"]]), HOW[n["how"]], _cbeh(n["adapt"]),
                                                    _pbeh(n.get("prov")), C.cbool(n["other"])) for n in case["dag"]])
        if obs.get("conflict"):
            # the class statement failed with a metaclass conflict: the model must predict exactly that
            return ("(%s, [], (mkObj CAbsent true [] None), (true, true, true, true, dag_conflict %s), "
                    "([EvGetConform; EvProvided], ReturnObj), None, None)" % (uc, dag))
        chain = "(dag_line %s)" % dag
        okterm = "(andb %s (negb (dag_conflict %s)))" % (okterm, dag)
    hooks = list(case["hooks"])
    nested = case.get("nested")
    nobs = obs.get("nested")
    nterm = "None"
    if nested is not None:
        if nested.get("ret"):
            # the hook answers what the nested adaptation returned (an adapter) or None
            v = nobs["out"] if nobs else None
            hooks[nested["at"]] = ["value", v[1]] if v and v[0] == "val" else ["none"]
        if nobs is not None:
            no = "(mkObj %s %s %s (Some 0))" % (_conform(nested["conform"]), C.cbool(nested["provides"]),
                                               C.clist([_hookt(h) for h in nested["nhooks"]]))
            nterm = "(Some (%s, (%s, %s)))" % (no, C.clist([_ev(e) for e in nobs["log"]]), _outcome(nobs["out"]))
    o = "(mkObj %s %s %s %s)" % (_conform(case["conform"]), C.cbool(case["provides"]),
                                 C.clist([_hookt(h) for h in hooks]), alt)
    classobj = case.get("objkind") == "classobj"
    arity = (case["conform"][0] == "te0"
             and (case.get("attach", "method") != "method" or case.get("te0how") == "arity"))
    vis_call = not classobj and not arity          # the body of a call that fails at depth 0 never runs
    watch = C.cbool(classobj or case.get("watch", True))   # reads of __conform__ / __providedBy__ logged
    if obs.get("aout") is None:
        adapt = "None"
    else:
        adapt = "(Some (%s, %s))" % (C.clist([_ev(e) for e in obs["alog"]]), _ares(obs["aout"]))
    return "(%s, %s, %s, (%s, true, %s, %s, %s), (%s, %s), %s, %s)" % (
        uc, chain, o, C.cbool(vis_call), watch, watch, okterm,
        C.clist([_ev(e) for e in obs["log"]]), _outcome(obs["out"]), adapt, nterm)


def classify(case, obs):
    if case["kind"] == "registry":
        return ("registry", case["req"], case["reg"], case["factory_none"], case["provides"], case["alt"] is not None,
                bool(case.get("nested")))
    return (case["conform"][0], tuple(case["conform"][1:2]), case["provides"], tuple(h[0] for h in case["hooks"]),
            case["alt"] is not None,
            tuple((None if l["adapt"] is None else l["adapt"][0], l["other"],
                   None if l.get("prov") is None else l["prov"][0], l.get("plain", False)) for l in case["chain"]),
            case.get("objkind"), case.get("attach", "method"), case.get("watch", True),
            json.dumps(case.get("nested"), sort_keys=True), case.get("objflavour"), case.get("flavour"),
            json.dumps(case.get("dag"), sort_keys=True))


def kind(case, obs):
    return case["kind"]


def finding_key(case, obs, mode):
    if case["kind"] == "registry":
        return "registry/%s/%s/%s" % (mode, case["req"], case["reg"])
    chain = "-".join(("A" if l["adapt"] else "") + ("P" if l.get("prov") else "") + ("O" if l["other"] else "")
                     + ("s" if l.get("plain") else "") or "_" for l in case["chain"]) or "plain"
    return "call/%s/%s/%s/%s/%s" % (mode, chain, case["conform"][0], case.get("attach", "method"),
                                    case.get("objflavour", "plain"))


def replay_text(case, obs, mode):
    head = "# PURE_PYTHON=%s ; observed log=%s outcome=%s\n" % ("1" if mode == "py" else "0",
                                                               json.dumps(obs.get("log")), json.dumps(obs.get("out")))
    if case["kind"] == "registry":
        return head + ("# real AdapterRegistry: object declares %s%s; registration: %s (factory returns %s); "
                       "adapter_hooks[:] = [registry.adapter_hook]; compare I(obj%s) with registry.queryAdapter(obj, I%s)"
                       % (case["req"], " and I" if case["provides"] else "", case["reg"],
                          "None" if case["factory_none"] else "an adapter",
                          "" if case["alt"] is None else ", alt", "" if case["alt"] is None else ", default=alt"))
    L = [head, "import functools, operator", "from zope.interface import Interface, implementer, directlyProvides",
         "from zope.interface.interface import adapter_hooks, interfacemethod", "log = []", ""]
    L += ["class EqTrue:", "    __hash__ = object.__hash__", "    def __eq__(self, other): return True",
          "class EqTrueNeTrue(EqTrue):", "    def __ne__(self, other): return True",
          "class EqFalse:", "    __hash__ = object.__hash__", "    def __eq__(self, other): return False",
          "    def __ne__(self, other): return False",
          "class EqRaises:", "    __hash__ = object.__hash__", "    def __eq__(self, other): raise RuntimeError('__eq__ called')",
          "    def __ne__(self, other): raise RuntimeError('__ne__ called')", ""]
    fl = case.get("flavour")
    if fl is None:
        L += ["def V(tag):   # the value a step returns", "    return tag", ""]
    else:
        L += ["class FalsyBool:", "    def __bool__(self): return False", "class LenZero:", "    def __len__(self): return 0",
              "FLAVOURS = [lambda t: (), lambda t: 0, lambda t: '', lambda t: [], lambda t: FalsyBool(), lambda t: LenZero(),",
              "            lambda t: (t, t), lambda t: (t,), lambda t: ((t, t),), lambda t: float('0.0'), lambda t: {},",
              "            lambda t: EqTrue(), lambda t: EqTrueNeTrue(), lambda t: EqFalse(), lambda t: EqRaises()]",
              "_vals = {}", "def V(tag):   # the value a step returns: falsy objects and tuples are adapters like any other",
              "    if tag not in _vals:", "        _vals[tag] = FLAVOURS[(%d + len(_vals)) %% 15](tag)" % fl,
              "    return _vals[tag]", ""]
    base = "Interface"
    if case.get("dag") is not None:
        L.append("from zope.interface.interface import InterfaceClass")
        for i, n in enumerate(case["dag"]):
            bs = ", ".join("I%d" % b for b in n["bases"]) or "Interface"
            if n["how"] == "call_ic":
                L.append("I%d = InterfaceClass('I%d', (%s,), {})   # created by call: the class is InterfaceClass" % (i, i, bs))
                continue
            if n["how"] == "call_type":
                L.append("I%d = type(%s)('I%d', (%s,), {})   # created by call with the first base's class" % (
                    i, bs.split(",")[0], i, bs))
                continue
            L.append("class I%d(%s):   # a metaclass conflict here is a TypeError" % (i, bs))
            body = []
            a = n["adapt"]
            if a is not None:
                body += ["    @interfacemethod", "    def __adapt__(self, obj):", "        log.append('custom __adapt__ node %d')" % i,
                         {"none": "        return None", "value": "        return V('custom value %d')" % i,
                          "raise": "        raise ValueError('custom')",
                          "delegate": "        return super().__adapt__(obj)"}[a[0]]]
            pv = n.get("prov")
            if pv is not None:
                body += ["    @interfacemethod", "    def providedBy(self, obj):", "        log.append('custom providedBy node %d')" % i,
                         {"true": "        return True", "false": "        return False",
                          "raise": "        raise ValueError('providedBy')",
                          "delegate": "        return super().providedBy(obj)"}[pv[0]]]
            if n["other"]:
                body += ["    @interfacemethod", "    def extra_method(self):", "        return %d" % i]
            L += body or ["    pass"]
        base = "I%d" % (len(case["dag"]) - 1)
    elif not case["chain"]:
        L += ["class I0(Interface):", "    pass"]
        base = "I0"
    for i, l in enumerate(case["chain"]):
        plain = l.get("plain", False)
        deco = [] if plain else ["    @interfacemethod"]
        sup = "super(IC%d, self)" % i if plain else "super()"
        if plain:
            L.append("class IC%d(type(%s)):   # a plain subclass of the interface class" % (i, base))
        else:
            L.append("class I%d(%s):" % (i, base))
        body = []
        a = l["adapt"]
        if a is not None:
            body += deco + ["    def __adapt__(self, obj):", "        log.append('custom __adapt__ level %d')" % i]
            body.append({"none": "        return None", "value": "        return V('custom value %d')" % i,
                         "raise": "        raise %s('custom')" % {"attr": "AttributeError", "type": "TypeError", "other": "ValueError"}.get(a[1] if len(a) > 1 else "", "ValueError"),
                         "delegate": "        return %s.__adapt__(obj)" % sup}[a[0]])
        pv = l.get("prov")
        if pv is not None:
            body += deco + ["    def providedBy(self, obj):", "        log.append('custom providedBy level %d')" % i]
            body.append({"true": "        return True", "false": "        return False",
                         "raise": "        raise %s('providedBy')" % {"attr": "AttributeError", "type": "TypeError", "other": "ValueError"}.get(pv[1] if len(pv) > 1 else "", "ValueError"),
                         "delegate": "        return %s.providedBy(obj)" % sup}[pv[0]])
        if l["other"]:
            body += deco + ["    def extra_method(self):", "        return %d" % i]
        L += body or ["    pass"]
        if plain:
            L.append("I%d = IC%d('I%d', (%s,), {})" % (i, i, i, base))
        base = "I%d" % i
    L += ["I = %s" % base, ""]
    c = case["conform"]
    en = {"attr": "AttributeError", "type": "TypeError", "other": "ValueError"}
    if case.get("objkind") == "classobj":
        L += ["class Obj:   # the class object itself is adapted: __conform__ is an unbound method",
              "    def __conform__(self, iface):", "        return 'never'", "obj = Obj"]
        if case["provides"]:
            L.append("directlyProvides(Obj, I)")
    elif case.get("attach", "method") != "method" and c[0] in ("retnone", "retvalue", "raise", "te0"):
        attach = case["attach"]
        body = {"retnone": "log.append('conform'); return None", "retvalue": "log.append('conform'); return V('conform value')",
                "raise": "log.append('conform'); raise %s('in __conform__')" % en.get(c[1] if len(c) > 1 else "", "ValueError"),
                "te0": "return 'never entered: the call fails with a TypeError at depth 0 (wrong arity)'"}[c[0]]
        params = "" if c[0] == "te0" else "iface"
        L += ["def conform(%s):" % params, "    " + body, ""]
        if attach in ("static", "classmethod"):
            wrap = "staticmethod(conform)" if attach == "static" else "classmethod(lambda klass%s: conform(%s))" % (
                ", iface" if params else "", params)
            L += ["class Obj:", "    __conform__ = %s" % wrap]
        elif attach == "getattr":
            L += ["class Obj:", "    def __getattr__(self, name):", "        if name == '__conform__':", "            return conform",
                  "        raise AttributeError(name)"]
        elif attach == "slots":
            L += ["class Obj:", "    __slots__ = ('__conform__',)"]
        else:
            L += ["class Obj:", "    pass"]
        if not case.get("watch", True):
            L.append("# (the driver's class keeps the generic attribute lookup: no __getattribute__ override)")
        if case["provides"]:
            L.append("implementer(I)(Obj)   # declared via: %s" % case.get("how", "implementer"))
        L.append("obj = Obj()")
        if attach in ("inst_func", "slots"):
            L.append("obj.__conform__ = conform          # on the instance, nothing on the class")
        elif attach == "inst_lambda":
            L.append("obj.__conform__ = lambda %s: conform(%s)   # on the instance" % (params, params))
        elif attach == "inst_partial":
            L.append("obj.__conform__ = functools.partial(lambda tag%s: conform(%s), 'tag')   # on the instance"
                     % (", iface" if params else "", params))
        elif attach == "inst_callable":
            L += ["class Conf:", "    def __call__(self%s):" % (", iface" if params else ""), "        return conform(%s)" % params,
                  "obj.__conform__ = Conf()           # on the instance"]
    else:
        L.append("class Obj:")
        if c[0] == "getraise":
            L += ["    @property", "    def __conform__(self):", "        raise %s('reading __conform__')" % en[c[1]]]
        elif c[0] == "getnone":
            L.append("    __conform__ = None")
        elif c[0] == "retnone":
            L += ["    def __conform__(self, iface):", "        log.append('conform'); return None"]
        elif c[0] == "retvalue":
            L += ["    def __conform__(self, iface):", "        log.append('conform'); return V('conform value')"]
        elif c[0] == "raise":
            L += ["    def __conform__(self, iface):", "        log.append('conform'); raise %s('in __conform__')" % en[c[1]]]
        elif c[0] == "te0" and case.get("te0how") == "arity":
            L += ["    def __conform__(self):   # wrong arity: conform(I) fails with a TypeError at depth 0",
                  "        return 'never entered'"]
        elif c[0] == "te0":
            L += ["    class _L:", "        def __add__(self, other):", "            log.append('conform'); return NotImplemented",
                  "    __conform__ = functools.partial(operator.add, _L())   # TypeError at call depth 0"]
        else:
            L.append("    pass")
        if case["provides"]:
            L.append("implementer(I)(Obj)   # declared via: %s" % case.get("how", "implementer"))
        L.append("obj = Obj()")
    of = case.get("objflavour", "plain")
    if of != "plain" and case.get("objkind") != "classobj":
        if of in ("eqtrue", "eqtruene", "eqfalse", "eqraise"):
            hc = {"eqtrue": "EqTrue", "eqtruene": "EqTrueNeTrue", "eqfalse": "EqFalse", "eqraise": "EqRaises"}[of]
            L += ["class HObj(%s, Obj):   # the adapted object has hostile comparison methods" % hc, "    pass"]
            if case["provides"]:
                L.append("implementer(I)(HObj)")
            L.append("obj = HObj()")
        elif of in ("falsy", "len0"):
            L.append("Obj.%s = lambda self: %s   # the adapted object is falsy" % (
                "__bool__" if of == "falsy" else "__len__", "False" if of == "falsy" else "0"))
        else:
            init = {"tuple0": "()", "tuple1": "(1,)", "tuple2": "(1, 2)", "nested": "((3, 4),)"}[of]
            L += ["class TObj(tuple, Obj):   # the adapted object is a tuple", "    pass"]
            if case["provides"]:
                L.append("implementer(I)(TObj)")
            L.append("obj = TObj(%s)" % init)
    L.append("")
    nst = case.get("nested")
    if nst is not None:
        L += ["class J(Interface):", "    pass", "class Other:",
              "    pass" if nst["conform"][0] == "absent" else
              "    def __conform__(self, iface):\n        return %s" % ("'nested conform value'" if nst["conform"][0] == "retvalue" else "None")]
        if nst["provides"]:
            L.append("implementer(J)(Other)")
        L += ["other = Other()", "depth = [0]", "NESTED_ANSWERS = %r   # what hook i answers when called at depth 1" % (
            [("nested hook value" if h[0] == "value" else None) for h in nst["nhooks"]],), ""]
    for i, h in enumerate(case["hooks"]):
        if nst is not None:
            own = {"none": "return None", "value": "return V('hook value %d')" % i,
                   "raise": "raise %s('hook %d')" % (en.get(h[1] if len(h) > 1 else "", "ValueError"), i)}[h[0]]
            L += ["def hook%d(iface, ob):" % i,
                  "    if depth[0]:",
                  "        log.append(('depth 1: hook %d called with (J, other)?', iface is J and ob is other))" % i,
                  "        return NESTED_ANSWERS[%d]" % i,
                  "    log.append(('hook %d called with (I, obj)?', iface is I and ob is obj))" % i]
            if nst["at"] == i:
                L += ["    depth[0] += 1", "    try:", "        nested = J(other, None)   # adapts ANOTHER object to ANOTHER interface first",
                      "    finally:", "        depth[0] -= 1"]
                if nst.get("ret"):
                    L.append("    return nested if isinstance(nested, str) else None")
            L.append("    " + own)
            continue
        beh = {"none": "return None", "value": "return V('hook value %d')" % i,
               "raise": "raise %s('hook %d')" % (en.get(h[1] if len(h) > 1 else "", "ValueError"), i)}[h[0]]
        L += ["def hook%d(iface, ob):" % i, "    log.append('hook %d'); %s" % (i, beh)]
    L.append("adapter_hooks[:] = [%s]" % ", ".join("hook%d" % i for i in range(len(case["hooks"]))))
    altx = {None: None, 0: "None", 1: "'ALTERNATE'", 2: "[]", 3: "('ALT', 'ERNATE')", 4: "0.0", 5: "EqTrue()",
            6: "EqTrueNeTrue()", 7: "EqFalse()", 8: "EqRaises()", 9: "__import__('unittest.mock').mock.ANY"}.get(case["alt"], "'ALTERNATE'")
    shape = case.get("shape") or ("pk" if case.get("kw") else "pp")
    if altx is None:
        call = "I(obj=obj)" if shape in ("kk", "kk_rev", "k") else "I(obj)"
    else:
        call = {"pp": "I(obj, ALT)", "pk": "I(obj, alternate=ALT)", "kk": "I(obj=obj, alternate=ALT)",
                "kk_rev": "I(alternate=ALT, obj=obj)"}[shape]
        L.append("ALT = %s" % altx)
    L += ["try:", "    print('result:', %s)" % call, "except Exception as e:", "    print('raised:', repr(e))",
          "finally:", "    adapter_hooks[:] = []", "print('steps:', log)"]
    return "\n".join(L)


TECHNIQUE = ("Coq proof over a Gallina transcription of InterfaceBase.__call__/__adapt__/_call_conform, IB__call__/"
             "IB__adapt__ and the _CALL_CUSTOM_ADAPT/_CALL_CUSTOM_PROVIDEDBY logic of InterfaceClass.__new__/"
             "__init_subclass__; the Python and C kernels are regenerated from the source text on every run by "
             "fail-closed translators and proved equal to the model; exhaustive vm_compute correspondence (outcome and "
             "step log) with both implementations")
LEVEL_TEXT = ("Machine-checked theorems (Properties/C14.v, 17 theorems, closed under the global context) state, for every "
              "__conform__ behaviour, every hook list, every alternate and every interfacemethod inheritance chain, that "
              "outcome and executed steps are those of the five-step precedence, that later steps never run, that "
              "exceptions propagate, that a custom __adapt__ replaces the provided-check and hooks, and that the C fast "
              "path equals the Python path; two further theorems state that the kernels regenerated on this run from "
              "interface.py (__call__, __adapt__, _call_conform, the flag conditions of __new__/__init_subclass__) and from "
              "_zope_interface_coptimizations.c (IB__call__, IB__adapt__) compute exactly the model's py_call / c_call for all "
              "inputs; the models are compared with both implementations on the full finite product "
              "of behaviours with hook lists up to length 3 (thorough: 4) on every run, and the observed outcome and step "
              "log are judged by the Spec inside Coq.")
LEVEL_NOTE = ("Trusted: Coq kernel/vm_compute; the interpreters of the two kernel languages (Model/PyKernel.v, Model/CKernel.v: "
              "meaning of each statement form and API call) and the translators' tables (harness/translate/adapt_py.py, "
              "adapt_c.py: reference counting dropped, the inlined provided-check of IB__adapt__ pinned token by token), both "
              "validated by the exhaustive correspondence; of InterfaceClass.__new__ the flag decision and the bases of the "
              "custom-methods class are regenerated from the source, while Python's own metaclass selection for a class "
              "statement with several bases (most derived metaclass / conflict) is the hand-written dag_line, validated by "
              "the DAG stream; the driver's instrumentation.  Not modelled: hooks that mutate adapter_hooks "
              "during the call, multiple-inheritance metaclass mixes, security-proxied declarations in IB__adapt__; the "
              "registry hook is abstract (a hook answering queryAdapter), tied by a stream with a real AdapterRegistry.")
