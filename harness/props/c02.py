"""C02 — extends / isOrExtends = reachability over the current bases, after any rebasing."""
import os
from .. import common as C
from ..translate import specgraph as TR

ID = "C02"
COQ_TARGETS = ["Tie/C02.vo", "Properties/C02.vo"]
PROPERTY_FILE = "Properties/C02.v"
TIE = "Tie.C02"
DRIVER = "c02_driver.py"
SHARD = 50
THEOREMS = [
    "C02_implied_iff_reachable", "C02_extends_strict", "C02_extends_nonstrict", "C02_sro_members", "C02_sro_nodup",
    "C02_sro_coherent", "C02_fresh_fuel_irrelevant", "C02_iro_is_interface_part",
    "C02_dependents_complete", "C02_notification_order_irrelevant", "C02_acyclicb_sound", "C02_acyclicb_complete", "C02_op_ok_complete",
    "C02_generated_subscribe_eq_model", "C02_generated_unsubscribe_eq_model", "C02_generated_calculate_sro_eq_model",
    "C02_generated_changed_step_eq_model", "C02_generated_changed_eq_model", "C02_generated_setBases_eq_model",
    "C02_generated_queries_eq_model", "C02_generated_c_isOrExtends_eq_model", "C02_state_equiv_same_answers",
    "C02_unique_keys_is_model", "C02_equal_keys_refuted",
]
INTERFACE_PY = os.path.join(C.REPO, "src", "zope", "interface", "interface.py")
COPT_C = os.path.join(C.REPO, "src", "zope", "interface", "_zope_interface_coptimizations.c")
GEN = os.path.join(C.COQ, "Gen", "SpecGraphKernel.v")


def regenerate(run):
    """Re-translate class Specification (subscribe, unsubscribe, __setBases, _calculate_sro, changed,
    isOrExtends, extends) into coq/Gen/SpecGraphKernel.v (fail closed)."""
    try:
        C.write_if_changed(GEN, TR.translate_file(INTERFACE_PY, COPT_C))
        return []
    except Exception as e:  # noqa: refuse, report, keep the pipeline alive on the pinned kernel
        C.write_if_changed(GEN, TR.pinned())
        return ["harness/translate/specgraph.py refused %s (%s: %s); coq/Gen/SpecGraphKernel.v holds the pinned "
                "kernel, so the C02_generated_* theorems of Properties/C02.v are NOT about the current source"
                % (INTERFACE_PY + " / " + COPT_C, type(e).__name__, e)]

RULE = ("histories of 3-25 operations over real InterfaceClass / Declaration / implementedBy(cls) / "
        "providedBy(ob) / providedBy(cls) / held implementedBy|providedBy(super(T, C)) objects with __bases__ reassignments at every kind of node, "
        "classImplements, nested __bases__ assignments made by a subscribed dependent from inside a running propagation, "
        "and garbage collection of leaves; after every operation all pairs are queried, each "
        "specification first being re-asked the isOrExtends question it last answered yes to (before a __bases__ "
        "assignment: one whose answer is about to turn to no). "
        "A history is non-trivial when some __bases__ reassignment hits a node that has at least two "
        "levels of dependents while the graph contains a diamond or a node with two dependents; distinct = "
        "distinct (kinds present, node-count bucket, #rebases bucket, deepest rebased dependents level, "
        "inconsistent C3 order / legacy fallback met?) signature")
TRUSTED_BASE = ["Model/Ro.v transcription of ro.py (owned by C03, validated here by the __sro__ comparison on every step)",
                "harness/translate/specgraph.py and the primitives of Model/SpecGraphPrim.v (reading of dict operations, "
                "attribute writes and the ro.ro call; _implied read as a key set; KeyError not propagated; fuel and "
                "dictionary order are not in the source)",
                "not generated: Specification.__init__ (new_spec), the weak-reference death (drop), Model/Ro.v"]
ASSUMPTIONS = ["(__name__, __module__) keys are unique among live interfaces; what happens otherwise is finding F10: "
               "corpus/C02/f10_equal_keys.json shows it on every run (KNOWN-FINDING), C02_equal_keys_refuted proves it "
               "of the keyed model variant",
               "the base graph stays acyclic (the real code recurses without bound on a cycle)",
               "class __bases__ are never reassigned; ZOPE_INTERFACE_STRICT_IRO / USE_LEGACY_IRO unset"]

ROOT, IMPLOBJ = -1, -2


class Sim:
    """Generator-side over-approximation of the base graph, used only to keep histories acyclic."""

    def __init__(self):
        self.kind, self.alive, self.edges, self.perm, self.users = [], [], [], [], []
        self.provkeys = set()

    def add(self, kind, edges, perm=()):
        self.kind.append(kind)
        self.alive.append(True)
        self.edges.append(set(edges))
        self.perm.append(set(perm))
        self.users.append(0)
        return len(self.kind) - 1

    def out(self, a):
        if a < 0:
            return set()
        return self.edges[a] | self.perm[a]

    def reaches(self, a, b):
        seen, todo = set(), [a]
        while todo:
            x = todo.pop()
            if x == b:
                return True
            if x in seen:
                continue
            seen.add(x)
            todo.extend(self.out(x))
        return False

    def live(self, kinds=None):
        return [h for h in range(len(self.kind)) if self.alive[h] and (kinds is None or self.kind[h] in kinds)]

    def dependents(self, x):
        return [h for h in self.live() if x in self.out(h)]

    def levels(self, x, depth=0):
        if depth > 6:
            return depth
        ds = self.dependents(x)
        return 0 if not ds else 1 + max(self.levels(d, depth + 1) for d in ds)


def _pick(rng, pool, kmax=3, dup=0.0):
    """0..kmax distinct elements of pool (weights = repetitions in pool); with probability dup a
    list with a repeated element instead."""
    pool = list(pool)
    if not pool:
        return []
    if rng.random() < dup:
        b = rng.choice(pool)
        return [b, b] if rng.random() < 0.5 else [b, rng.choice(pool), b]
    k = min(rng.choice([0, 1, 1, 1, 2, 2, 2, 3]), kmax)
    out = []
    for _ in range(20):
        if len(out) >= k:
            break
        b = rng.choice(pool)
        if b not in out:
            out.append(b)
    return out


def _history(rng, nops, template):
    sim = Sim()
    ops = []

    def iface(bases):
        ops.append({"op": "iface", "bases": bases})
        return sim.add("iface", bases)

    def decl(bases):
        ops.append({"op": "decl", "bases": bases})
        return sim.add("decl", bases)

    pyc = {}

    def cls(ifaces, bases):
        # mirror the class hierarchy so that only orders Python accepts are generated
        try:
            k = type("K", tuple(pyc[b] for b in bases) or (object,), {})
        except TypeError:
            bases = bases[:1]
            k = type("K", tuple(pyc[b] for b in bases) or (object,), {})
        pyc[len(sim.kind)] = k
        ops.append({"op": "cls", "ifaces": ifaces, "bases": bases})
        for b in bases:
            sim.users[b] += 1
        return sim.add("cls", [], set(ifaces) | set(bases) | {IMPLOBJ})

    def obj(c, ifaces):
        key = (c, tuple(ifaces))
        if key in sim.provkeys:
            return None
        sim.provkeys.add(key)
        ops.append({"op": "obj", "cls": c, "ifaces": ifaces})
        sim.users[c] += 1
        return sim.add("obj", set(ifaces) | {c})

    def clsprov(c, ifaces):
        ops.append({"op": "clsprov", "cls": c, "ifaces": ifaces})
        sim.users[c] += 1
        return sim.add("clsprov", set(ifaces) | {IMPLOBJ})

    def sup(c):
        """hold the specification of super(T, C) for a class T of C's MRO"""
        mro = [k for k in pyc[c].__mro__ if k is not object]
        back = {v: h for h, v in pyc.items()}
        t = rng.choice(mro)
        rest = [back[k] for k in mro[mro.index(t) + 1:]]
        ops.append({"op": "super", "cls": c, "this": back[t],
                    "via": rng.choice(["implementedBy", "providedBy"])})
        for h in set(rest) | {c}:
            sim.users[h] += 1          # never dropped: the held spec may alias a cached one
        return sim.add("super", [], set(rest) | {IMPLOBJ})

    def classimpl(c, fs):
        fs = [f for f in fs if not sim.reaches(f, c)]
        ops.append({"op": "classimpl", "cls": c, "ifaces": fs})
        sim.perm[c] |= set(fs)
        sim.edges[c] = set()

    def rebase(x, nested=True):
        cands = [b for b in sim.live() if b != x and not sim.reaches(b, x)]
        w = []
        for b in cands:
            w += [b] * (4 if sim.kind[b] == "iface" else 1)
        w += [ROOT, ROOT, IMPLOBJ]
        out = _pick(rng, w, 3, dup=0.04)
        o = {"op": "setbases", "node": x, "bases": out}
        ops.append(o)
        sim.edges[x] = set(out)
        if nested and rng.random() < 0.22:
            # a reactor on x or on something below it re-bases another node from inside the propagation
            below = [h for h in sim.live() if h != x and sim.reaches(h, x)]
            on = rng.choice([x] + below + below)
            targets = [h for h in sim.live() if h != x and sim.kind[h] != "super"]
            if targets:
                a = rng.choice(targets)
                cands = [b for b in sim.live() if b != a and not sim.reaches(b, a)]
                w2 = []
                for b in cands:
                    w2 += [b] * (4 if sim.kind[b] == "iface" else 1)
                w2 += [ROOT, IMPLOBJ]
                nb = _pick(rng, w2, 2)
                o["reactor"] = {"on": on, "node": a, "bases": nb}
                sim.edges[a] = sim.edges[a] | set(nb)     # it may or may not fire: keep both

    if template:
        top = iface(rng.choice([[], [ROOT], [ROOT]]))
        l = iface([top])
        r = iface(rng.choice([[top], [top], [ROOT], []]))
        bottom = iface([l, r] if rng.random() < 0.8 else [r, l])
        c1 = cls([rng.choice([bottom, l, r])], [])
        extra = rng.choice(["sub", "obj", "decl", "both"])
        if extra in ("sub", "both"):
            c2 = cls(_pick(rng, [top, l, r, bottom], 1), [c1])
            if rng.random() < 0.6:
                obj(c2, _pick(rng, sim.live({"iface"}), 2))
        if extra in ("obj", "both"):
            obj(c1, _pick(rng, sim.live({"iface"}), 2))
        if extra == "decl":
            decl([bottom, c1] if rng.random() < 0.5 else [c1, r])
        if rng.random() < 0.7:
            rebase(rng.choice([top, l, r]))
        if rng.random() < 0.35:
            # a held super specification, a declaration change on its class (the cache goes), then a
            # change behind it
            cs = sim.live({"cls"})
            c = rng.choice([x for x in cs if any(k is not object for k in pyc[x].__mro__[1:])] or cs)
            sup(c)
            classimpl(c, _pick(rng, sim.live({"iface"}), 1))
            behind = [h for h in cs if h != c and pyc[h] in pyc[c].__mro__] or [c]
            a = rng.choice(behind)
            if rng.random() < 0.5:
                classimpl(a, [rng.choice(sim.live({"iface"}))])
            else:
                rebase(a)

    guard = 0
    while len(ops) < nops and guard < 400:
        guard += 1
        p = rng.random()
        live = sim.live()
        ifs = sim.live({"iface"})
        classes = sim.live({"cls"})
        if p < 0.40 and live:
            # prefer nodes with deep dependents
            deep = [x for x in live if sim.levels(x) >= 2]
            pool = deep if deep and rng.random() < 0.75 else live
            kinds_w = {"iface": 6, "decl": 3, "cls": 2, "obj": 1, "clsprov": 1, "super": 0}
            w = []
            for x in pool:
                w += [x] * kinds_w[sim.kind[x]]
            if w:
                rebase(rng.choice(w))
        elif p < 0.52:
            low = ifs[-4:] if rng.random() < 0.6 else ifs
            iface(_pick(rng, low + [ROOT], 3))
        elif p < 0.60:
            decl(_pick(rng, ifs + classes + [ROOT], 3, dup=0.05))
        elif p < 0.71:
            cls(_pick(rng, ifs, 2), _pick(rng, classes, 2) if rng.random() < 0.6 else [])
        elif p < 0.80 and classes:
            obj(rng.choice(classes), _pick(rng, ifs, 2))
        elif p < 0.83 and classes:
            clsprov(rng.choice(classes), _pick(rng, ifs, 2))
        elif p < 0.87 and classes:
            classimpl(rng.choice(classes), _pick(rng, ifs, 2))
        elif p < 0.90 and classes:
            sup(rng.choice(classes))
        elif live:
            leaves = [x for x in live if not sim.dependents(x) and sim.users[x] == 0 and sim.kind[x] != "super"]
            if leaves:
                x = rng.choice(leaves)
                ops.append({"op": "drop", "node": x})
                sim.alive[x] = False
                # release the python-level users this node held
                src = _creator(ops, x)
                if src["op"] == "cls":
                    for b in src["bases"]:
                        sim.users[b] -= 1
                elif src["op"] in ("obj", "clsprov"):
                    sim.users[src["cls"]] -= 1
    return {"ops": ops}


CREATING = ("iface", "decl", "cls", "obj", "clsprov", "super")


def _creator(ops, handle):
    n = -1
    for o in ops:
        if o["op"] in CREATING:
            n += 1
            if n == handle:
                return o
    raise KeyError(handle)


def generate(run, tier):
    rng = run.rng("gen")
    n = 600 if tier == "quick" else 3000
    cases = []
    for k in range(n):
        r = rng.random()
        if r < 0.12:
            cases.append(_history(rng, rng.randint(3, 7), False))
        elif r < 0.30:
            cases.append(_history(rng, rng.randint(6, 25), False))
        else:
            cases.append(_history(rng, rng.randint(8, 25), True))
    for c in cases:
        c["ops"] = c["ops"][:25]
    return cases


# --------------------------------------------------------------------------- Coq terms

def _l(xs):
    for x in xs:
        if not 0 <= x < 64:
            raise C.HarnessError("creation number out of range: %r" % (x,))
    return "[" + ";".join("n%d" % x for x in xs) + "]"


def _steps(case, obs):
    """[(model ops, snapshot, kinds)] with requested bases substituted for the direct operations."""
    steps = obs.get("steps", [])
    hmap = {ROOT: 0, IMPLOBJ: 1}
    nh = 0
    kinds = {}
    out = []
    for k, st in enumerate(steps):
        op = case["ops"][k - 1] if k >= 1 else None
        want = None
        if op is not None:
            if op["op"] in CREATING:
                hmap[nh] = st["node"]
                nh += 1
            if op["op"] in ("iface", "decl", "setbases"):
                want = [hmap[b] for b in op["bases"]]
        mops = []
        for p in st["ops"]:
            if p[0] == "new":
                kinds[p[1]] = p[2]
                if p[1] == 0:
                    continue
                bs = want if (want is not None and p[1] == st["node"] and op["op"] != "setbases") else p[3]
                mops.append("NewSpec n%d %s %s" % (p[1], C.cbool(p[2] == "iface"), _l(bs)))
            elif p[0] == "set":
                bs = want if (want is not None and op["op"] == "setbases" and p[1] == st["node"]) else p[2]
                mops.append("SetBases n%d %s" % (p[1], _l(bs)))
            else:
                mops.append("Drop n%d" % p[1])
        out.append((mops, st, dict(kinds)))
    return out


def coq_case(case, obs, mode):
    steps = []
    for mops, st, kinds in _steps(case, obs):
        sn = []
        for row in st["rows"]:
            i, bs, sro, iro, ioe, ext, extns, prov = row
            sn.append("%s n%d %s %s %s %s %s %s %s%s" % (
                "sn" if prov is None else "snp", i, C.cbool(kinds.get(i) == "iface"), _l(bs), _l(sro), _l(iro),
                _l(ioe), _l(ext), _l(extns), "" if prov is None else " " + _l(prov)))
        steps.append("(%s, %s, %s)" % (C.clist(mops), _l(st["gone"]), C.clist(sn)))
    return "(%s, %s)" % (C.cbool("exc" in obs), C.clist(steps))


def _graphs(obs):
    """the base graph {id: bases} after every step, rebuilt from the transmitted differences"""
    cur = {}
    out = []
    for st in obs.get("steps", []):
        for i in st["gone"]:
            cur.pop(i, None)
        for r in st["rows"]:
            cur[r[0]] = list(r[1])
        out.append(dict(cur))
    return out


# --------------------------------------------------------------------------- classification

def _levels(g, x):
    deps = {}
    for y, bs in g.items():
        for b in bs:
            deps.setdefault(b, set()).add(y)

    def lv(n, d=0):
        if d > 8:
            return d
        return 0 if n not in deps else 1 + max(lv(c, d + 1) for c in deps[n])
    return lv(x)


def _anc(g, x):
    seen, todo = set(), list(g.get(x, []))
    while todo:
        y = todo.pop()
        if y not in seen:
            seen.add(y)
            todo.extend(g.get(y, []))
    return seen


def _diamond_or_shared(g):
    cnt = {}
    for y, bs in g.items():
        for b in set(bs):
            cnt[b] = cnt.get(b, 0) + 1
        bl = list(dict.fromkeys(bs))
        for i in range(len(bl)):
            for j in range(i + 1, len(bl)):
                if (_anc(g, bl[i]) | {bl[i]}) & (_anc(g, bl[j]) | {bl[j]}):
                    return True
    return any(v >= 2 for k, v in cnt.items() if k != 0)


def _facts(case, obs):
    steps = obs.get("steps", [])
    kinds = set()
    deepest, rebases, diamond, incons = 0, 0, False, False
    graphs = _graphs(obs)
    for k, st in enumerate(steps):
        incons = incons or bool(st.get("incons"))
        for p in st["ops"]:
            if p[0] == "new":
                kinds.add(p[2])
        if k >= 1:
            before = graphs[k - 1]
            for p in st["ops"]:
                if p[0] == "set" and p[1] in before:
                    rebases += 1
                    lv = _levels(before, p[1])
                    if _diamond_or_shared(before) or _diamond_or_shared(graphs[k]):
                        diamond = True
                        deepest = max(deepest, lv)
    return kinds, deepest, rebases, diamond, incons


def classify(case, obs):
    if "exc" in obs:
        return None
    kinds, deepest, rebases, diamond, incons = _facts(case, obs)
    if not (diamond and deepest >= 2):
        return None
    n = len(_graphs(obs)[-1])
    return (tuple(sorted(kinds)), min(n // 3, 5), min(rebases, 6), min(deepest, 4), incons)


def kind(case, obs):
    if "exc" in obs:
        return "exception"
    kinds, deepest, rebases, diamond, incons = _facts(case, obs)
    if diamond and deepest >= 2:
        return "diamond/shared + rebase over >=2 dependent levels" + (", inconsistent C3 order met" if incons else "")
    if rebases:
        return "rebase, shallow"
    return "no rebase"


F10_KEY = "F10-equal-name-module-twins-share-dependents-entry"


def finding_key(case, obs, mode):
    """The known finding F10, and nothing else: the case is of the twins stream, two live interfaces
    really have an equal (__name__, __module__) key, and after every step every row that differs
    from what a freshly built graph of the same shape answers (membership read modulo key equality,
    as the dictionaries do) belongs to a later-created twin or to one of its descendants."""
    if not case.get("twins") or "exc" in obs:
        return None
    rows, seen_twins, seen_bad, iface = {}, False, False, set()
    for st in obs.get("steps", []):
        iface |= {p[1] for p in st["ops"] if p[0] == "new" and p[2] == "iface"}
        for i in st["gone"]:
            rows.pop(i, None)
        for r in st["rows"]:
            rows[r[0]] = r
        keys, fresh = st.get("keys"), st.get("fresh")
        if keys is None or fresh is None:
            return None
        key = {int(i): tuple(k) for i, k in keys.items()}
        fresh = {int(i): v for i, v in fresh.items()}
        ids = sorted(rows)
        if sorted(key) != ids or sorted(fresh) != ids:
            return None
        later = {i for i in ids if any(j < i and key[j] == key[i] for j in ids)}
        seen_twins = seen_twins or bool(later)
        # descendants of the later twins over the observed bases
        tainted = set(later)
        grew = True
        while grew:
            grew = False
            for i in ids:
                if i not in tainted and any(b in tainted for b in rows[i][1]):
                    tainted.add(i)
                    grew = True
        for i in ids:
            _i, bs, sro, iro, ioe, ext, extns, prov = rows[i]
            want_ioe = [t for t in ids if any(key[a] == key[t] for a in fresh[i])]
            want_ext = [t for t in want_ioe if key[t] != key[i]]
            ok = (sro == fresh[i] and iro == [a for a in fresh[i] if a in iface] and ioe == want_ioe and ext == want_ext
                  and extns == want_ioe and prov is None)
            if not ok:
                if i not in tainted:
                    return None
                seen_bad = True
    return F10_KEY if (seen_twins and seen_bad) else None


def replay_text(case, obs, mode):
    lines = ["# PURE_PYTHON=%s" % ("1" if mode == "py" else "0"), "import gc",
             "from zope.interface import Interface, implementedBy, providedBy, directlyProvides, classImplements, implementer",
             "from zope.interface.declarations import Declaration",
             "from zope.interface.interface import InterfaceClass",
             "H = {-1: Interface, -2: implementedBy(object)}; K = {}; O = {}"]
    n = 0
    for o in case["ops"]:
        t = o["op"]
        bs = "tuple(H[b] for b in %r)" % (o.get("bases"),)
        fs = "[H[b] for b in %r]" % (o.get("ifaces"),)
        if t == "iface":
            lines.append("H[%d] = InterfaceClass('I%d', %s, {}, __module__='c02gen')" % (n, n, bs))
        elif t == "decl":
            lines.append("H[%d] = Declaration(*%s)" % (n, bs))
        elif t == "cls":
            lines.append("K[%d] = implementer(*%s)(type('C%d', tuple(K[b] for b in %r) or (object,), {})); H[%d] = implementedBy(K[%d])"
                         % (n, fs, n, o["bases"], n, n))
        elif t == "obj":
            lines.append("O[%d] = K[%d](); directlyProvides(O[%d], *%s); H[%d] = providedBy(O[%d])" % (n, o["cls"], n, fs, n, n))
        elif t == "clsprov":
            lines.append("directlyProvides(K[%d], *%s); O[%d] = K[%d]; H[%d] = providedBy(K[%d])" % (o["cls"], fs, n, o["cls"], n, o["cls"]))
        elif t == "super":
            lines.append("H[%d] = %s" % (n, "providedBy(super(K[%d], K[%d]()))" % (o["this"], o["cls"]) if o.get("via") == "providedBy"
                                          else "implementedBy(super(K[%d], K[%d]))" % (o["this"], o["cls"])))
        elif t == "classimpl":
            lines.append("classImplements(K[%d], *%s)" % (o["cls"], fs))
        elif t == "setbases":
            if "reactor" in o:
                r = o["reactor"]
                lines.append("class R:\n    armed = True\n    def changed(self, spec):\n        if self.armed:\n"
                             "            self.armed = False; H[%d].__bases__ = tuple(H[b] for b in %r)\n"
                             "r = R(); H[%d].subscribe(r)" % (r["node"], r["bases"], r["on"]))
            lines.append("H[%d].__bases__ = %s" % (o["node"], bs))
            if "reactor" in o:
                lines.append("H[%d].unsubscribe(r); r.armed = False" % o["reactor"]["on"])
        elif t == "drop":
            lines.append("H.pop(%d, None); K.pop(%d, None); O.pop(%d, None); gc.collect()" % (o["node"], o["node"], o["node"]))
        if t in CREATING:
            n += 1
    lines.append("# after every line: for S in H.values(): for T in H.values(): S.isOrExtends(T), S.extends(T), S.__sro__, S.__iro__")
    lines.append("# observed (ids = creation order; rows: id, bases, sro, iro, isOrExtends, extends, extends(strict=False), providedBy):")
    if "exc" in obs:
        lines.append("# EXCEPTION: %s" % obs["exc"])
    for k, st in enumerate(obs.get("steps", [])):
        lines.append("# step %d ops=%r gone=%r; rows that changed:" % (k, st["ops"], st["gone"]))
        for row in st["rows"]:
            lines.append("#    %r" % (row,))
    return "\n".join(lines)


TECHNIQUE = ("Coq proof by induction over operation histories of a Gallina model of Specification.__setBases / "
             "changed / dependents; the kernel (subscribe, unsubscribe, __setBases, _calculate_sro, changed, isOrExtends, "
             "extends) is regenerated from the source text by a fail-closed translator and proved equal to the model; "
             "vm_compute correspondence with both implementations after every operation; "
             "independent reachability + fresh-graph oracle in Coq")
LEVEL_TEXT = ("Machine-checked theorems (Properties/C02.v, closed under the global context) state, for every history "
              "of creations, __bases__ reassignments at any node and deaths of leaves that keeps the base graph "
              "acyclic, and for every order in which dependents are notified: isOrExtends/extends/__sro__ membership "
              "= reachability over the current bases (+ root), every cached __sro__ = the order of a freshly built "
              "graph, dependents counts = multiplicity in __bases__. The step functions of the model are proved equal, "
              "for all states, to the Gallina text regenerated on every run from class Specification and from the C "
              "struct SB / SB_extends (C02_generated_*_eq_model). The model is compared with the C and Python "
              "implementations after every operation of generated histories over real interfaces, Declarations, "
              "class and instance declarations, and the raw answers are judged by a from-scratch reachability / "
              "fresh-graph oracle inside Coq.")
LEVEL_NOTE = ("Trusted: Coq kernel/vm_compute; Model/Ro.v as transcription of ro.py (validated by the per-step __sro__ "
              "comparison); interface identity = unique (name, module) key (F10 is recorded: shown by the twins corpus case and "
              "refuted in Coq for the key-looked-up variant of the model); how declarations compute "
              "the __bases__ they assign is taken from observation (C01's subject), the direct assignments are checked.")
