"""C03 — resolution orders are valid linearizations and equal C3 whenever C3 exists
(DESIGN.md section 5, C03)."""
import json
import os
from .. import common as C

ID = "C03"
COQ_TARGETS = ["Tie/C03.vo", "Tie/C03mro.vo", "Tie/C03leg.vo", "Tie/C03env.vo", "Properties/C03.vo"]
PROPERTY_FILE = "Properties/C03.v"
TIE = "Tie.C03"
DRIVER = "c03_driver.py"
SHARD = 60
THEOREMS = [
    "C03_merge_fuel_enough", "C03_merge_is_interleaving", "C03_merge_eq_textbook",
    "C03_textbook_merge_relation", "C03_c3_is_valid_lin", "C03_c3_fuel_irrelevant",
    "C03_ro_eq_c3", "C03_strict_raises_iff", "C03_is_consistent_iff", "C03_ro_valid",
    "C03_legacy_valid", "C03_sro_valid", "C03_sro_eq_c3_rooted", "C03_root_last",
    "C03_single_base_shortcut_sound", "C03_iro_is_filter", "C03_oracle_sound",
    "C03_strict_sro_raises_iff", "C03_legacy_sro_valid",
    "C03_generated_can_choose_base_eq_model", "C03_generated_nonempty_bases_ignoring_eq_model",
    "C03_generated_find_next_C3_base_eq_model", "C03_generated_legacy_mergeOrderings_eq_model",
    "C03_generated_legacy_ro_eq_model",
    "C03_generated_merge_eq_model", "C03_generated_c3_node_eq_model",
    "C03_generated_had_inconsistency_eq_model", "C03_generated_ro_eq_model",
    "C03_generated_is_consistent_eq_model", "C03_generated_root_fixup_eq_model",
]
RULE = ("ordered inheritance DAGs of real InterfaceClass objects and class specifications "
        "(implementer on real classes); streams: pure interface DAGs, DAGs with Interface as an explicit "
        "non-last base, mixed interface/class-spec DAGs, DAGs followed by 1-3 __bases__ reassignments, DAGs in which "
        "an equal-named twin replaces a base under all its children and is then rebased itself; in a third of the cases "
        "half of the interfaces are falsy (InterfaceClass subclasses with __len__ -> 0 / __bool__ -> False); a case "
        "is non-trivial when some specification has >= 2 bases; distinct = distinct (stream, node count, "
        "sorted base-count profile, inconsistent?, root fix-up needed?, phases) signature")
TRUSTED_BASE = ["the numbering of specifications by the driver (creation order, closure under __bases__)",
                "CPython's type.mro() as independent oracle for the textbook C3 of Spec/C3.v",
                "harness/translate/ro_kernel.py: the fail-closed translation of ro.py / _calculate_sro into "
                "coq/Gen/RoKernel.v (vocabulary coq/Lib/Py.v: `is` = equality of object numbers, sets as lists, "
                "`while 1` and the splice-behind-the-cursor loop of _legacy_flatten as fuel-indexed Fixpoints); pinned, not translated: C3.resolver, "
                "C3.legacy_ro, C3.mro, _StaticMRO, _TrackingC3, the resolver-building loop of C3.__init__"]
ASSUMPTIONS = ["base graphs are acyclic and base lists do not repeat an entry (wfb, re-checked in Coq on every case)",
               "interface (name, module) keys are unique within a case (see C02/F10 for what happens otherwise)",
               "omitted inputs: two distinct interfaces with equal (__name__, __module__) inside ONE hierarchy (known finding "
               "F15: they collide in the ==-keyed memo/base_mros/seen of ro.py; kept as one judged corpus case and its mirror, "
               "matched by exact key); the random streams (incl. the twin stream) never make twins co-reachable or co-dependent",
               "rebasing history: after any sequence of __bases__ reassignments every __sro__ equals the order of a "
               "freshly built hierarchy (checked by the rebase stream; the propagation proof belongs to C02)"]


# --------------------------------------------------------------------------- regeneration

GEN_FILE = os.path.join(C.COQ, "Gen", "RoKernel.v")


def regenerate(run):
    """Re-translate ro.py and Specification._calculate_sro of the working tree into coq/Gen/RoKernel.v
    (fail closed).  After a refusal the kernel of the pinned source is written instead, so that the rest
    of the development still builds; the refusal itself is returned as the error (the theorems of
    Properties/C03.v are then not about the current source)."""
    from ..translate import ro_kernel as T
    errs = []
    try:
        text = T.translate(C.REPO)
    except (T.TranslationError, SyntaxError, OSError) as e:
        text = T.pinned()
        errs.append("harness/translate/ro_kernel.py refused the current ro.py / interface.py (%s: %s); "
                    "coq/Gen/RoKernel.v holds the pinned kernel, so the C03_generated_*_eq_model theorems are NOT "
                    "about the current source" % (type(e).__name__, e))
    with C.CoqLock():
        C.write_if_changed(GEN_FILE, text)
    run.coverage["translated_kernel"] = {"source": ["src/zope/interface/ro.py", "src/zope/interface/interface.py"],
                                         "generated": "coq/Gen/RoKernel.v", "ok": not errs}
    # the ties (model + Spec oracle) do not depend on the generated kernel and must exist even when the
    # equality proofs over a changed kernel fail
    ok, out = C.coq_make(["Tie/C03.vo", "Tie/C03mro.vo", "Tie/C03leg.vo", "Tie/C03env.vo"])
    if not ok:
        errs.append("the C03 ties do not build:\n" + out[-2000:])
    return errs


# --------------------------------------------------------------------------- generation

def _nbases(rng, avail):
    k = rng.choices([0, 1, 2, 3, 4], weights=[1, 4, 6, 3, 1])[0]
    return min(k, avail)


def _order(rng, bs, tidy):
    """tidy: most-derived (latest created) first — usually C3-consistent; otherwise random."""
    bs = list(bs)
    if tidy:
        bs.sort(reverse=True)
    else:
        rng.shuffle(bs)
    return bs


def gen_iface(rng, n, root_anywhere=False, p_tidy=0.5):
    nodes = []
    for i in range(1, n + 1):
        cand = list(range(1, i))
        k = _nbases(rng, len(cand))
        bs = _order(rng, rng.sample(cand, k), rng.random() < p_tidy)
        r = rng.random()
        if root_anywhere:
            if r < 0.45:
                bs.insert(rng.randrange(len(bs) + 1), 0)
        elif r < 0.35:
            bs.append(0)
        nodes.append({"kind": "iface", "bases": bs})
    return nodes


def _py_mro_ok(bases):
    try:
        type("T", tuple(bases), {})
        return True
    except TypeError:
        return False


def gen_mixed(rng, n, p_tidy=0.5):
    nodes = []
    real = {}
    for i in range(1, n + 1):
        ifaces = [j for j in range(1, i) if nodes[j - 1]["kind"] == "iface"]
        classes = [j for j in range(1, i) if nodes[j - 1]["kind"] == "class"]
        if rng.random() < 0.45 and i > 1:
            k = rng.choices([0, 1, 2], weights=[3, 5, 3])[0]
            cb = _order(rng, rng.sample(classes, min(k, len(classes))), True)
            while cb and not _py_mro_ok([real[c] for c in cb]):
                cb = cb[:-1]
            real[i] = type("G%d" % i, tuple(real[c] for c in cb) or (object,), {})
            k = rng.choices([0, 1, 2, 3], weights=[2, 4, 4, 2])[0]
            impl = _order(rng, rng.sample(ifaces, min(k, len(ifaces))), rng.random() < p_tidy)
            nodes.append({"kind": "class", "cbases": cb, "impl": impl})
        else:
            k = _nbases(rng, len(ifaces))
            bs = _order(rng, rng.sample(ifaces, k), rng.random() < p_tidy)
            if rng.random() < 0.3:
                bs.append(0)
            nodes.append({"kind": "iface", "bases": bs})
    return nodes


def _descendants(graph, x):
    """graph: {id: [bases]}; everything that reaches x (including x)."""
    res = {x}
    changed = True
    while changed:
        changed = False
        for y, bs in graph.items():
            if y not in res and any(b in res for b in bs):
                res.add(y)
                changed = True
    return res


def gen_rebase(rng, n):
    nodes = gen_iface(rng, n, root_anywhere=rng.random() < 0.2)
    graph = {i: list(nd["bases"]) for i, nd in enumerate(nodes, 1)}
    ops = []
    for _ in range(rng.choice([1, 1, 2, 3])):
        x = rng.randrange(1, n + 1)
        bad = _descendants(graph, x)
        cand = [y for y in graph if y not in bad]
        k = _nbases(rng, len(cand))
        nb = _order(rng, rng.sample(cand, k), rng.random() < 0.5)
        if rng.random() < 0.3:
            nb.append(0)
        if nb == graph[x]:
            continue
        graph[x] = nb
        ops.append([x, nb])
    return nodes, ops


def gen_twin(rng, n):
    """rebasing history with a TWIN: a distinct interface with the __name__ and __module__ of node T (the "same"
    interface after a module reload) replaces T as base of every child of T and is then rebased itself.
    Interfaces compare and hash by (name, module), so any bookkeeping by equality instead of identity shows.
    The shapes stay clear of finding F10 (C02): the twins are never both dependents of one base (T keeps its
    bases or is emptied; the twin only gets bases T does not have) and never both ancestors of one node."""
    nodes = gen_iface(rng, n)
    graph = {i: list(nd["bases"]) for i, nd in enumerate(nodes, 1)}
    with_children = [t for t in graph if any(t in bs for bs in graph.values())]
    t = rng.choice(with_children or list(graph))
    tw = n + 1
    nodes.append({"kind": "iface", "bases": [], "twin_of": t})
    graph[tw] = []
    ops = []
    for c in sorted(graph):
        if t in graph[c]:
            graph[c] = [tw if b == t else b for b in graph[c]]
            ops.append([c, list(graph[c]), False])
    if ops:
        ops[-1][2] = True     # observe once every child has been moved: before that both twins sit in one
        #                       hierarchy, where equal keys collide inside ro.py (outside the statement, see F10)
    if rng.random() < 0.5 and graph[t]:
        graph[t] = []
        ops.append([t, []])
    for _ in range(rng.choice([1, 1, 2])):
        bad = _descendants(graph, tw) | {t}
        cand = [y for y in graph if y not in bad and y not in graph[t]]
        k = max(1, _nbases(rng, len(cand))) if cand else 0
        nb = _order(rng, rng.sample(cand, min(k, len(cand))), rng.random() < 0.6)
        if rng.random() < 0.3 and 0 not in graph[t]:
            nb.append(0)
        if nb != graph[tw]:
            graph[tw] = nb
            ops.append([tw, nb])
    # then something above the twin moves (never touching T or the twin)
    above = [a for a in graph[tw] if a != 0]
    if above and rng.random() < 0.6:
        a = rng.choice(above)
        bad = _descendants(graph, a) | {t, tw}
        cand = [y for y in graph if y not in bad and y not in graph[t]]
        nb = _order(rng, rng.sample(cand, min(_nbases(rng, len(cand)), len(cand))), rng.random() < 0.6)
        if nb != graph[a]:
            graph[a] = nb
            ops.append([a, nb])
    return nodes, ops


FIXED = [
    # diamond
    {"stream": "fixed", "nodes": [{"kind": "iface", "bases": [0]}, {"kind": "iface", "bases": [1]},
                                  {"kind": "iface", "bases": [1]}, {"kind": "iface", "bases": [2, 3]}]},
    # F3: I1(I0), I3(I0, I1) and a subclass of the inconsistent one
    {"stream": "fixed", "nodes": [{"kind": "iface", "bases": [0]}, {"kind": "iface", "bases": [1]},
                                  {"kind": "iface", "bases": [1, 2]}, {"kind": "iface", "bases": [3]}]},
    # Interface first: the declared bases have a C3 order, the rooted hierarchy has none
    {"stream": "fixed", "nodes": [{"kind": "iface", "bases": []}, {"kind": "iface", "bases": [0, 1]}]},
    # Interface in the middle of ro.ro, last in __sro__
    {"stream": "fixed", "nodes": [{"kind": "iface", "bases": [0]}, {"kind": "iface", "bases": []},
                                  {"kind": "iface", "bases": [1, 2]}]},
    # class specs
    {"stream": "fixed", "nodes": [{"kind": "iface", "bases": []}, {"kind": "iface", "bases": [1]},
                                  {"kind": "class", "cbases": [], "impl": [1]},
                                  {"kind": "class", "cbases": [3], "impl": [2]},
                                  {"kind": "class", "cbases": [3], "impl": []},
                                  {"kind": "class", "cbases": [4, 5], "impl": [2, 1]}]},
    # rebasing a diamond's top, then making it inconsistent, then back
    {"stream": "fixed", "nodes": [{"kind": "iface", "bases": [0]}, {"kind": "iface", "bases": [1]},
                                  {"kind": "iface", "bases": [1]}, {"kind": "iface", "bases": [2, 3]},
                                  {"kind": "iface", "bases": []}],
     "rebase": [[1, [5]], [4, [1, 2]], [4, [3, 2]]]},
    # falsy specifications taking part in real merges (diamond, and a class spec, then a rebase)
    {"stream": "fixed", "nodes": [{"kind": "iface", "bases": [0], "falsy": 1}, {"kind": "iface", "bases": [1], "falsy": 2},
                                  {"kind": "iface", "bases": [1], "falsy": 1}, {"kind": "iface", "bases": [2, 3]},
                                  {"kind": "class", "cbases": [], "impl": [3, 2]},
                                  {"kind": "iface", "bases": [], "falsy": 2}],
     "rebase": [[4, [3, 2]], [2, [6, 1]]]},
    # twin: IChild(IBase), IExtra; IBase' (same name and module) replaces IBase under IChild, then gets IExtra
    {"stream": "fixed", "nodes": [{"kind": "iface", "bases": [0]}, {"kind": "iface", "bases": [1]},
                                  {"kind": "iface", "bases": [0]}, {"kind": "iface", "bases": [], "twin_of": 1}],
     "rebase": [[2, [4]], [4, [3]], [3, []]]},
]


# Known finding F15: two DISTINCT interfaces with equal (__name__, __module__) in ONE hierarchy collide in the
# ==-keyed dictionaries of ro.py (memo, base_mros, `seen`).  Exactly this shape is kept as a judged corpus case
# (corpus/C03/f15_twins.json); the random streams never put both twins into one hierarchy.
F15_KEY = "F15-equal-named-twins-in-one-hierarchy-collide-in-C3-memo"
F15_CASES = [
    # IX, IY; A1 = 'IA'(IX); A2 = 'IA'(IY) (twin); IC(A1, A2)
    {"stream": "f15", "twins": True,
     "nodes": [{"kind": "iface", "bases": []}, {"kind": "iface", "bases": []}, {"kind": "iface", "bases": [1]},
               {"kind": "iface", "bases": [2], "twin_of": 3}, {"kind": "iface", "bases": [3, 4]}]},
    # mirror: IC(A2, A1)
    {"stream": "f15", "twins": True,
     "nodes": [{"kind": "iface", "bases": []}, {"kind": "iface", "bases": []}, {"kind": "iface", "bases": [1]},
               {"kind": "iface", "bases": [2], "twin_of": 3}, {"kind": "iface", "bases": [4, 3]}]},
    # the same shape with unique names (no finding)
    {"stream": "f15", "nodes": [{"kind": "iface", "bases": []}, {"kind": "iface", "bases": []},
                                {"kind": "iface", "bases": [1]}, {"kind": "iface", "bases": [2]},
                                {"kind": "iface", "bases": [3, 4]}]},
]


def _reach(g, x):
    seen, todo = set(), [x]
    while todo:
        y = todo.pop()
        if y not in seen:
            seen.add(y)
            todo.extend(g.get(y, []))
    return seen


def finding_key(case, obs, mode):
    """Known finding F15 and nothing else: the case declares twins, two distinct co-reachable nodes really have an
    equal (name, module) key, every row of a node whose hierarchy does NOT contain both twins is exactly what the same
    shape with unique names answers, and a row that differs (a) belongs to a node above both twins, (b) is still
    duplicate-free, starts with the node and stays inside its hierarchy, and (c) differs in membership only by
    twins and ancestors of twins (what the colliding dictionary entries drop)."""
    if not case.get("twins") or "exc" in obs or "ref" not in obs or len(obs["ref"]) != len(obs["phases"]):
        return None
    key = {0: 0}
    for i, nd in enumerate(case["nodes"], 1):
        key[i] = nd.get("twin_of", i)
    seen_bad = False
    for ph, ref in zip(obs["phases"], obs["ref"]):
        if ph["graph"] != ref["graph"] or any(x not in key for x, _ in ph["graph"]):
            return None
        g = {x: bs for x, bs in ph["graph"]}
        twins = {a for a in g for b in g if a != b and key[a] == key[b]}
        explain = set()
        for t in twins:
            explain |= _reach(g, t)
        for row, want in zip(ph["obs"], ref["obs"]):
            if row == want:
                continue
            x = row[0]
            rx = _reach(g, x)
            if not any(a in rx and b in rx and a != b and key[a] == key[b] for a in twins for b in twins):
                return None
            for col in (1, 2, 3, 4, 5):
                got, exp = row[col], want[col]
                if got is None or exp is None:
                    continue
                if (not got or got[0] != x or len(set(got)) != len(got) or not set(got) <= rx | {0}
                        or not (set(got) ^ set(exp)) <= explain):
                    return None
            seen_bad = True
    return F15_KEY if seen_bad else None


def generate(run, tier):
    rng = run.rng("gen")
    quick = tier == "quick"
    nmax = 9 if quick else 14
    total = 700 if quick else 5000
    cases = []          # the FIXED hierarchies are in corpus/C03/fixed.json (run first by the runner)
    plan = [("iface", 0.32), ("rootexp", 0.15), ("mixed", 0.25), ("rebase", 0.18), ("twin", 0.10)]
    for stream, frac in plan:
        for _ in range(int(total * frac)):
            n = rng.randint(2, nmax) if rng.random() < 0.8 else rng.randint(max(2, nmax - 3), nmax)
            p_tidy = rng.choice([0.0, 0.5, 0.5, 0.9, 1.0])
            if stream == "iface":
                cases.append({"stream": stream, "nodes": gen_iface(rng, n, False, p_tidy)})
            elif stream == "rootexp":
                cases.append({"stream": stream, "nodes": gen_iface(rng, n, True, p_tidy)})
            elif stream == "mixed":
                cases.append({"stream": stream, "nodes": gen_mixed(rng, n, p_tidy)})
            elif stream == "twin":
                nodes, ops = gen_twin(rng, min(n, nmax - 1))
                cases.append({"stream": stream, "nodes": nodes, "rebase": ops})
            else:
                nodes, ops = gen_rebase(rng, min(n, nmax - 1))
                cases.append({"stream": stream, "nodes": nodes, "rebase": ops})
            # falsy specifications (InterfaceClass subclasses with __len__ -> 0 / __bool__ -> False) anywhere in the DAG:
            # nothing in the resolution order may depend on the truth value of a specification
            if rng.random() < 0.35:
                for nd in cases[-1]["nodes"]:
                    if nd["kind"] == "iface" and rng.random() < 0.5:
                        nd["falsy"] = rng.choice([1, 2])
    return cases


# --------------------------------------------------------------------------- Coq terms

def ranks_of(graph):
    """longest-path depth per node; graph: list of [id, bases].  Raises on a cycle."""
    g = {x: bs for x, bs in graph}
    memo = {}

    def depth(x, stack=()):
        if x in memo:
            return memo[x]
        if x in stack:
            raise C.HarnessError("cycle in observed __bases__ graph")
        d = 0
        for b in g.get(x, []):
            d = max(d, 1 + depth(b, stack + (x,)))
        memo[x] = d
        return d

    n = max(g) + 1 if g else 0
    return [depth(x) if x in g else 0 for x in range(n)]


def cnl(l):
    return C.clist([C.cnat(x) for x in l])


def cgraph(graph):
    return C.clist(["(%d, %s)" % (x, cnl(bs)) for x, bs in graph])


def _obs_term(o):
    x, sro, iro, r, rs, rl, cons = o
    return "(%d, %s, %s, %s, %s, %s, %s)" % (x, cnl(sro), cnl(iro), cnl(r), C.copt(rs, cnl), cnl(rl), C.cbool(cons))


def coq_case(case, obs, mode):
    if "exc" in obs:
        # the driver could not even build the hierarchy: encode as a case both checks reject
        return "(0, [], [([(0, [0])], [0], [])])"
    phases = []
    for ph in obs["phases"]:
        phases.append("(%s, %s, %s)" % (cgraph(ph["graph"]), cnl(ranks_of(ph["graph"])),
                                        C.clist([_obs_term(o) for o in ph["obs"]])))
    return "(0, %s, %s)" % (C.clist([C.cbool(k) for k in obs["kinds"]]), C.clist(phases))


# --------------------------------------------------------------------------- coverage bookkeeping

def _inconsistent(obs):
    return any(not o[6] for ph in obs.get("phases", []) for o in ph["obs"])


def _fixup(obs):
    """some __sro__ differs from ro.ro (the Interface-last fix-up or the cached-base orders mattered)"""
    return any(o[1] != o[3] for ph in obs.get("phases", []) for o in ph["obs"])


def classify(case, obs):
    if "exc" in obs:
        return None
    g = obs["phases"][0]["graph"]
    if not any(len(bs) >= 2 for _, bs in g):
        return None
    prof = tuple(sorted(len(bs) for _, bs in g))
    return (case["stream"], len(g), prof, _inconsistent(obs), _fixup(obs), len(obs["phases"]))


def kind(case, obs):
    if "exc" in obs:
        return case["stream"] + "/driver-exception"
    return "%s/%s" % (case["stream"], "inconsistent" if _inconsistent(obs) else "consistent")


def replay_text(case, obs, mode):
    lines = ["# PURE_PYTHON=%s" % ("1" if mode == "py" else "0"),
             "from zope.interface import Interface, implementedBy, implementer, ro",
             "from zope.interface.interface import InterfaceClass",
             "class FalsyLen(InterfaceClass):\n    def __len__(self): return 0",
             "class FalsyBool(InterfaceClass):\n    def __bool__(self): return False",
             "S = {0: Interface}; K = {}"]
    for i, nd in enumerate(case["nodes"], 1):
        if nd["kind"] == "iface":
            lines.append("S[%d] = %s('I%d', (%s), {})%s" % (
                i, {0: "InterfaceClass", 1: "FalsyLen", 2: "FalsyBool"}[nd.get("falsy", 0)], nd.get("twin_of", i), "".join("S[%d], " % b for b in nd["bases"]),
                "   # twin: same __name__ and __module__ as S[%d]" % nd["twin_of"] if "twin_of" in nd else ""))
        else:
            lines.append("K[%d] = type('K%d', (%s) or (object,), {})" % (i, i, "".join("K[%d], " % c for c in nd["cbases"])))
            if nd["impl"]:
                lines.append("K[%d] = implementer(%s)(K[%d])" % (i, ", ".join("S[%d]" % b for b in nd["impl"]), i))
            lines.append("S[%d] = implementedBy(K[%d])" % (i, i))
    for op in case.get("rebase", []):
        lines.append("S[%d].__bases__ = (%s)" % (op[0], "".join("S[%d], " % b for b in op[1])))
    lines.append("for i, s in S.items(): print(i, s.__sro__, ro.is_consistent(s))")
    lines.append("# observed phases (node, __sro__, __iro__, ro, ro strict (None=raised), ro legacy, is_consistent):")
    for ph in obs.get("phases", []):
        lines.append("#  graph %r" % (ph["graph"],))
        for o in ph["obs"]:
            lines.append("#   %r" % (o,))
    return "\n".join(lines)


# --------------------------------------------------------------------------- Spec validation (oracles)

def extra(run, impl, known):
    """(1) the textbook C3 of Spec/C3.v against CPython's type.mro() on mirrored class hierarchies;
    (2) against zope.interface itself run with ZOPE_INTERFACE_STRICT_IRO=1 (creation raises exactly at the
    first specification without a C3 order, every created __sro__ is the C3 order)."""
    rng = run.rng("oracle")
    quick = run.tier == "quick"
    nmax = 9 if quick else 13
    graphs = []
    for _ in range(300 if quick else 2500):
        n = rng.randint(2, nmax)
        nodes = gen_iface(rng, n, rng.random() < 0.3, rng.choice([0.0, 0.5, 0.9, 1.0]))
        graphs.append(nodes)
    for c in FIXED[:4]:
        graphs.append(c["nodes"])

    def as_graph(nodes):
        return [[0, []]] + [[i, list(nd["bases"])] for i, nd in enumerate(nodes, 1)]

    def rooted(graph):
        return [[x, (bs if (bs or x == 0) else [0])] for x, bs in graph]

    # (1) CPython
    st, res = impl.run("c03_mro_driver.py", {"graphs": [{"graph": rooted(as_graph(n))} for n in graphs]}, "c")
    if st != "ok":
        raise C.HarnessError("mro driver failed: %r" % (res,))
    terms, none_count = [], 0
    for nodes, ob in zip(graphs, res["obs"]):
        if isinstance(ob, dict):
            raise C.HarnessError("mro driver exception: %r" % (ob,))
        g = as_graph(nodes)
        none_count += any(m is None for _, m in ob)
        terms.append("(0, %s, %s, %s)" % (cgraph(g), cnl(ranks_of(g)),
                                          C.clist(["(%d, %s)" % (x, C.copt(m, cnl)) for x, m in ob])))
    bad_m, bad_s, errors = C.coq_eval_cases("Tie.C03mro", terms, shard=150)
    if errors:
        raise C.HarnessError("coqc failed on mro cases: " + json.dumps(errors)[:2000])
    run.coverage["mro_oracle_hierarchies"] = len(terms)
    run.coverage["mro_oracle_with_typeerror"] = none_count
    for j in bad_s[:3]:
        run.add_violation("Spec/C3.v disagrees with CPython type.mro() on hierarchy %d" % j,
                          {"property": ID, "kind": "Spec oracle (CPython MRO) disagreement", "nodes": graphs[j],
                           "cpython": res["obs"][j]}, "mro_%d" % j, no_input=True)

    # (2) strict environment
    scases = [{"stream": "strictenv", "nodes": n} for n in graphs]
    for mode in ("c", "py"):
        st, res = impl.run(DRIVER, {"cases": scases, "env_strict": True}, mode,
                           env={"ZOPE_INTERFACE_STRICT_IRO": "1", "C03_KEEP_ENV": "1"})
        if st != "ok":
            raise C.HarnessError("strict-env driver failed: %r" % (res,))
        terms, raised = [], 0
        for nodes, ob in zip(graphs, res["obs"]):
            if "exc" in ob:
                raise C.HarnessError("strict-env driver exception: %r" % (ob,))
            g = as_graph(nodes)
            raised += any(m is None for _, m in ob["created"])
            terms.append("(0, %s, %s, %s)" % (cgraph(g), cnl(ranks_of(g)),
                                              C.clist(["(%d, %s)" % (x, C.copt(m, cnl)) for x, m in ob["created"]])))
        bad_m, bad_s, errors = C.coq_eval_cases("Tie.C03mro", terms, shard=150)
        if errors:
            raise C.HarnessError("coqc failed on strict-env cases: " + json.dumps(errors)[:2000])
        run.coverage["strict_env_hierarchies_%s" % mode] = len(terms)
        run.coverage["strict_env_raised_%s" % mode] = raised
        for j in bad_s[:3]:
            run.add_violation(
                "with ZOPE_INTERFACE_STRICT_IRO=1 (mode %s) creation did not raise exactly at the first "
                "specification without a C3 order / an __sro__ is not the C3 order" % mode,
                {"property": ID, "kind": "implementation contradicts Spec on this input", "mode": mode,
                 "env": {"ZOPE_INTERFACE_STRICT_IRO": "1"}, "case": scases[j], "observed": res["obs"][j],
                 "python": replay_text(scases[j], {}, mode)}, "strictenv_%s_%d" % (mode, j))

    # (3) legacy environment: every __sro__ = legacy order with Interface last, and still a valid linearization
    lcases = scases[:len(scases) // 2] + [c for c in FIXED if "rebase" not in c]
    for mode in ("c", "py"):
        st, res = impl.run(DRIVER, {"cases": lcases, "env_legacy": True}, mode,
                           env={"ZOPE_INTERFACE_USE_LEGACY_IRO": "1", "C03_KEEP_ENV": "1"})
        if st != "ok":
            raise C.HarnessError("legacy-env driver failed: %r" % (res,))
        terms = []
        for ob in res["obs"]:
            if "exc" in ob:
                raise C.HarnessError("legacy-env driver exception: %r" % (ob,))
            terms.append("(0, %s, %s, %s)" % (cgraph(ob["graph"]), cnl(ranks_of(ob["graph"])),
                                              C.clist(["(%d, %s)" % (x, cnl(m)) for x, m in ob["sros"]])))
        bad_m, bad_s, errors = C.coq_eval_cases("Tie.C03leg", terms, shard=150)
        if errors:
            raise C.HarnessError("coqc failed on legacy-env cases: " + json.dumps(errors)[:2000])
        run.coverage["legacy_env_hierarchies_%s" % mode] = len(terms)
        for j in bad_s[:3]:
            run.add_violation(
                "with ZOPE_INTERFACE_USE_LEGACY_IRO=1 (mode %s) an __sro__ is not a valid linearization" % mode,
                {"property": ID, "kind": "implementation contradicts Spec on this input", "mode": mode,
                 "env": {"ZOPE_INTERFACE_USE_LEGACY_IRO": "1"}, "case": lcases[j], "observed": res["obs"][j],
                 "python": replay_text(lcases[j], {}, mode)}, "legacyenv_%s_%d" % (mode, j))
        for j in [k for k in bad_m if k not in set(bad_s)][:3]:
            run.add_violation(
                "legacy environment (mode %s): model and implementation differ on hierarchy %d" % (mode, j),
                {"property": ID, "kind": "correspondence broken (legacy environment)", "mode": mode,
                 "case": lcases[j], "observed": res["obs"][j]}, "legacyenv_tie_%s_%d" % (mode, j), no_input=True)

    # (4) explicit arguments versus the process-wide settings: under STRICT_IRO=1 / USE_LEGACY_IRO=1 every node
    # (stand-in objects, and interfaces whose inconsistent bases got in through an assignment that raised) is
    # asked is_consistent, ro(strict=False), ro(strict=True), ro()
    ecases = []
    for k, nodes in enumerate(graphs[:len(graphs) // 2] + [c["nodes"] for c in FIXED[:4]]):
        if all(nd["kind"] == "iface" for nd in nodes):
            ecases.append({"stream": "envsettings", "variant": "objs" if k % 2 else "ifaces", "nodes": nodes})
    for which, envno, var in (("strict", 1, "ZOPE_INTERFACE_STRICT_IRO"), ("legacy", 2, "ZOPE_INTERFACE_USE_LEGACY_IRO")):
        for mode in ("c", "py"):
            st, res = impl.run(DRIVER, {"cases": ecases, "env_settings": which}, mode,
                               env={var: "1", "C03_KEEP_ENV": "1"})
            if st != "ok":
                raise C.HarnessError("env-settings driver failed: %r" % (res,))
            terms, incons = [], 0
            for ob in res["obs"]:
                if "exc" in ob:
                    terms.append("(%d, [(0, [0])], [0], [])" % envno)      # rejected by both checks
                    continue
                incons += any(o[2] is None for o in ob["obs"])
                terms.append("(%d, %s, %s, %s)" % (envno, cgraph(ob["graph"]), cnl(ranks_of(ob["graph"])), C.clist([
                    "(%d, %s, %s, %s, %s)" % (o[0], C.copt(o[1], cnl), C.copt(o[2], cnl), C.copt(o[3], cnl),
                                              C.copt(o[4], C.cbool)) for o in ob["obs"]])))
            bad_m, bad_s, errors = C.coq_eval_cases("Tie.C03env", terms, shard=150)
            if errors:
                raise C.HarnessError("coqc failed on env-settings cases: " + json.dumps(errors)[:2000])
            run.coverage["env_%s_hierarchies_%s" % (which, mode)] = len(terms)
            run.coverage["env_%s_inconsistent_%s" % (which, mode)] = incons
            for j in bad_s[:3]:
                run.add_violation(
                    "with %s=1 (mode %s) an explicit strict/use_legacy argument is not honoured, or is_consistent "
                    "raises / answers wrongly" % (var, mode),
                    {"property": ID, "kind": "implementation contradicts Spec on this input", "mode": mode,
                     "env": {var: "1"}, "case": ecases[j], "observed": res["obs"][j],
                     "columns": "node, ro(strict=False, use_legacy_ro=False), ro(strict=True, use_legacy_ro=False), "
                                "ro(), is_consistent  (null = InconsistentResolutionOrderError)",
                     "python": "# %s=1 PURE_PYTHON=%s; variant %s: 'objs' = plain objects with __bases__, 'ifaces' = "
                               "InterfaceClass (created without bases and assigned when creation raises)\n# nodes: %r"
                               % (var, "1" if mode == "py" else "0", ecases[j]["variant"], ecases[j]["nodes"])},
                    "envset_%s_%s_%d" % (which, mode, j))
            for j in [k for k in bad_m if k not in set(bad_s)][:3]:
                run.add_violation(
                    "%s=1 (mode %s): model and implementation differ on hierarchy %d" % (var, mode, j),
                    {"property": ID, "kind": "correspondence broken (environment settings)", "mode": mode,
                     "case": ecases[j], "observed": res["obs"][j]}, "envset_tie_%s_%s_%d" % (which, mode, j),
                    no_input=True)


TECHNIQUE = ("Coq proof over a Gallina transcription of ro.py / _calculate_sro against a textbook-C3 Spec; the transcription "
             "is proved equal to kernels regenerated from the source text by a fail-closed ast translator on every run; "
             "vm_compute correspondence with both implementations on generated hierarchies; CPython MRO as Spec oracle")
LEVEL_TEXT = ("Machine-checked theorems (Properties/C03.v, 30 theorems, closed under the global context) state for ALL "
              "finite acyclic ordered hierarchies that the model's __sro__ is a valid linearization ending with Interface, "
              "equals the textbook C3 order whenever that exists, that strict mode raises / is_consistent is False exactly "
              "when it does not, that the legacy fallback is still a valid linearization, and that the merge terminates. "
              "Eleven of them (C03_generated_*_eq_model, incl. the legacy fallback _legacy_flatten/_legacy_ro) state that the hand model equals, definition by definition, the Gallina "
              "kernels regenerated on this run from the text of ro.py and Specification._calculate_sro. "
              "The model is compared with the C and Python builds on generated hierarchies on every run and the "
              "implementation's raw answers are judged inside Coq by the Spec (textbook C3 + ValidLin) alone.")
LEVEL_NOTE = ("Trusted: Coq kernel/vm_compute; the translator harness/translate/ro_kernel.py and its vocabulary Lib/Py.v; the "
              "hand-modelled glue it pins instead of translating (resolver recursion, the legacy_ro memo; validated by the correspondence in both modes, "
              "incl. class specs, explicit Interface bases and rebasing); the rebasing-history half is observed (rebase "
              "stream), its propagation proof belongs to C02.  Hierarchies with repeated entries in one base list or "
              "with equal (name, module) keys are outside the statement.")
