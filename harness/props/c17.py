"""C17 — verifyObject/verifyClass accept exactly the conforming candidates (DESIGN.md section 5, C17)."""
import os

from .. import common as C
from ..translate import incompat as TR
from ..translate import verify_kernel as VK

ID = "C17"
COQ_TARGETS = ["Tie/C17.vo", "Properties/C17.vo"]   # common.coq_make passes -k to make
PROPERTY_FILE = "Properties/C17.v"
TIE = "Tie.C17"
DRIVER = "c17_driver.py"
SHARD = 400
THEOREMS = [
    "C17_incompat_none_iff_all_shapes_bind", "C17_admits_iff_binds", "C17_self_stripped_binds",
    "C17_selfless_method_accepted_refuted", "C17_bounded_shapes_suffice", "C17_verify_success_iff", "C17_errors_reported_exactly",
    "C17_outcome_by_failure_count",
    "C17_generated_verify_element_eq_model", "C17_generated_verify_eq_model",
    "C17_generated_verify_wrappers_eq_model", "C17_generated_verify_from_method_eq_model",
]
RULE = ("grid: every pair of (required, defaulted, *args, **kwargs) signatures with required, defaulted <= 3 "
        "(4096 pairs) x {function in the instance dict, bound method, verifyClass}, plus every interface signature "
        "against methods / classmethods that take their instance through *args (def m(*va[, **kw])); "
        "aggregation stream (each case preceded by a random set of single-name look-ups on the interface, its "
        "base and a derived interface: [], in, get, queryDescriptionFor, existing and unknown names; ~12% of the "
        "descriptions stored under a key that is not their __name__: Attribute('word'), IOther['m'], Method('m'), "
        "a = b = Attribute(doc), with or without something under that other name on the candidate; a 'wrapped' stream "
        "of methods / classmethods / staticmethods decorated with functools.wraps (one or two levels) whose wrapper "
        "takes the same / more / fewer arguments than the wrapped function, judged by what the wrapper binds; a dedicated "
        "'alias' stream where most are; a 'seq' stream of 2-3 verifications in one process sharing function objects "
        "as instance-dict function / class-body method under verifyObject / verifyClass with __defaults__ reassigned "
        "in between, every verification judged on its own): "
        "interfaces with 1-6 names over a base and a derived interface (overrides included), each "
        "implementation missing / compatible / incompatible / non-callable / non-introspectable, "
        "declared directly, through a derived interface or not at all, tentative on/off, verifyObject on "
        "instances and on classes that provide directly, verifyClass; a case is non-trivial when it has a "
        "method whose implementation is introspected or at least one failure; distinct = distinct "
        "(mode, outcome classes, interface signature, implementation signature) signature")
TRUSTED_BASE = [
    "harness/translate/incompat.py: the abstraction len(x['required']) -> req, len(x['positional']) -> npos, "
    "x['varargs'|'kwargs'] -> 'is a name' (parameter names are non-empty strings) of the fail-closed translator",
    "harness/translate/verify_kernel.py: statement/expression translation of _verify_element, _verify, verifyClass, "
    "verifyObject, fromMethod into Gallina (try/except AttributeError -> getattr_raises, early return/raise -> "
    "option err / outcome, the for/try/except-append loop -> collect)",
    "Model/Verify.v vocabulary: the value of each Python test (isinstance(attr, FunctionType), callable(attr), ...) on "
    "the candidate description attr_val (validated on every run: the driver classifies the real attribute with the same "
    "tests), and the hand-written arithmetic of fromFunction (from_function; C18 regenerates fromFunction in its own vocabulary)",
    "inspect.signature(...).bind as the run-time oracle validating Spec/Binds.v admits/binds",
]
ASSUMPTIONS = [
    "scope of the property: positional, defaulted, *args, **kwargs parameters; DEFAULTED keyword-only parameters "
    "added to either side are judged as not changing the verdict (grid streams '*_kwonly_impl' / '*_kwonly_iface'; "
    "justified by C18_description_ignores_kwonly_and_locals); required keyword-only / positional-only "
    "parameters, methods with neither a first parameter nor *args (uncallable through an instance, yet accepted: "
    "C17_selfless_method_accepted_refuted) and staticmethods under verifyClass are run and recorded "
    "(coverage.distribution 'unjudged:*') but not judged",
    "a call shape is (number of positional arguments, one keyword that names no parameter); passing declared "
    "parameters by keyword (which depends on parameter names) is outside the model, as it is outside _incompat",
]
VERIFY_PY = os.path.join(C.REPO, "src", "zope", "interface", "verify.py")
GEN = os.path.join(C.COQ, "Gen", "Incompat.v")
GEN_KERNEL = os.path.join(C.COQ, "Gen", "VerifyKernel.v")
INTERFACE_PY = os.path.join(C.REPO, "src", "zope", "interface", "interface.py")
NOT_A_METHOD = "implementation is not a method"

_messages = None


def _load_messages():
    """message texts of the kernel that is in coq/Gen/Incompat.v right now"""
    global _messages
    if _messages is None:
        try:
            _messages = TR.translate_file(VERIFY_PY)[1]
        except Exception:  # noqa  (refused: the pinned kernel is in place)
            _messages = TR.pinned()[1]
    return _messages


def regenerate(run):
    """Re-translate verify.py (and interface.py:fromMethod) into coq/Gen/Incompat.v and
    coq/Gen/VerifyKernel.v (fail closed: a refusal is reported, and the pinned kernel is written so that
    the correspondence and the Spec oracle can still run)."""
    global _messages
    errors = []
    try:
        text, msgs = TR.translate_file(VERIFY_PY)
    except Exception as e:  # noqa
        text, msgs = TR.pinned()
        errors.append("harness/translate/incompat.py refused %s (%s: %s); coq/Gen/Incompat.v holds the pinned kernel, "
                      "so the theorems of Properties/C17.v are NOT about the current source" % (VERIFY_PY, type(e).__name__, e))
    _messages = msgs
    C.write_if_changed(GEN, text)
    try:
        text = VK.translate_files(VERIFY_PY, INTERFACE_PY)
    except Exception as e:  # noqa
        text = VK.pinned()
        errors.append("harness/translate/verify_kernel.py refused %s / %s (%s: %s); coq/Gen/VerifyKernel.v holds the "
                      "pinned transcription, so the C17_generated_* theorems are NOT about the current source"
                      % (VERIFY_PY, INTERFACE_PY, type(e).__name__, e))
    C.write_if_changed(GEN_KERNEL, text)
    return errors


# --------------------------------------------------------------------------- generation

def params(sig, first=None):
    """(r, o, va, kw) -> parameter list source; first = 'self' / 'cls' / None"""
    r, o, va, kw = sig
    ps = ([first] if first else []) + ["p%d" % i for i in range(r)] + ["q%d=None" % i for i in range(o)]
    if va:
        ps.append("*va")
    if kw:
        ps.append("**kw")
    return ", ".join(ps)


ALL_SIGS = [(r, o, va, kw) for r in range(4) for o in range(4) for va in (0, 1) for kw in (0, 1)]

# impl kind -> (what getattr gives on an instance, on the class); None = do not generate there
ATTR_OF = {
    "missing": ("missing", "missing"),
    "method": ("method", "function"),
    "classmethod": ("method", "method"),
    "staticmethod": ("function", "function"),
    "wrapped_method": ("method", "function"),        # functools.wraps(inner)(wrapper): callers reach the wrapper
    "wrapped_classmethod": ("method", "method"),
    "wrapped_staticmethod": ("function", "function"),
    "instfunc": ("function", None),
    "poolfunc_inst": ("function", None),       # a function object shared with other verifications, in the instance dict
    "poolfunc_method": ("method", "function"),  # the same function object in a class body (its first parameter is self)
    "builtin": ("builtin", "builtin"),
    "methdesc": (None, "builtin"),
    "property": ("other", "property"),
    "instproperty": ("property", None),
    "callable": ("callable", "callable"),
    "partial": ("callable", "callable"),
    "other": ("other", "other"),
    "value": ("other", None),
}
FIRST = {"method": "self", "classmethod": "cls", "wrapped_method": "self", "wrapped_classmethod": "cls"}


def kwonly_suffix(src, sig, how):
    """the parameter list [src] of signature [sig] with keyword-only parameters added: how = 1 one defaulted
    (k8=None), 2 two defaulted.  A DEFAULTED keyword-only parameter changes neither the description fromFunction
    gives (C18_description_ignores_kwonly_and_locals) nor which of the property's call shapes bind, so the judged
    signature stays [sig]: the verdict must be the one for the signature without them."""
    r, o, va, kw = sig
    ps = [x.strip() for x in src.split(",") if x.strip()]
    tail = ["**kw"] if kw else []
    if kw:
        ps = ps[:-1]
    if not va:
        ps.append("*")
    ps += ["k8=None"] + (["k9=0"] if how == 2 else [])
    return ", ".join(ps + tail)


def _method_elem(isig, kind, msig, level="own", kwonly=(0, 0)):
    el = {"level": level, "desc": {"kind": "method", "params": params(isig), "sig": list(isig)},
          "impl": {"kind": kind, "params": params(msig, FIRST.get(kind)), "sig": list(msig),
                   "has_first": kind in FIRST}}
    if kwonly[0]:
        el["desc"]["params"] = kwonly_suffix(el["desc"]["params"], isig, kwonly[0])
    if kwonly[1]:
        el["impl"]["params"] = kwonly_suffix(el["impl"]["params"], msig, kwonly[1])
    return el


SELFLESS = [(0, 0, 1, 0), (0, 0, 1, 1)]     # def m(*va) / def m(*va, **kw): the instance lands in *va


def _selfless_elem(isig, kind, msig, level="own"):
    el = _method_elem(isig, kind, msig, level)
    el["impl"]["params"] = params(msig)       # no self / cls
    el["impl"]["has_first"] = False
    return el


def _grid():
    cases = []
    for isig in ALL_SIGS:
        for msig in SELFLESS:
            for how, kind, cand in (("bound", "method", "instance"), ("class", "method", "class"),
                                    ("bound", "classmethod", "instance"), ("class", "classmethod", "class")):
                cases.append({"stream": "grid", "how": "selfless_" + kind + "_" + how,
                              "vt": "c" if cand == "class" else "o", "tentative": False, "declare": 1,
                              "cand": cand, "elems": [_selfless_elem(isig, kind, msig)]})
    for isig in ALL_SIGS:
        for msig in ALL_SIGS:
            for how in ("func", "bound", "class"):
                kind = "instfunc" if how == "func" else "method"
                cases.append({"stream": "grid", "how": how, "vt": "c" if how == "class" else "o",
                              "tentative": False, "declare": 1,
                              "cand": "class" if how == "class" else "instance",
                              "elems": [_method_elem(isig, kind, msig)]})
    # defaulted keyword-only parameters on either side change no verdict (round-6 seed C17/a6: fromFunction counting
    # __kwdefaults__ among the positional defaults); every signature pair once with them on the implementation,
    # every pair once with them on the interface
    for i, isig in enumerate(ALL_SIGS):
        for j, msig in enumerate(ALL_SIGS):
            how = ("bound", "class", "func")[(i + j) % 3]
            kind = "instfunc" if how == "func" else "method"
            for tag, kwo in (("kwonly_impl", (0, 1 + (i + j) % 2)), ("kwonly_iface", (1 + (i + j) % 2, 0))):
                cases.append({"stream": "grid", "how": how + "_" + tag, "vt": "c" if how == "class" else "o",
                              "tentative": False, "declare": 1,
                              "cand": "class" if how == "class" else "instance",
                              "elems": [_method_elem(isig, kind, msig, kwonly=kwo)]})
    return cases


def _agg_case(rng):
    cand = rng.choice(["instance", "instance", "instance", "class", "class", "classobj"])
    vt = "c" if cand == "class" else "o"
    on_class = cand != "instance"
    n = rng.randint(1, 6)
    elems = []
    for _ in range(n):
        level = rng.choice(["base", "own", "own", "override"])
        is_attr = rng.random() < 0.3
        kinds = [k for k, v in ATTR_OF.items() if v[1 if on_class else 0] is not None]
        kinds = [k for k in kinds if not k.startswith("poolfunc") and not k.startswith("wrapped")]
        if cand == "class":
            kinds.remove("staticmethod")        # verifyClass strips a parameter of staticmethods: unjudged stream
        weights = {"missing": 5, "method": 8, "classmethod": 2, "instfunc": 3, "staticmethod": 1}
        kind = rng.choices(kinds, [weights.get(k, 1) for k in kinds])[0]
        isig = rng.choice(ALL_SIGS)
        if rng.random() < 0.5:
            # a compatible or nearly compatible implementation
            r, o, va, kw = isig
            msig = (max(0, r - rng.randint(0, 1)), min(3, o + rng.randint(0, 1)), va or rng.randint(0, 1),
                    kw or rng.randint(0, 1))
            if rng.random() < 0.3:
                msig = rng.choice([(min(3, r + 1), o, va, kw), (r, max(0, o - 1), 0, kw), (r, o, va, 0), (r, o, 0, kw)])
        else:
            msig = rng.choice(ALL_SIGS)
        selfless = kind in FIRST and rng.random() < 0.08
        if selfless:
            msig = rng.choice(SELFLESS)
        if is_attr:
            el = {"level": level, "desc": {"kind": "attr"},
                  "impl": {"kind": kind, "params": params(msig, FIRST.get(kind)), "sig": list(msig),
                           "has_first": kind in FIRST}}
        else:
            el = _method_elem(isig, kind, msig, level)
        if selfless:
            el["impl"]["params"] = params(msig)
            el["impl"]["has_first"] = False
        if level == "override" and rng.random() < 0.7:
            el["base_params"] = params(rng.choice(ALL_SIGS))
        elems.append(el)
    _add_aliases(rng, elems, on_class)
    # what a program may have asked the interface before verifying: single-name look-ups
    # (the outcome of verification must not depend on them)
    pre = []
    style = rng.random()
    if style < 0.25:
        names = []
    elif style < 0.5:
        names = [rng.randrange(n)]
    else:
        names = [i for i in range(n) if rng.random() < 0.5]
        rng.shuffle(names)
    for i in names:
        pre.append([rng.choice(["I", "I", "I", "ISub", "IBase"]),
                    rng.choice(["getitem", "contains", "get", "query", "direct"]), "n%d" % i])
    for _ in range(rng.choice([0, 0, 1, 2])):
        pre.insert(rng.randint(0, len(pre)), [rng.choice(["I", "I", "ISub", "IBase"]),
                                              rng.choice(["getitem", "contains", "get", "query"]), "nope"])
    return {"stream": "agg", "vt": vt, "tentative": rng.random() < 0.3,
            "declare": rng.choice([0, 0, 1, 1, 2]), "cand": cand, "elems": elems, "pre": pre}


def _add_aliases(rng, elems, on_class, p=0.12):
    """descriptions whose __name__ differs from the key they are stored under; sometimes the candidate
    has something under that other name too (which must not matter: the contract names the KEY)"""
    for i, el in enumerate(elems):
        if el["level"] == "override" or "alias" in el or rng.random() >= p:
            continue
        if el["desc"]["kind"] == "attr":
            later = [j for j in range(i + 1, len(elems)) if elems[j]["desc"]["kind"] == "attr"
                     and elems[j]["level"] == el["level"] and "alias" not in elems[j]]
            if later and rng.random() < 0.4:
                j = rng.choice(later)
                el["alias"] = {"how": "shared", "with": j}
                elems[j]["alias"] = {"how": "second", "of": i}
                continue
            el["alias"] = {"how": "word", "name": "al%d" % i}
        elif rng.random() < 0.75:
            el["alias"] = {"how": "reuse", "name": "al%d" % i}
        else:
            el["alias"] = {"how": "ctor", "name": "al%d" % i}
            el["desc"] = {"kind": "method", "params": "", "sig": [0, 0, 0, 0]}
        if rng.random() < 0.6:
            # something under the description's own name
            if el["desc"]["kind"] == "method" and rng.random() < 0.7:
                msig = tuple(el["desc"]["sig"])
                kind = "method"
                el["alias_impl"] = {"kind": kind, "params": params(msig, "self"), "sig": list(msig), "has_first": True}
            else:
                el["alias_impl"] = {"kind": "other", "params": "", "sig": [0, 0, 0, 0], "has_first": False}


def _alias_case(rng):
    """a small interface in which most descriptions are stored under a key that is not their __name__"""
    c = _agg_case(rng)
    for el in c["elems"]:
        for k in ("alias", "alias_impl"):
            el.pop(k, None)
        if el["level"] == "override":
            el["level"] = "own"
            el.pop("base_params", None)
    _add_aliases(rng, c["elems"], c["cand"] != "instance", p=0.8)
    c["stream"] = "alias"
    return c


def _near(rng, sg):
    r, o, va, kw = sg
    return rng.choice([sg, (min(3, r + 1), o, va, kw), (max(0, r - 1), o, va, kw), (r, max(0, o - 1), va, kw),
                       (r, min(3, o + 1), va, kw), (r, o, 1, 1), (0, 0, 1, 1), (0, 0, 0, 0), (r, o, 0, 0)])


def _wrapped_case(rng):
    """methods / classmethods / staticmethods decorated with functools.wraps (one decorator or a chain of two)
    whose wrapper takes the same, more (*args, **kw) or fewer arguments than what it wraps: the contract is
    about the callable callers reach, i.e. the outermost wrapper"""
    cand = rng.choice(["instance", "instance", "class"])
    elems = []
    for _ in range(rng.randint(1, 3)):
        kinds = ["wrapped_method", "wrapped_method", "wrapped_classmethod"] + (["wrapped_staticmethod"] if cand == "instance" else [])
        kind = rng.choice(kinds)
        isig = rng.choice(ALL_SIGS)
        style = rng.random()
        if style < 0.4:        # the wrapped function fits the interface, the wrapper may not
            inner, outer = isig, _near(rng, isig)
        elif style < 0.8:      # the wrapper fits, the wrapped function may not
            outer, inner = isig, _near(rng, isig)
        else:
            outer, inner = rng.choice(ALL_SIGS), rng.choice(ALL_SIGS)
        chain = [params(inner, FIRST.get(kind))]
        if rng.random() < 0.3:
            chain.append(params(_near(rng, inner), FIRST.get(kind)))
        el = _method_elem(isig, kind, outer, rng.choice(["base", "own"]))
        el["impl"]["inner"] = chain
        elems.append(el)
    return {"stream": "wrapped", "vt": "c" if cand == "class" else "o", "tentative": rng.random() < 0.2,
            "declare": rng.choice([0, 1, 1, 1]), "cand": cand, "elems": elems}


POOL_SIGS = [sg for sg in ALL_SIGS if (sg[0] + sg[1] >= 1 or sg[2]) and sg[0] + sg[1] <= 4]


def _seq_cases(rng):
    """a sequence of 2-3 verifications in one process whose candidates share function objects in different
    roles (plain function in an instance dict / method in a class body, verifyObject / verifyClass), possibly
    with __defaults__ reassigned in between; every prefix is emitted as a self-contained case (the earlier
    steps are its history), so each verification is judged on its own"""
    nfuncs = rng.randint(1, 2)
    sigs = {}
    funcs = {}
    for k in range(nfuncs):
        sg = rng.choice(POOL_SIGS)
        sigs["f%d" % k] = sg
        funcs["f%d" % k] = params(sg)
    steps = []
    for _ in range(rng.randint(2, 3)):
        role = rng.choice(["inst", "method_obj", "method_cls"])
        step = {"stream": "seq", "vt": "c" if role == "method_cls" else "o", "tentative": rng.random() < 0.2,
                "declare": rng.choice([0, 1, 1, 1]), "cand": "class" if role == "method_cls" else "instance",
                "elems": []}
        if steps and rng.random() < 0.3:
            fname = rng.choice(sorted(sigs))
            r, o, va, kw = sigs[fname]
            k = rng.randint(0, r + o)
            sigs[fname] = (r + o - k, k, va, kw)
            step["set_defaults"] = {fname: k}
        for fname in sorted(sigs):
            r, o, va, kw = sigs[fname]
            if rng.random() < 0.6:
                # an interface signature that the function satisfies in ONE of its two roles
                if rng.random() < 0.5:
                    isig = (r, o, va, kw)                                  # matches the plain function
                else:
                    isig = (max(0, r - 1), o if r >= 1 else max(0, o - 1), va, kw)   # matches the method
            else:
                isig = rng.choice(ALL_SIGS)
            kind = "poolfunc_inst" if role == "inst" else "poolfunc_method"
            step["elems"].append({"level": "own", "desc": {"kind": "method", "params": params(isig), "sig": list(isig)},
                                  "impl": {"kind": kind, "func": fname, "params": params(sigs[fname]),
                                           "sig": list(sigs[fname]), "has_first": False}})
        steps.append(step)
    out = []
    for i, st in enumerate(steps):
        out.append(dict(st, funcs=funcs, history=steps[:i]))
    return out


UNJUDGED = [
    # (label, interface parameter list, impl kind, implementation parameter list, verify on)
    ("kwonly_impl_required", "p0", "method", "self, p0, *, k", "instance"),
    ("kwonly_impl_defaulted", "p0", "method", "self, p0, *, k=None", "instance"),
    ("kwonly_iface", "p0, *, k", "method", "self, p0", "instance"),
    ("kwonly_both", "p0, *, k", "method", "self, p0, *, k", "instance"),
    ("kwonly_after_varargs", "p0, *va, k=None, **kw", "method", "self, p0, *va, k=None, **kw", "instance"),
    ("posonly_impl", "p0, q0=None", "method", "self, p0, q0=None, /", "instance"),
    ("posonly_iface", "p0, /, q0=None", "method", "self, p0, q0=None", "instance"),
    ("noself_kwargs", "", "method", "**kw", "instance"),
    ("noself_nothing", "", "method", "", "instance"),
    ("noself_nothing_class", "", "method", "", "class"),
    ("noself_kwargs_classmethod", "", "classmethod", "**kw", "instance"),
    ("self_defaulted", "", "method", "self=None", "instance"),
    ("staticmethod_verifyClass", "p0", "staticmethod", "p0", "class"),
    ("staticmethod_verifyClass_two", "p0", "staticmethod", "x, p0", "class"),
    ("staticmethod_verifyObject", "p0", "staticmethod", "p0", "instance"),
]


def _unjudged():
    cases = []
    for label, ip, kind, mp, cand in UNJUDGED:
        cases.append({"stream": "unjudged", "label": label, "vt": "c" if cand == "class" else "o",
                      "tentative": False, "declare": 1, "cand": cand,
                      "elems": [{"level": "own", "desc": {"kind": "method", "params": ip},
                                 "impl": {"kind": kind, "params": mp}}]})
    return cases


def generate(run, tier):
    rng = run.rng("agg")
    n = 1300 if tier == "quick" else 20000
    cases = _grid() + [_agg_case(rng) for _ in range(n)]
    rng = run.rng("alias")
    cases += [_alias_case(rng) for _ in range(300 if tier == "quick" else 4000)]
    rng = run.rng("wrapped")
    cases += [_wrapped_case(rng) for _ in range(400 if tier == "quick" else 5000)]
    rng = run.rng("seq")
    for _ in range(250 if tier == "quick" else 3000):
        cases += _seq_cases(rng)
    return cases + _unjudged()


# --------------------------------------------------------------------------- Coq terms

def _sig(sig, extra=0):
    r, o, va, kw = sig
    return "(mkSig %d %d %s %s)" % (r + extra, r + o + extra, C.cbool(va), C.cbool(kw))


def expected_attr(case, el):
    return ATTR_OF[el["impl"]["kind"]][0 if case["cand"] == "instance" else 1]


def _attr_val(case, el):
    a = expected_attr(case, el)
    im = el["impl"]
    if a in ("function", "method"):
        raw = _sig(im["sig"], 1 if im["has_first"] else 0)
        return "(%s %s)" % ("VFunction" if a == "function" else "VMethod", raw)
    return {"missing": "VMissing", "builtin": "VBuiltin", "property": "VProperty", "callable": "VCallable",
            "other": "VOther"}[a]


def _err(e):
    cls, idx, mess = e
    if cls == "DoesNotImplement":
        return "EDoesNotImplement"
    if idx < 0:
        return None
    if cls == "BrokenImplementation":
        return "(EBrokenImplementation %d)" % idx
    if cls == "BrokenMethodImplementation":
        if mess == NOT_A_METHOD:
            return "(ENotAMethod %d)" % idx
        msgs = _load_messages()
        return "(EBrokenMethod %d %d)" % (idx, msgs.index(mess) if mess in msgs else 99)
    return None


def _outcome(out):
    if out[0] == "ok":
        return "(Some Ok)"
    if out[0] == "single":
        e = _err(out[1])
        return "None" if e is None else "(Some (Single %s))" % e
    if out[0] == "multi":
        es = [_err(e) for e in out[1]]
        return "None" if None in es else "(Some (Multiple %s))" % C.clist(es)
    return "None"


def coq_case(case, obs, mode):
    if case["stream"] == "unjudged":
        return None
    if "driver_exc" in obs:
        raise C.HarnessError("C17 driver could not build a case: %s %r" % (obs["driver_exc"], case))
    elems = case["elems"]
    want_attrs = [expected_attr(case, el) for el in elems]
    if obs["attrs"] != want_attrs:
        raise C.HarnessError("C17 generator/driver mismatch on attribute kinds: %r vs %r for %r"
                             % (obs["attrs"], want_attrs, case))
    order = obs["order"]
    order_ok = sorted(order) == list(range(len(elems)))
    terms = []
    for i in (order if order_ok else range(len(elems))):
        el = elems[i]
        d = el["desc"]
        desc = "DAttr" if d["kind"] == "attr" else "(DMethod %s)" % _sig(d["sig"])
        # an exception names the DESCRIPTION; two keys sharing one description object share its number
        num = el["alias"]["of"] if el.get("alias", {}).get("how") == "second" else i
        terms.append("(%d, %s, %s)" % (num, desc, _attr_val(case, el)))
    oracle = C.clist(["(%d, %s)" % (i, C.clist(["(%d, %s, %s, %s)" % (k, C.cbool(kw), C.cbool(a), C.cbool(b))
                                                 for k, kw, a, b in rows]))
                      for i, rows in obs["oracle"]])
    return "(mkCase %s %s %s %s %s %s %s %s %s)" % (
        "VClass" if case["vt"] == "c" else "VObject", C.cbool(case["tentative"]), C.cbool(case["declare"] != 0),
        C.cbool(obs["declares"] is True), C.cbool(case["cand"] != "instance"), C.clist(terms), C.cbool(order_ok),
        oracle, _outcome(obs["out"]))


# --------------------------------------------------------------------------- bookkeeping

def _out_sig(out):
    if out[0] == "ok":
        return "ok"
    if out[0] == "single":
        return out[1][0]
    if out[0] == "multi":
        return "Multi(" + ",".join(sorted(e[0] for e in out[1])) + ")"
    return "exc:" + out[1]


def classify(case, obs):
    if case["stream"] == "unjudged" or "out" not in obs:
        return None
    introspected = tuple((tuple(el["desc"]["sig"]), tuple(el["impl"]["sig"]), el["impl"]["kind"])
                         for el in case["elems"]
                         if el["desc"]["kind"] == "method" and expected_attr(case, el) in ("function", "method"))
    if not introspected and obs["out"][0] == "ok":
        return None
    return (case["vt"], case["cand"], _out_sig(obs["out"]), introspected if len(introspected) == 1 else len(introspected),
            case["tentative"], case["declare"] != 0)


def kind(case, obs):
    out = _out_sig(obs["out"]) if "out" in obs else "driver_exc"
    if case["stream"] == "unjudged":
        return "unjudged:%s:%s" % (case["label"], out)
    if case["stream"] == "grid":
        return "grid:%s:%s" % (case["how"], out)
    return "%s:%s:%s" % (case["stream"], case["vt"], out if len(out) < 60 else out[:57] + "...")


def finding_key(case, obs, mode):
    if case["stream"] == "grid":
        el = case["elems"][0]
        return "grid/%s/%s/%s/%s" % (case["how"], "".join(map(str, el["desc"]["sig"])),
                                     "".join(map(str, el["impl"]["sig"])), _out_sig(obs["out"]))
    return None


def replay_text(case, obs, mode):
    body, own, cls, inst = [], [], [], []
    for i, el in enumerate(case["elems"]):
        d = el["desc"]
        line = "    n%d = Attribute('a')" % i if d["kind"] == "attr" else "    def n%d(%s): pass" % (i, d["params"])
        if el["level"] == "base":
            body.append(line)
        else:
            own.append(line)
            if el["level"] == "override":
                body.append("    def n%d(%s): pass" % (i, el["base_params"]) if "base_params" in el
                            else "    n%d = Attribute('b')" % i)
        im = el["impl"]
        cls.append("    # n%d: implementation kind %s(%s)%s%s%s" % (
            i, im["kind"], im.get("params", ""),
            "; functools.wraps around (innermost first) %r" % (im["inner"],) if "inner" in im else "",
            "; the description is stored under this key but its __name__ comes from %r" % (el["alias"],) if "alias" in el else "",
            "; the candidate also has %r under that name" % (el["alias_impl"]["kind"],) if "alias_impl" in el else ""))
    return ("# PURE_PYTHON=%s; candidate kind %s, declare=%s, tentative=%s, verify%s\n"
            "from zope.interface import Interface, Attribute\n"
            "class IBase(Interface):\n%s\nclass I(IBase):\n%s\nclass C:\n%s\n"
            "# (exact construction: harness/drivers/c17_driver.py build_candidate; replay with bin/check C17 --replay <this file>)\n"
            "# shared function objects: %r; earlier verifications in the same process: %r\n"
            "# look-ups performed before verifying (interface, operation, name): %r\n"
            "# names reported by I.namesAndDescriptions(all=True) after verifying (element numbers): %r\n"
            "# observed: %r"
            % ("1" if mode == "py" else "0", case["cand"], case["declare"], case["tentative"],
               "Class" if case["vt"] == "c" else "Object", "\n".join(body) or "    pass", "\n".join(own) or "    pass",
               "\n".join(cls) or "    pass", case.get("funcs", {}),
               [(h["vt"], h["cand"], h.get("set_defaults"), [(e["desc"]["params"], e["impl"]["kind"], e["impl"].get("func"))
                                                            for e in h["elems"]]) for h in case.get("history", [])],
               case.get("pre", []), obs.get("order"), obs.get("out")))


TECHNIQUE = ("Coq proof over Gallina kernels regenerated from verify.py (_incompat; _verify_element, _verify, verifyClass, "
             "verifyObject, fromMethod) by fail-closed translators, proved equal to the model of _verify/_verify_element; vm_compute correspondence with the implementation on the exhaustive "
             "(r,o,*,**)^2 grid; inspect.signature.bind as independent oracle for the Spec")
LEVEL_TEXT = ("Machine-checked theorems (Properties/C17.v, 12 theorems, closed under the global context) state for all "
              "signatures with no bound on arities that _incompat (as translated from the current source) accepts exactly "
              "when every admitted call shape binds, that verification succeeds iff the candidate conforms, that the "
              "failures are reported exactly, and that the model these statements are about equals the Gallina regenerated "
              "from the current text of _verify_element/_verify/verifyClass/verifyObject/fromMethod for all inputs; the model is compared with verifyObject/verifyClass on 12288 grid cases and "
              "an aggregation stream in both modes, and the raw outcomes are judged in Coq against the brute-force Spec "
              "and against inspect.signature.bind.")
LEVEL_NOTE = ("Trusted: Coq kernel/vm_compute; the two translators; the meaning of the vocabulary predicates on the "
              "candidate description and the hand-written fromFunction arithmetic (validated by the correspondence). Outside the "
              "judged scope: keyword-only/positional-only parameters, methods with neither self nor *args, staticmethods under verifyClass "
              "(recorded only).")
