"""REG — fidelity test of the shared registry model (Model/Adapter, Lookup, RegSys) against the
implementation.  Not a property of properties.jsonl; never listed in MANIFEST.json."""
from .. import common as C
from . import regcommon as RC

ID = "REG"
CLAIMED = False
NOT_CLAIMED_REASON = "internal fidelity test"
COQ_TARGETS = ["Tie/REG.vo"]
PROPERTY_FILE = "Tie/REG.v"
THEOREMS = []
TIE = "Tie.REG"
DRIVER = "reg_driver.py"
RULE = "random registry histories"
SHARD = 60


def generate(run, tier):
    rng = run.rng("gen")
    cases = []
    for i in range(300 if tier == "quick" else 3000):
        world, ifaces, classes = RC.gen_world(rng, n_ifaces=rng.choice([3, 4, 5]), n_classes=rng.choice([0, 2, 3]))
        world["ops"] = RC.gen_history(rng, world, ifaces, classes, n_ops=rng.choice([10, 20, 30]))
        cases.append(world)
    return cases


def coq_case(case, obs, mode):
    if "error" in obs:
        raise C.HarnessError("driver error: " + obs["error"])
    return RC.coq_hist_case(case, obs)


def classify(case, obs):
    return tuple(op[0] for op in case["ops"][:12])
